(* PersistProofs.v -- property C02 "write-through persistence": at every point
   between API calls the bytes of the image alone reopen, in both validation
   modes, to the cached state.

   ReopenProofs.v proves the round trip for every state satisfying [Coherent].
   This file proves that a strengthened invariant [PInv] (Coherent + no free
   sectors + directory / MiniFAT chains disjoint + per-entry conditions + the
   table represents a tree) holds for the empty file, is kept by the metadata
   updates, by create_storage (including the growth of the directory chain by
   a sector, in the regime below 109 FAT sectors), by remove_storage, and by
   creation / removal of empty streams; and derives the round trip for every
   state reached by a history of these operations ([persist_history]).

   Sections:
     0-1   small facts; the invariant ([Base], [PInv])
     2-3   steps that write only into the directory chain ([dstep], [dframe])
           keep [Base]
     4     per-entry conditions under the field setters
     5     Directory::validate (strict) succeeds on a represented tree
           ([tree_validates]); [PInv_Coherent]
     6     metadata updates
     7-8   relinking at table level; remove_storage
     9-11  the allocator (growth branch): FAT tail, frames, shapes;
           the directory chain extension keeps [Base]
     12-13 insertion; create_storage
     14-15 the empty file; refused metadata updates
     16    streams without data
     17-18 queries; histories ([persist_history])
     19    non-vacuity
   Stdlib only; no axioms; every proof is complete. *)
From Coq Require Import List NArith Lia Bool ZifyN ZifyBool Permutation.
From Cfb.model Require Import Base Names Time DirEnt State Alloc Dir Mini Store Handle Open Cfb.
From Cfb.gen Require Import Consts.
From Cfb.proofs Require Import DirProofs ChainProofs.
From Cfb.proofs Require CodecProofs WalkProofs OpenTotal StrictProofs ReuseProofs
                        CoherenceProofs DirCoherence ReopenProofs ReadonlyTotal
                        QueryRefine MutRefine TreeProofs TimeProofs NamesProofs.
Import ListNotations.
Open Scope N_scope.

Ltac Zify.zify_post_hook ::= Z.div_mod_to_equations.

Import ReopenProofs.


(* ================================================================== *)
(* 0. small facts                                                      *)
(* ================================================================== *)

Lemma Forall_nthN : forall A (P : A -> Prop) l,
  Forall P l <-> (forall k x, nthN l k = Some x -> P x).
Proof.
  intros A P l. split.
  - intros H k x Hk. rewrite Forall_forall in H. apply H. eapply nthN_In. exact Hk.
  - induction l as [|a t IH]; intros H; [constructor|]. constructor.
    + apply (H 0 a). reflexivity.
    + apply IH. intros k x Hk. apply (H (N.succ k) x).
      rewrite nthN_cons_pos by lia. rewrite N.pred_succ. exact Hk.
Qed.

Lemma Forall_updN : forall A (P : A -> Prop) l i x,
  Forall P l -> P x -> Forall P (updN l i x).
Proof.
  intros A P l. induction l as [|a t IH]; intros i x H Hx; cbn [updN]; [constructor|].
  inversion H as [|? ? Ha Ht]; subst.
  destruct (i =? 0); constructor; auto.
Qed.

Lemma Forall_modN : forall (P : dirent -> Prop) ds i f,
  Forall P ds -> (forall e, P e -> P (f e)) -> Forall P (modN ds i f).
Proof.
  intros P ds i f H Hf. unfold modN. destruct (nthN ds i) as [e|] eqn:E; [|exact H].
  apply Forall_updN; [exact H|]. apply Hf. rewrite Forall_forall in H. apply H.
  eapply nthN_In. exact E.
Qed.

Lemma hd_nthN0 : forall (im : list (list byte)) h, nthN im 0 = Some h -> hd [] im = h.
Proof. intros [|a t] h H; [discriminate H|]. cbn in H. injection H as <-. reflexivity. Qed.

Lemma sector_bytes_nthN : forall s x sec, nthN (img s) (x + 1) = Some sec -> sector_bytes s x = sec.
Proof. intros s x sec H. unfold sector_bytes. rewrite H. reflexivity. Qed.

(* uniform, as seen through hd / sector_bytes *)
Lemma uniform_of_parts : forall s sl,
  lenN (img s) = nsect s + 1 -> lenN (hd [] (img s)) = sl ->
  (forall x, x < nsect s -> lenN (sector_bytes s x) = sl) ->
  uniform sl (img s).
Proof.
  intros s sl Hi Hh Hf. unfold uniform. apply Forall_nthN. intros k sec Hk.
  destruct (N.eq_dec k 0) as [->|Hk0].
  - rewrite <- (hd_nthN0 _ _ Hk). exact Hh.
  - pose proof (nthN_Some_lt _ _ _ _ Hk) as Hlt.
    replace k with ((k - 1) + 1) in Hk by lia.
    rewrite <- (sector_bytes_nthN _ _ _ Hk). apply Hf. lia.
Qed.

Lemma uniform_parts : forall s sl,
  lenN (img s) = nsect s + 1 -> uniform sl (img s) ->
  lenN (hd [] (img s)) = sl /\ (forall x, x < nsect s -> lenN (sector_bytes s x) = sl).
Proof.
  intros s sl Hi Hu. unfold uniform in Hu. rewrite Forall_nthN in Hu. split.
  - destruct (img s) as [|h t] eqn:E; [cbn [lenN] in Hi; lia|]. cbn [hd].
    apply (Hu 0 h). reflexivity.
  - intros x Hx. destruct (WalkProofs.nthN_lt_Some (img s) (x + 1) ltac:(lia)) as [sec Hs].
    rewrite (sector_bytes_nthN _ _ _ Hs). eapply Hu. exact Hs.
Qed.

(* a member of a FAT chain is never marked FAT_SECTOR *)
Lemma chain_cell : forall fat st ids x,
  chain_ids_of fat st = Ok ids -> In x ids ->
  exists v, nthN fat x = Some v /\ (v = END_OF_CHAIN \/ v <= MAX_REGULAR_SECTOR).
Proof.
  intros fat st ids x H Hx. apply WalkProofs.chain_ids_path in H.
  destruct (path_next _ _ _ _ H Hx) as [nx Hn]. apply WalkProofs.next_of_Ok in Hn.
  destruct Hn as [Hn Hr]. exists nx. split; [exact Hn|]. destruct Hr as [->|[A _]]; auto.
Qed.

Lemma chain_not_marked : forall s st ids x,
  (forall f, In f (difat s) -> nthN (fat s) f = Some FAT_SECTOR) ->
  chain_ids_of (fat s) st = Ok ids -> In x ids -> ~ In x (difat s).
Proof.
  intros s st ids x Hm H Hx Hd. destruct (chain_cell _ _ _ _ H Hx) as (v & Hv & Hr).
  rewrite (Hm x Hd) in Hv. injection Hv as <-. markers. lia.
Qed.

(* ================================================================== *)
(* 1. the strengthened invariant                                       *)
(* ================================================================== *)

Definition DirMiniDisj (s : cstate) : Prop :=
  forall dids mids, DirCoherence.dir_ids s dids -> DirCoherence.minifat_ids s mids ->
    forall x, In x dids -> ~ In x mids.

(* everything in [Coherent] that does not speak about the contents of the
   directory table, plus: no free sectors, directory and MiniFAT chains disjoint *)
Record Base (s : cstate) : Prop := mkBase {
  b_hdr : HeaderCoherent s;
  b_fat : CoherenceProofs.FatInv s;
  b_difat_ok : CoherenceProofs.DifatOk s;
  b_ids : difat_ids s = [];
  b_ndifat : lenN (difat s) <= NUM_DIFAT_HDR;
  b_nsect : nsect s <= MAX_REGULAR_SECTOR;
  b_uniform : uniform (slen s) (img s);
  b_fat_tail : FatTailFree s;
  b_marks : forall f, In f (difat s) -> nthN (fat s) f = Some FAT_SECTOR;
  b_fat_valid : check_pointees false (fat s) (lenN (fat s)) [] = Ok tt;
  b_mini : DirCoherence.MiniFatCoherent s;
  b_mini_tail : MiniTailFree s;
  b_mini_last : lastN (minifat s) <> Some FREE_SECTOR;
  b_mini_valid : check_pointees true (minifat s) (lenN (minifat s)) [] = Ok tt;
  b_free : free s = [];
  b_disj : DirMiniDisj s
}.

(* per-entry conditions that every write of the library keeps *)
Definition black_ok (e : dirent) : Prop := d_type e <> TUnalloc -> d_color e = Black.
Definition noroot_links (e : dirent) : Prop :=
  d_left e <> ROOT_STREAM_ID /\ d_right e <> ROOT_STREAM_ID /\ d_child e <> ROOT_STREAM_ID.
Definition ent_ok (v : version) (e : dirent) : Prop :=
  CodecProofs.dirent_wf v e /\ black_ok e /\ noroot_links e.

Definition RootOK (s : cstate) : Prop :=
  exists root, nthN (dirs s) ROOT_STREAM_ID = Some root /\
    d_left root = NO_STREAM /\ d_right root = NO_STREAM /\
    d_len root mod MINI_SECTOR_LEN = 0 /\
    lenN (minifat s) <= d_len root / MINI_SECTOR_LEN.

Definition ctrue : N -> list byte -> Prop := fun _ _ => True.

Definition TreeInv (ds : list dirent) : Prop :=
  exists t, QueryRefine.TreeRep ds ctrue t /\ QueryRefine.Unshared ds t.

Record PInv (s : cstate) : Prop := mkPInv {
  p_base : Base s;
  p_dir : DirCoherence.DirCoherent s;
  p_ents : Forall (ent_ok (ver s)) (dirs s);
  p_root : RootOK s;
  p_tree : TreeInv (dirs s)
}.

(* ================================================================== *)
(* 2. steps that only write into the directory chain                   *)
(* ================================================================== *)

Definition dframe (dids : list N) (s s' : cstate) : Prop :=
  ver s' = ver s /\ nsect s' = nsect s /\ difat_ids s' = difat_ids s /\ difat s' = difat s /\
  fat s' = fat s /\ free s' = free s /\ dir_start s' = dir_start s /\ minifat s' = minifat s /\
  minifat_start s' = minifat_start s /\ mfree s' = mfree s /\
  lenN (img s') = lenN (img s) /\ hd [] (img s') = hd [] (img s) /\
  (forall x, ~ In x dids -> sector_bytes s' x = sector_bytes s x) /\
  (forall x, lenN (sector_bytes s' x) = lenN (sector_bytes s x)) /\
  lenN (dirs s') = lenN (dirs s).

Lemma dframe_refl : forall dids s, dframe dids s s.
Proof. intros. unfold dframe. repeat split; reflexivity. Qed.

Lemma dframe_trans : forall dids a b c, dframe dids a b -> dframe dids b c -> dframe dids a c.
Proof.
  intros dids a b c (A1 & A2 & A3 & A4 & A5 & A6 & A7 & A8 & A9 & A10 & A11 & A12 & A13 & A14 & A15)
                    (B1 & B2 & B3 & B4 & B5 & B6 & B7 & B8 & B9 & B10 & B11 & B12 & B13 & B14 & B15).
  unfold dframe. repeat split; try congruence.
  all: try (intros x Hx; rewrite (B13 x Hx); apply A13; exact Hx).
  all: try (intros x; rewrite B14; apply A14).
Qed.

Lemma dframe_slen : forall dids s s', dframe dids s s' -> slen s' = slen s.
Proof. intros dids s s' (H & _). unfold slen. rewrite H. reflexivity. Qed.

(* the hypotheses under which the directory writes are deterministic *)
Definition DH (dids : list N) (s : cstate) : Prop :=
  DirCoherence.dir_ids s dids /\ good_chain s dids /\
  128 * lenN (dirs s) <= slen s * lenN dids /\ nsect s <= MAX_REGULAR_SECTOR.

Lemma good_chain_dframe : forall dids s s' ids,
  dframe dids s s' -> good_chain s ids -> good_chain s' ids.
Proof.
  intros dids s s' ids F (Hnd & HF & Hi & Hp).
  pose proof (dframe_slen _ _ _ F) as Hsl.
  destruct F as (_ & F2 & _ & _ & _ & _ & _ & _ & _ & _ & F11 & _ & _ & F14 & _).
  split; [exact Hnd|]. split; [|split; [congruence|rewrite Hsl; exact Hp]].
  rewrite Forall_forall in *. intros x Hx. destruct (HF x Hx) as [A B].
  rewrite F2, Hsl, F14. split; assumption.
Qed.

Lemma DH_dframe : forall dids s s', DH dids s -> dframe dids s s' -> DH dids s'.
Proof.
  intros dids s s' (H1 & H2 & H3 & H4) F.
  pose proof (dframe_slen _ _ _ F) as Hsl.
  pose proof (good_chain_dframe _ _ _ _ F H2) as G.
  destruct F as (_ & F2 & _ & _ & F5 & _ & F7 & _ & _ & _ & _ & _ & _ & _ & F15).
  split; [unfold DirCoherence.dir_ids in *; rewrite F5, F7; exact H1|].
  split; [exact G|]. split; [rewrite F15, Hsl; exact H3|rewrite F2; exact H4].
Qed.

Definition dstep {A} (dids : list N) (m : M A) : Prop :=
  forall s s' a, DH dids s -> m s = (s', Ok a) -> DH dids s' /\ dframe dids s s'.

Lemma dstep_bind : forall A B dids (m : M A) (f : A -> M B),
  dstep dids m -> (forall a, dstep dids (f a)) -> dstep dids (bind m f).
Proof.
  intros A B dids m f Hm Hf s s' b HD H. binv H a s1 H1 H2.
  destruct (Hm _ _ _ HD H1) as [HD1 F1]. destruct (Hf a _ _ _ HD1 H2) as [HD2 F2].
  split; [exact HD2|eapply dframe_trans; eassumption].
Qed.

Lemma dstep_same : forall A dids (m : M A),
  (forall s s' a, m s = (s', Ok a) -> s' = s) -> dstep dids m.
Proof.
  intros A dids m H s s' a HD E. rewrite (H _ _ _ E). split; [exact HD|apply dframe_refl].
Qed.

Lemma dstep_ret : forall A dids (a : A), dstep dids (ret a).
Proof. intros. apply dstep_same. intros s s' x H. apply ret_inv in H. tauto. Qed.
Lemma dstep_get : forall dids, dstep dids get.
Proof. intros. apply dstep_same. intros s s' x H. apply get_inv in H. tauto. Qed.
Lemma dstep_lift : forall A dids (r : res A), dstep dids (lift r).
Proof. intros. apply dstep_same. intros s s' x H. apply lift_inv in H. tauto. Qed.
Lemma dstep_fail : forall A dids k, dstep dids (@fail A k).
Proof. intros A dids k s s' a _ H. discriminate H. Qed.
Lemma dstep_panic : forall A dids n, dstep dids (@panic A n).
Proof. intros A dids k s s' a _ H. discriminate H. Qed.
Lemma dstep_dir_entry : forall dids id, dstep dids (dir_entry id).
Proof. intros. apply dstep_same. intros s s' x H. apply dir_entry_inv in H. tauto. Qed.

Lemma dstep_set_dir_entry : forall dids id e, dstep dids (set_dir_entry id e).
Proof.
  intros dids id e s s' u HD H. apply DirCoherence.set_dir_entry_inv' in H. destruct H as [Hlt ->].
  assert (F : dframe dids s (w_dirs s (updN (dirs s) id e))).
  { unfold dframe. cbn [ver nsect difat_ids difat fat free dir_start minifat minifat_start mfree img dirs w_dirs].
    repeat split; try reflexivity. apply lenN_updN. }
  split; [eapply DH_dframe; eassumption|exact F].
Qed.

(* ---- the sector a directory write goes to ---- *)
Lemma dir_sector_go_in : forall fat n start l sid,
  WalkProofs.path fat start l -> dir_sector_go n fat start = Ok sid ->
  In sid l \/ sid = END_OF_CHAIN.
Proof.
  intros fat. induction n as [|n IH]; intros start l sid Hp H; cbn [dir_sector_go] in H.
  - injection H as <-. inversion Hp; subst; [right; reflexivity|left; left; reflexivity].
  - destruct (start =? END_OF_CHAIN) eqn:E; [discriminate H|].
    inversion Hp as [|cur nx l' Hc Hn Hp' E1 E2]; subst; [rewrite N.eqb_refl in E; discriminate E|].
    rewrite Hn in H. cbn [rbind] in H. destruct (IH _ _ _ Hp' H) as [Hin|Heoc]; [left; right; exact Hin|right; exact Heoc].
Qed.

(* one sector write inside a chain sector, seen from outside *)
Lemma sector_write_dframe : forall dids s sid off bs s' u,
  lenN (img s) = nsect s + 1 -> In sid dids -> lenN (sector_bytes s sid) = slen s ->
  off + lenN bs <= slen s ->
  sector_write sid off bs s = (s', Ok u) -> dframe dids s s'.
Proof.
  intros dids s sid off bs s' u Hi Hin Hl Hfit H.
  destruct (DirCoherence.sector_write_ok_inv _ _ _ _ _ _ Hi H) as [Hs ->].
  unfold dframe. cbn [ver nsect difat_ids difat fat free dir_start minifat minifat_start mfree img dirs w_img].
  repeat split; try reflexivity.
  - apply lenN_updN.
  - apply hd_updN_pos. lia.
  - intros x Hx. unfold sector_bytes. cbn [img w_img]. rewrite nthN_updN_other; [reflexivity|].
    intro E. apply Hx. replace x with sid by lia. exact Hin.
  - intros x. destruct (N.eq_dec x sid) as [->|Hne].
    + unfold sector_bytes at 1. cbn [img w_img]. rewrite nthN_updN_same by lia.
      rewrite lenN_spliceN. blia.
    + unfold sector_bytes. cbn [img w_img]. rewrite nthN_updN_other by lia. reflexivity.
Qed.

Lemma dstep_write_in_dir_entry : forall dids id off bs,
  off + lenN bs <= 128 -> dstep dids (write_in_dir_entry id off bs).
Proof.
  intros dids id off bs Hfit s s' u HD H. pose proof HD as (Hids & Hg & Hcap & Hns).
  pose proof Hg as (Hnd & HF & Hi & Hp).
  unfold write_in_dir_entry in H.
  binv H s0 s1 H1 H2. apply get_inv in H1. destruct H1 as [-> ->]. cbv zeta in H2.
  binv H2 sid s1 H1 H2. apply lift_inv in H1. destruct H1 as [-> Hgo].
  pose proof (DirCoherence.sector_write_ok_inv _ _ _ _ _ _ Hi H2) as [Hs _].
  destruct (dir_sector_go_in _ _ _ _ _ (WalkProofs.chain_ids_path _ _ _ Hids) Hgo) as [Hin|Heoc];
    [|subst sid; markers; lia].
  rewrite Forall_forall in HF. destruct (HF sid Hin) as [_ Hl].
  assert (F : dframe dids s s').
  { eapply (sector_write_dframe dids s sid); try eassumption.
    destruct (DirCoherence.ver_cases s) as [[E1 E2]|[E1 E2]]; rewrite E1, E2; unfold DIR_ENTRY_LEN;
      blia. }
  split; [eapply DH_dframe; eassumption|exact F].
Qed.

(* chain_write_go without extension never touches image element 0 *)
Lemma chain_write_go_hd : forall fuel c bs s s' r,
  lenN (img s) = nsect s + 1 -> c_off c + lenN bs <= slen s * lenN (c_ids c) ->
  chain_write_go fuel c bs s = (s', r) ->
  hd [] (img s') = hd [] (img s).
Proof.
  induction fuel as [|f IH]; intros c bs s s' r Hi Hfit H; cbn [chain_write_go] in H.
  - unfold out_of_fuel in H. injection H as <- _. reflexivity.
  - destruct bs as [|b0 bt] eqn:Ebs; [unfold ret in H; injection H as <- _; reflexivity|].
    rewrite <- Ebs in *. assert (Hpos : 0 < lenN bs) by (rewrite Ebs; cbn [lenN]; lia).
    clear Ebs b0 bt.
    unfold bind at 1 in H. unfold get at 1 in H. cbv zeta in H.
    unfold chain_len in H.
    destruct (c_off c =? slen s * lenN (c_ids c)) eqn:E; [lia|].
    unfold bind at 1 in H. unfold ret at 1 in H.
    destruct (nthN (c_ids c) (c_off c / slen s)) as [sid|];
      [|unfold panic in H; injection H as <- _; reflexivity].
    unfold bind in H.
    destruct (sector_write sid (c_off c mod slen s)
                (takeN (N.min (lenN bs) (slen s - c_off c mod slen s)) bs) s) as [s1 r1] eqn:Ew.
    destruct (sector_write_frame _ _ _ _ _ _ Hi Ew) as (Hh & Hm & Hl).
    assert (Hs1 : slen s1 = slen s /\ nsect s1 = nsect s) by (rewrite Hm; split; reflexivity).
    destruct r1 as [u|k|n|]; try (injection H as <- _; exact Hh).
    rewrite <- Hh. eapply IH; [| |exact H].
    + destruct Hs1 as [_ ->]. rewrite Hl. exact Hi.
    + cbn [c_off c_ids]. destruct Hs1 as [-> _]. rewrite lenN_dropN.
      pose proof (slen_pos s). lia.
Qed.

Lemma dstep_write_dir_entry : forall dids id, dstep dids (write_dir_entry id).
Proof.
  intros dids id s s' u HD H. pose proof HD as (Hids & Hg & Hcap & Hns).
  pose proof Hg as (Hnd & HF & Hi & Hp).
  destruct (DirCoherence.write_dir_entry_ok_inv _ _ _ _ H) as (e & He & Hname).
  pose proof (nthN_Some_lt _ _ _ _ He) as Hlt.
  destruct (DirCoherence.write_dir_entry_spec s dids id e Hids Hg ltac:(lia) He Hname)
    as (s1 & Hw & Hmeta & Himg & Hc & Hg' & Hfr & Hl).
  assert (Hh : hd [] (img s') = hd [] (img s)).
  { unfold write_dir_entry in H.
    binv H s0 s2 H1 H2. apply get_inv in H1. destruct H1 as [-> ->].
    binv H2 c s2 H1 H2. unfold chain_new in H1. rewrite ReuseProofs.bind_get in H1.
    unfold DirCoherence.dir_ids in Hids. rewrite Hids in H1. unfold lift, bind, ret in H1.
    injection H1 as <- <-.
    binv H2 c2 s2 H1 H2. unfold chain_seek in H1. rewrite ReuseProofs.bind_get in H1.
    destruct (chain_len (slen s) (mkChain IDir dids 0) <? DIR_ENTRY_LEN * id); [discriminate H1|].
    unfold ret in H1. injection H1 as <- <-. cbn [c_init c_ids] in H2.
    binv H2 e2 s2 H1 H2. apply dir_entry_inv in H1. destruct H1 as [-> He2].
    assert (e2 = e) by congruence. subst e2.
    binv H2 u1 s2 H1 H2.
    assert (s2 = s).
    { destruct (MAX_NAME_LEN <? lenN (utf16 (d_name e))); [exfalso; eapply panic_inv; eauto|].
      apply ret_inv in H1. tauto. }
    subst s2.
    binv H2 c3 s2 H2 H3. apply ret_inv in H3. destruct H3 as [-> _].
    unfold chain_write_all in H2. rewrite ReuseProofs.bind_get in H2.
    eapply chain_write_go_hd; [exact Hi| |exact H2].
    cbn [c_off c_ids]. rewrite CodecProofs.dirent_encode_length by lia.
    change (match id with 0 => 0 | N.pos q => N.pos q~0~0~0~0~0~0~0 end) with (128 * id). lia. }
  rewrite Hw in H. injection H as <-.
  destruct (same_meta_fields _ _ Hmeta) as (M1 & M2 & M3 & M4 & M5 & M6 & M7 & M8 & M9 & M10 & M11 & M12).
  assert (F : dframe dids s s1).
  { unfold dframe. repeat split; try assumption. congruence. }
  split; [eapply DH_dframe; eassumption|exact F].
Qed.

Ltac ds_side :=
  first [ rewrite CodecProofs.lenN_le_bytes4; unfold DE_OFF_LEFT, DE_OFF_RIGHT, DE_OFF_CHILD; lia
        | rewrite DirCoherence.lenN_enc_unalloc; lia ].

Ltac ds_step :=
  match goal with
  | |- dstep _ (bind _ _) => apply dstep_bind; [|intros]
  | |- dstep _ (ret _) => apply dstep_ret
  | |- dstep _ (fail _) => apply dstep_fail
  | |- dstep _ (panic _) => apply dstep_panic
  | |- dstep _ get => apply dstep_get
  | |- dstep _ (lift _) => apply dstep_lift
  | |- dstep _ (dir_entry _) => apply dstep_dir_entry
  | |- dstep _ (set_dir_entry _ _) => apply dstep_set_dir_entry
  | |- dstep _ (write_dir_entry _) => apply dstep_write_dir_entry
  | |- dstep _ (write_in_dir_entry _ _ _) => apply dstep_write_in_dir_entry; ds_side
  | |- dstep _ (match ?x with _ => _ end) => destruct x
  end.
Ltac ds := intros; repeat ds_step.

Lemma dstep_write_entries : forall dids l, dstep dids (write_entries l).
Proof. intros dids l. induction l as [|i l IH]; cbn [write_entries]; ds. exact IH. Qed.

Lemma dstep_with_dir_entry_mut_inner : forall dids id f, dstep dids (with_dir_entry_mut_inner id f).
Proof. intros. unfold with_dir_entry_mut_inner. ds. Qed.

Lemma dstep_with_dir_entry_mut : forall dids id f, dstep dids (with_dir_entry_mut id f).
Proof.
  intros dids id f s s' a HD H. apply DirProofs.with_dir_entry_mut_ok_inv in H.
  exact (dstep_with_dir_entry_mut_inner dids id f s s' a HD H).
Qed.

Lemma dstep_free_dir_entry : forall dids id, dstep dids (free_dir_entry id).
Proof. intros. unfold free_dir_entry. ds. Qed.

Lemma dstep_remove_dir_entry_inner : forall dids parent nm, dstep dids (remove_dir_entry_inner parent nm).
Proof.
  intros. unfold remove_dir_entry_inner. ds; try apply dstep_write_entries; try apply dstep_free_dir_entry.
Qed.

Lemma dstep_remove_dir_entry : forall dids parent nm, dstep dids (remove_dir_entry parent nm).
Proof.
  intros dids parent nm s s' a HD H. apply DirProofs.remove_dir_entry_ok_inv in H.
  exact (dstep_remove_dir_entry_inner dids parent nm s s' a HD H).
Qed.

Definition insert_rest (parent : N) (nm : name) (ty : objtype) (now : N) (id : N) : M N :=
  let ts := if objtype_eqb ty TStorage then now else 0 in
  set_dir_entry id (dirent_new nm ty ts) ;;
  do p <- dir_entry parent;
  do s <- get;
  do '(prev, ord) <- lift (insert_descend (S (length (dirs s))) (dirs s) nm (d_child p) parent Eq);
  do pe <- dir_entry prev;
  (match ord with
   | Lt => set_dir_entry prev (set_left pe id) ;; write_in_dir_entry prev DE_OFF_LEFT (le_bytes 4 id)
   | Gt => set_dir_entry prev (set_right pe id) ;; write_in_dir_entry prev DE_OFF_RIGHT (le_bytes 4 id)
   | Eq => set_dir_entry parent (set_child pe id) ;; write_in_dir_entry parent DE_OFF_CHILD (le_bytes 4 id)
   end) ;;
  write_dir_entry id ;;
  ret id.

Lemma insert_dir_entry_split : forall parent nm ty now,
  insert_dir_entry parent nm ty now = bind allocate_dir_entry (insert_rest parent nm ty now).
Proof. reflexivity. Qed.

Lemma dstep_insert_rest : forall dids parent nm ty now id,
  dstep dids (insert_rest parent nm ty now id).
Proof. intros. unfold insert_rest. cbv zeta. ds. Qed.


(* ================================================================== *)
(* 3. a directory-only step keeps [Base]                               *)
(* ================================================================== *)

Lemma header_of_ext : forall s s',
  ver s' = ver s -> fat s' = fat s -> difat s' = difat s -> difat_ids s' = difat_ids s ->
  dir_start s' = dir_start s -> minifat_start s' = minifat_start s ->
  header_of s' = header_of s.
Proof. intros s s' E1 E2 E3 E4 E5 E6. unfold header_of. rewrite E1, E2, E3, E4, E5, E6. reflexivity. Qed.

Lemma chain_content_same : forall s s' ids,
  (forall x, In x ids -> sector_bytes s' x = sector_bytes s x) ->
  chain_content s' ids = chain_content s ids.
Proof. intros. apply DirCoherence.chain_content_ext. assumption. Qed.

Theorem base_dframe : forall dids s s',
  Base s -> DirCoherence.dir_ids s dids -> dframe dids s s' -> Base s'.
Proof.
  intros dids s s' B Hids F.
  pose proof (dframe_slen _ _ _ F) as Hsl.
  pose proof F as (F1 & F2 & F3 & F4 & F5 & F6 & F7 & F8 & F9 & F10 & F11 & F12 & F13 & F14 & F15).
  destruct B as [Bh Bf Bd Bi Bn Bs Bu Bt Bm Bv Bmi Bmt Bml Bmv Bfr Bdj].
  pose proof Bf as [[Ci Cfull Ccoh Cnd Clt] Clen Cpos Ctight].
  assert (Hfps : fat_per_sector s' = fat_per_sector s) by (unfold fat_per_sector; rewrite Hsl; reflexivity).
  assert (HfatS : forall f, In f (difat s) -> sector_bytes s' f = sector_bytes s f).
  { intros f Hf. apply F13. intro Hin. exact (chain_not_marked s _ _ _ Bm Hids Hin Hf). }
  assert (Hmini : forall mids, DirCoherence.minifat_ids s mids ->
            forall x, In x mids -> sector_bytes s' x = sector_bytes s x).
  { intros mids Hm x Hx. apply F13. intro Hin. exact (Bdj dids mids Hids Hm x Hin Hx). }
  constructor.
  - unfold HeaderCoherent in *. rewrite F12, Bh. f_equal. symmetry. apply header_of_ext; assumption.
  - constructor; [constructor|..].
    + rewrite F11, F2. exact Ci.
    + intros x Hx. rewrite F14, Hsl. apply Cfull. rewrite <- F2. exact Hx.
    + apply (CoherenceProofs.coherent_frame s); try assumption; [rewrite F2; lia|].
      intros f Hf _ _. apply HfatS. exact Hf.
    + rewrite F4. exact Cnd.
    + intros f Hf. rewrite F4 in Hf. rewrite F2. apply Clt. exact Hf.
    + rewrite F5, F2. exact Clen.
    + rewrite F2. exact Cpos.
    + rewrite F4, F5, Hfps. exact Ctight.
  - intros d Hd. rewrite F3 in Hd. rewrite F2, F4. apply Bd. exact Hd.
  - congruence.
  - rewrite F4. exact Bn.
  - rewrite F2. exact Bs.
  - destruct (uniform_parts s (slen s) Ci Bu) as [Uh Us].
    rewrite Hsl. apply uniform_of_parts.
    + rewrite F11, F2. exact Ci.
    + rewrite F12. exact Uh.
    + intros x Hx. rewrite F14. apply Us. rewrite <- F2. exact Hx.
  - intros k f m Hk Hm Hge. rewrite F4 in Hk. rewrite Hfps in Hm, Hge. rewrite F5 in Hge.
    rewrite (HfatS f (nthN_In _ _ _ _ Hk)). exact (Bt k f m Hk Hm Hge).
  - intros f Hf. rewrite F4 in Hf. rewrite F5. apply Bm. exact Hf.
  - rewrite F5. exact Bv.
  - destruct Bmi as (mids & M1 & M2 & M3 & M4).
    exists mids. split; [unfold DirCoherence.minifat_ids in *; rewrite F5, F9; exact M1|].
    split; [eapply good_chain_dframe; eassumption|].
    rewrite F8, Hsl. split; [exact M3|].
    rewrite (chain_content_same s s' mids (Hmini mids M1)). exact M4.
  - intros mids Hm i Hi Hfit. unfold DirCoherence.minifat_ids in Hm. rewrite F5, F9 in Hm.
    rewrite F8 in Hi. rewrite Hsl in Hfit.
    rewrite (chain_content_same s s' mids (Hmini mids Hm)). exact (Bmt mids Hm i Hi Hfit).
  - rewrite F8. exact Bml.
  - rewrite F8. exact Bmv.
  - congruence.
  - intros d m Hd Hm. unfold DirCoherence.dir_ids, DirCoherence.minifat_ids in *.
    rewrite F5, F7 in Hd. rewrite F5, F9 in Hm. exact (Bdj d m Hd Hm).
Qed.

(* DH from the invariant *)
Lemma PInv_DH : forall s, Base s -> DirCoherence.DirCoherent s ->
  exists dids, DH dids s.
Proof.
  intros s B (dids & H1 & H2 & H3 & _). exists dids.
  split; [exact H1|]. split; [exact H2|]. split; [unfold DIR_ENTRY_LEN in H3; exact H3|apply B].
Qed.

(* ================================================================== *)
(* 4. per-entry conditions under the field setters                     *)
(* ================================================================== *)

Ltac wf_fields :=
  cbn [d_name d_type d_color d_left d_right d_child d_clsid d_state d_ctime d_mtime d_start d_len
       set_left set_right set_child set_color set_clsid set_state set_ctime set_mtime].

Lemma ent_ok_set_color : forall v e c, ent_ok v e -> c = Black -> ent_ok v (set_color e c).
Proof.
  intros v e c ([W1 W2 W3 W4 W5 W6 W7 W8 W9 W10 W11 W12 W13] & Hb & Hn) ->.
  split; [constructor; wf_fields; assumption|]. split; [intros _; reflexivity|exact Hn].
Qed.

Lemma ent_ok_set_left : forall v e x, ent_ok v e -> CodecProofs.link_ok x -> x <> ROOT_STREAM_ID ->
  ent_ok v (set_left e x).
Proof.
  intros v e x ([W1 W2 W3 W4 W5 W6 W7 W8 W9 W10 W11 W12 W13] & Hb & (N1 & N2 & N3)) Hx Hx0.
  split; [constructor; wf_fields; assumption|]. split; [exact Hb|].
  unfold noroot_links. wf_fields. auto.
Qed.

Lemma ent_ok_set_right : forall v e x, ent_ok v e -> CodecProofs.link_ok x -> x <> ROOT_STREAM_ID ->
  ent_ok v (set_right e x).
Proof.
  intros v e x ([W1 W2 W3 W4 W5 W6 W7 W8 W9 W10 W11 W12 W13] & Hb & (N1 & N2 & N3)) Hx Hx0.
  split; [constructor; wf_fields; assumption|]. split; [exact Hb|].
  unfold noroot_links. wf_fields. auto.
Qed.

Lemma ent_ok_set_child : forall v e x, ent_ok v e -> CodecProofs.link_ok x -> x <> ROOT_STREAM_ID ->
  d_type e <> TStream -> ent_ok v (set_child e x).
Proof.
  intros v e x ([W1 W2 W3 W4 W5 W6 W7 W8 W9 W10 W11 W12 W13] & Hb & (N1 & N2 & N3)) Hx Hx0 Ht.
  split; [constructor; wf_fields; try assumption|].
  - intro Hs. contradiction.
  - split; [exact Hb|]. unfold noroot_links. wf_fields. auto.
Qed.

Lemma ent_ok_set_state : forall v e x, ent_ok v e -> x <= u32_max -> ent_ok v (set_state e x).
Proof.
  intros v e x ([W1 W2 W3 W4 W5 W6 W7 W8 W9 W10 W11 W12 W13] & Hb & Hn) Hx.
  split; [constructor; wf_fields; assumption|]. split; assumption.
Qed.

Lemma ent_ok_set_clsid : forall v e x, ent_ok v e -> x < 2 ^ 128 -> d_type e <> TStream ->
  ent_ok v (set_clsid e x).
Proof.
  intros v e x ([W1 W2 W3 W4 W5 W6 W7 W8 W9 W10 W11 W12 W13] & Hb & Hn) Hx Ht.
  split; [constructor; wf_fields; try assumption|split; assumption].
  intro Hs. contradiction.
Qed.

Lemma ent_ok_set_ctime : forall v e x, ent_ok v e -> x <= u64_max -> d_type e <> TStream ->
  ent_ok v (set_ctime e x).
Proof.
  intros v e x ([W1 W2 W3 W4 W5 W6 W7 W8 W9 W10 W11 W12 W13] & Hb & Hn) Hx Ht.
  split; [constructor; wf_fields; try assumption|split; assumption].
  intro Hs. contradiction.
Qed.

Lemma ent_ok_set_mtime : forall v e x, ent_ok v e -> x <= u64_max -> d_type e <> TStream ->
  ent_ok v (set_mtime e x).
Proof.
  intros v e x ([W1 W2 W3 W4 W5 W6 W7 W8 W9 W10 W11 W12 W13] & Hb & Hn) Hx Ht.
  split; [constructor; wf_fields; try assumption|split; assumption].
  intro Hs. contradiction.
Qed.

Lemma objtype_eqb_false : forall a b, objtype_eqb a b = false -> a <> b.
Proof. intros [] []; cbn; congruence. Qed.
Lemma objtype_eqb_true : forall a b, objtype_eqb a b = true -> a = b.
Proof. intros [] []; cbn; congruence. Qed.

(* the metadata setters: what they keep of an entry *)
Definition meta_setter (v : version) (f : dirent -> dirent) : Prop :=
  forall e, ent_ok v e -> ent_ok v (f e) /\
    d_left (f e) = d_left e /\ d_right (f e) = d_right e /\ d_len (f e) = d_len e.

(* RootOK after a table update that keeps the links and the length of entry 0 *)
Lemma RootOK_modN : forall s s' id f,
  RootOK s -> dirs s' = modN (dirs s) id f -> minifat s' = minifat s ->
  (forall e, d_left (f e) = d_left e /\ d_right (f e) = d_right e /\ d_len (f e) = d_len e) ->
  RootOK s'.
Proof.
  intros s s' id f (root & Hr & R1 & R2 & R3 & R4) Ed Em Hf. unfold RootOK. rewrite Ed, Em.
  destruct (N.eq_dec id ROOT_STREAM_ID) as [->|Hne].
  - exists (f root). split; [apply nthN_modN_same; exact Hr|].
    destruct (Hf root) as (A & B & C). rewrite A, B, C. auto.
  - exists root. split; [rewrite nthN_modN_other by exact Hne; exact Hr|auto].
Qed.


(* ================================================================== *)
(* 5. Directory::validate (strict) succeeds on a represented tree      *)
(* ================================================================== *)

Notation push_link := ReadonlyTotal.push_link.

(* a run of the DFS that starts with [x] on top of the stack visits exactly
   V (in this order) and then continues with the rest of the stack *)
Definition Seg (ds : list dirent) (x : N) (V : list N) : Prop :=
  forall pr rest visited fuel, (forall v, In v V -> ~ In v visited) ->
    dir_dfs (length V + fuel) true ds (push_link x pr rest) visited
    = dir_dfs fuel true ds rest (rev V ++ visited).

Lemma Seg_nil : forall ds, Seg ds NO_STREAM [].
Proof. intros ds pr rest visited fuel _. unfold push_link. rewrite N.eqb_refl. reflexivity. Qed.

Lemma link_left_ok : forall ds lnk (b : bool) rest nmE,
  (lnk = NO_STREAM \/ exists le, nthN ds lnk = Some le /\ cmp_names (d_name le) nmE = Lt) ->
  (if lnk =? NO_STREAM then Ok rest else
   if lenN ds <=? lnk then Err EInvalidData else
   rbind (dir_entry_of ds lnk) (fun le =>
     match cmp_names (d_name le) nmE with
     | Lt => Ok ((lnk, b) :: rest)
     | _ => Err EInvalidData
     end)) = Ok (push_link lnk b rest).
Proof.
  intros ds lnk b rest nmE H. unfold push_link.
  destruct (N.eqb_spec lnk NO_STREAM) as [E|E]; [reflexivity|].
  destruct H as [H|(le & Hle & Hc)]; [contradiction|].
  pose proof (nthN_Some_lt _ _ _ _ Hle) as Hlt.
  destruct (lenN ds <=? lnk) eqn:E2; [lia|].
  unfold dir_entry_of. rewrite Hle. cbn [rbind]. rewrite Hc. reflexivity.
Qed.

Lemma link_right_ok : forall ds lnk (b : bool) rest nmE,
  (lnk = NO_STREAM \/ exists re, nthN ds lnk = Some re /\ cmp_names nmE (d_name re) = Lt) ->
  (if lnk =? NO_STREAM then Ok rest else
   if lenN ds <=? lnk then Err EInvalidData else
   rbind (dir_entry_of ds lnk) (fun re =>
     match cmp_names nmE (d_name re) with
     | Lt => Ok ((lnk, b) :: rest)
     | _ => Err EInvalidData
     end)) = Ok (push_link lnk b rest).
Proof.
  intros ds lnk b rest nmE H. unfold push_link.
  destruct (N.eqb_spec lnk NO_STREAM) as [E|E]; [reflexivity|].
  destruct H as [H|(le & Hle & Hc)]; [contradiction|].
  pose proof (nthN_Some_lt _ _ _ _ Hle) as Hlt.
  destruct (lenN ds <=? lnk) eqn:E2; [lia|].
  unfold dir_entry_of. rewrite Hle. cbn [rbind]. rewrite Hc. reflexivity.
Qed.

Lemma link_child_ok : forall (ds : list dirent) c (rest : list (N * bool)),
  (c = NO_STREAM \/ c < lenN ds) ->
  (if c =? NO_STREAM then Ok rest else
   if lenN ds <=? c then Err EInvalidData else Ok ((c, false) :: rest)) = Ok (push_link c false rest).
Proof.
  intros ds c rest H. unfold push_link.
  destruct (N.eqb_spec c NO_STREAM) as [E|E]; [reflexivity|].
  destruct H as [H|H]; [contradiction|].
  destruct (lenN ds <=? c) eqn:E2; [lia|reflexivity].
Qed.

Lemma dfs_step : forall f ds id pr rest visited e,
  ~ In id visited -> nthN ds id = Some e ->
  (if id =? ROOT_STREAM_ID then d_type e = TRoot else d_type e = TStorage \/ d_type e = TStream) ->
  d_color e = Black ->
  (d_left e = NO_STREAM \/ exists le, nthN ds (d_left e) = Some le /\ cmp_names (d_name le) (d_name e) = Lt) ->
  (d_right e = NO_STREAM \/ exists re, nthN ds (d_right e) = Some re /\ cmp_names (d_name e) (d_name re) = Lt) ->
  (d_child e = NO_STREAM \/ d_child e < lenN ds) ->
  dir_dfs (S f) true ds ((id, pr) :: rest) visited
  = dir_dfs f true ds
      (push_link (d_child e) false (push_link (d_right e) false (push_link (d_left e) false rest)))
      (id :: visited).
Proof.
  intros f ds id pr rest visited e Hv He Hty Hcol Hl Hr Hc.
  cbn [dir_dfs].
  apply WalkProofs.memN_false in Hv. rewrite Hv.
  unfold dir_entry_of at 1. rewrite He. cbn [rbind].
  assert (Ety : (if id =? ROOT_STREAM_ID then negb (objtype_eqb (d_type e) TRoot)
                 else negb (objtype_eqb (d_type e) TStorage) && negb (objtype_eqb (d_type e) TStream)) = false).
  { destruct (id =? ROOT_STREAM_ID); [rewrite Hty; reflexivity|].
    destruct Hty as [-> | ->]; reflexivity. }
  rewrite Ety. rewrite Hcol. cbn [color_eqb]. rewrite andb_false_r. cbn [andb]. cbv zeta.
  rewrite (link_left_ok ds (d_left e) false rest (d_name e) Hl). cbn [rbind].
  rewrite (link_right_ok ds (d_right e) false _ (d_name e) Hr). cbn [rbind].
  rewrite (link_child_ok ds (d_child e) _ Hc). cbn [rbind]. reflexivity.
Qed.

Lemma Seg_node : forall ds x e Vc Vr Vl,
  x <> NO_STREAM -> nthN ds x = Some e ->
  (if x =? ROOT_STREAM_ID then d_type e = TRoot else d_type e = TStorage \/ d_type e = TStream) ->
  d_color e = Black ->
  (d_left e = NO_STREAM \/ exists le, nthN ds (d_left e) = Some le /\ cmp_names (d_name le) (d_name e) = Lt) ->
  (d_right e = NO_STREAM \/ exists re, nthN ds (d_right e) = Some re /\ cmp_names (d_name e) (d_name re) = Lt) ->
  (d_child e = NO_STREAM \/ d_child e < lenN ds) ->
  Seg ds (d_child e) Vc -> Seg ds (d_right e) Vr -> Seg ds (d_left e) Vl ->
  NoDup (x :: Vc ++ Vr ++ Vl) ->
  Seg ds x (x :: Vc ++ Vr ++ Vl).
Proof.
  intros ds x e Vc Vr Vl Hx He Hty Hcol Hl Hr Hc Sc Sr Sl ND pr rest visited fuel Hdis.
  apply NoDup_cons_iff in ND. destruct ND as [Hx1 ND].
  apply nodup_app_iff in ND. destruct ND as (NDc & ND & Dc).
  apply nodup_app_iff in ND. destruct ND as (NDr & NDl & Dr).
  unfold push_link at 1. destruct (N.eqb_spec x NO_STREAM) as [E|_]; [contradiction|].
  cbn [length Nat.add].
  rewrite (dfs_step _ ds x pr rest visited e (Hdis x (or_introl eq_refl)) He Hty Hcol Hl Hr Hc).
  rewrite !app_length, <- !Nat.add_assoc.
  rewrite Sc.
  2:{ intros v Hv [<-|Hin]; [apply Hx1; apply in_or_app; left; exact Hv|].
      apply (Hdis v); [right; apply in_or_app; left; exact Hv|exact Hin]. }
  rewrite Sr.
  2:{ intros v Hv Hin. apply in_app_or in Hin. destruct Hin as [Hin|[<-|Hin]].
      - apply in_rev in Hin. apply (Dc v Hin). apply in_or_app. left. exact Hv.
      - apply Hx1. apply in_or_app. right. apply in_or_app. left. exact Hv.
      - apply (Hdis v); [right; apply in_or_app; right; apply in_or_app; left; exact Hv|exact Hin]. }
  rewrite Sl.
  2:{ intros v Hv Hin. apply in_app_or in Hin. destruct Hin as [Hin|Hin].
      - apply in_rev in Hin. exact (Dr v Hin Hv).
      - apply in_app_or in Hin. destruct Hin as [Hin|[<-|Hin]].
        + apply in_rev in Hin. apply (Dc v Hin). apply in_or_app. right. exact Hv.
        + apply Hx1. apply in_or_app. right. apply in_or_app. right. exact Hv.
        + apply (Hdis v); [right; apply in_or_app; right; apply in_or_app; right; exact Hv|exact Hin]. }
  f_equal. cbn [rev]. rewrite !rev_app_distr, <- !app_assoc. reflexivity.
Qed.

(* ---- a sibling tree ---- *)
Fixpoint flatW (W : N -> list N) (t : btree) : list N :=
  match t with BL => [] | BN l j r => j :: W j ++ flatW W r ++ flatW W l end.

Definition kid_ok (ds : list dirent) (W : N -> list N) (j : N) : Prop :=
  exists e, nthN ds j = Some e /\ j <> ROOT_STREAM_ID /\
    (d_type e = TStorage \/ d_type e = TStream) /\ d_color e = Black /\
    (d_child e = NO_STREAM \/ d_child e < lenN ds) /\ Seg ds (d_child e) (W j).

Lemma nm_of_some : forall ds i e, nthN ds i = Some e -> nm_of ds i = d_name e.
Proof. intros ds i e H. unfold nm_of. rewrite H. reflexivity. Qed.

Lemma seg_btree : forall ds W t root, Rep ds root t -> bst ds t ->
  (forall j, In j (ids t) -> kid_ok ds W j) -> NoDup (flatW W t) -> Seg ds root (flatW W t).
Proof.
  intros ds W. induction t as [|l IHl j r IHr]; intros root HR HB HK ND.
  - cbn [Rep] in HR. subst root. apply Seg_nil.
  - destruct HR as (-> & Hj & e & He & HRl & HRr). destruct HB as (Bl & Br & Hlt & Hgt).
    destruct (HK j) as (e' & He' & Hj0 & Hty & Hcol & Hch & Sc);
      [cbn [ids]; apply in_or_app; right; left; reflexivity|].
    assert (e' = e) by congruence. subst e'.
    cbn [flatW] in *.
    pose proof ND as ND0.
    apply NoDup_cons_iff in ND. destruct ND as [_ ND].
    apply nodup_app_iff in ND. destruct ND as (_ & ND & _).
    apply nodup_app_iff in ND. destruct ND as (NDr & NDl & _).
    apply (Seg_node ds j e (W j) (flatW W r) (flatW W l)); try assumption.
    + destruct (N.eqb_spec j ROOT_STREAM_ID); [contradiction|exact Hty].
    + destruct l as [|ll li lr]; [left; exact HRl|right].
      destruct HRl as (El & _ & le & Hle & _). rewrite El. exists le. split; [exact Hle|].
      rewrite <- (nm_of_some _ _ _ Hle), <- (nm_of_some _ _ _ He). apply Hlt.
      exact (root_in (BN ll li lr)).
    + destruct r as [|rl ri rr]; [left; exact HRr|right].
      destruct HRr as (Er & _ & re & Hre & _). rewrite Er. exists re. split; [exact Hre|].
      rewrite <- (nm_of_some _ _ _ Hre), <- (nm_of_some _ _ _ He). apply cmp_gt_lt. apply Hgt.
      exact (root_in (BN rl ri rr)).
    + apply IHr; try assumption. intros k Hk. apply HK. cbn [ids]. apply in_or_app. right. right. exact Hk.
    + apply IHl; try assumption. intros k Hk. apply HK. cbn [ids]. apply in_or_app. left. exact Hk.
Qed.

Lemma flatW_perm : forall W t,
  Permutation (flatW W t) (concat (map (fun j => j :: W j) (ids t))).
Proof.
  intros W. induction t as [|l IHl j r IHr]; [constructor|].
  cbn [flatW ids]. rewrite map_app, concat_app. cbn [map concat].
  rewrite <- IHl, <- IHr.
  change (j :: W j ++ flatW W r ++ flatW W l) with ((j :: W j) ++ flatW W r ++ flatW W l).
  rewrite (app_assoc (j :: W j) (flatW W r) (flatW W l)). apply Permutation_app_comm.
Qed.

(* ---- nodes of the abstract tree ---- *)
Definition NodeSeg (ds : list dirent) (n : Tree.node) : Prop :=
  forall id nm U, MutRefine.NRU ds ctrue false id nm n U -> NoDup U -> ~ In ROOT_STREAM_ID U ->
    exists e V, nthN ds id = Some e /\ (d_type e = TStorage \/ d_type e = TStream) /\
      (d_child e = NO_STREAM \/ d_child e < lenN ds) /\ Seg ds (d_child e) V /\
      Permutation (id :: V) U.

Definition AllBlack (ds : list dirent) : Prop :=
  forall j e, nthN ds j = Some e -> d_type e <> TUnalloc -> d_color e = Black.

Lemma kids_seg : forall ds, AllBlack ds -> forall l ks Us,
  MutRefine.Forall3 (MutRefine.KidU ds ctrue) l ks Us ->
  Forall (fun kc => NodeSeg ds (snd kc)) ks -> NoDup l ->
  NoDup (concat Us) -> ~ In ROOT_STREAM_ID (concat Us) ->
  exists W, (forall j, In j l -> kid_ok ds W j) /\
            Permutation (concat (map (fun j => j :: W j) l)) (concat Us).
Proof.
  intros ds HB l ks Us H. induction H as [|i kc u l ks Us Hk _ IH]; intros HF NDl ND H0.
  - exists (fun _ => []). split; [intros j []|constructor].
  - inversion HF as [|? ? Hkc HF']; subst.
    apply NoDup_cons_iff in NDl. destruct NDl as [Hil NDl].
    cbn [concat] in ND, H0. apply nodup_app_iff in ND. destruct ND as (NDu & NDt & _).
    destruct (IH HF' NDl NDt) as (W' & HW' & HP').
    { intro Hc. apply H0. apply in_or_app. right. exact Hc. }
    destruct (Hkc i (fst kc) u Hk NDu) as (e & V & He & Hty & Hch & HS & HP).
    { intro Hc. apply H0. apply in_or_app. left. exact Hc. }
    exists (fun j => if j =? i then V else W' j). split.
    + intros j [<-|Hj].
      * exists e. split; [exact He|]. split.
        { intros ->. apply H0. apply in_or_app. left.
          eapply Permutation_in; [exact HP|left; reflexivity]. }
        split; [exact Hty|]. split.
        { apply (HB _ _ He). destruct Hty as [-> | ->]; discriminate. }
        split; [exact Hch|]. rewrite N.eqb_refl. exact HS.
      * assert (Hne : j <> i) by (intros ->; contradiction).
        destruct (HW' j Hj) as (e' & A1 & A2 & A3 & A4 & A5 & A6).
        exists e'. repeat (split; [assumption|]). cbv beta.
        destruct (N.eqb_spec j i); [contradiction|exact A6].
    + cbn [map concat]. rewrite N.eqb_refl. apply Permutation_app; [exact HP|].
      etransitivity; [|exact HP'].
      replace (map (fun j => j :: (if j =? i then V else W' j)) l) with (map (fun j => j :: W' j) l);
        [reflexivity|].
      apply map_ext_in. intros j Hj. destruct (N.eqb_spec j i) as [->|_]; [contradiction|reflexivity].
Qed.

Lemma child_range : forall ds root t, Rep ds root t -> root = NO_STREAM \/ root < lenN ds.
Proof.
  intros ds root [|l i r] H; [left; exact H|right].
  destruct H as (-> & _ & e & He & _). eapply nthN_Some_lt. exact He.
Qed.

Lemma dir_kids_seg : forall ds, AllBlack ds -> forall c t ks Us,
  Rep ds c t -> bst ds t -> NoDup (ids t) ->
  MutRefine.Forall3 (MutRefine.KidU ds ctrue) (ids t) ks Us ->
  Forall (fun kc => NodeSeg ds (snd kc)) ks ->
  NoDup (concat Us) -> ~ In ROOT_STREAM_ID (concat Us) ->
  exists V, Seg ds c V /\ Permutation V (concat Us).
Proof.
  intros ds HB c t ks Us HR HBst NDt HK HF ND H0.
  destruct (kids_seg ds HB _ _ _ HK HF NDt ND H0) as (W & HW & HP).
  assert (HPf : Permutation (flatW W t) (concat Us)) by (etransitivity; [apply flatW_perm|exact HP]).
  exists (flatW W t). split; [|exact HPf].
  apply seg_btree; try assumption.
  eapply Permutation_NoDup; [apply Permutation_sym; exact HPf|exact ND].
Qed.

Lemma node_seg : forall ds, AllBlack ds -> forall n, NodeSeg ds n.
Proof.
  intros ds HB. induction n as [st bs|m ks IH] using TreeProofs.node_ind'; intros id nm U H ND H0.
  - apply MutRefine.NRU_leaf in H.
    destruct H as (_ & e & He & _ & _ & Ht & Hc & _ & _ & _ & _ & _ & _ & ->).
    exists e, []. split; [exact He|]. split; [right; exact Ht|]. split; [left; exact Hc|].
    split; [rewrite Hc; apply Seg_nil|reflexivity].
  - apply MutRefine.NRU_dir in H.
    destruct H as (_ & e & He & _ & Ht & _ & _ & t & Us & HR & HBst & NDt & HK & ->).
    apply NoDup_cons_iff in ND. destruct ND as [_ ND].
    destruct (dir_kids_seg ds HB _ t ks Us HR HBst NDt HK IH ND) as (V & HS & HP).
    { intro Hc. apply H0. right. exact Hc. }
    exists e, V. split; [exact He|]. split; [left; exact Ht|].
    split; [eapply child_range; exact HR|]. split; [exact HS|].
    apply perm_skip. exact HP.
Qed.

Theorem tree_validates : forall ds,
  TreeInv ds -> AllBlack ds ->
  (exists root, nthN ds ROOT_STREAM_ID = Some root /\ d_left root = NO_STREAM /\
     d_right root = NO_STREAM /\ d_len root mod MINI_SECTOR_LEN = 0) ->
  dir_validate true ds = Ok tt.
Proof.
  intros ds (t & HT & HU) HB (root & Hroot & RL & RR & Rlen).
  destruct (MutRefine.tree_NRU ds ctrue t HT HU) as (U & HN & ND).
  pose proof HN as [HNR _].
  destruct (QueryRefine.NodeRep_root_dir _ _ _ _ _ HNR) as (m & ks & ->).
  pose proof HN as HN0.
  apply MutRefine.NRU_dir in HN.
  destruct HN as (_ & e & He & _ & Ht & _ & _ & t0 & Us & HR & HBst & NDt & HK & ->).
  assert (e = root) by congruence. subst e.
  pose proof ND as ND0. apply NoDup_cons_iff in ND. destruct ND as [H0 ND].
  assert (HF : Forall (fun kc : name * Tree.node => NodeSeg ds (snd kc)) ks).
  { rewrite Forall_forall. intros kc _. apply node_seg. exact HB. }
  destruct (dir_kids_seg ds HB _ t0 ks Us HR HBst NDt HK HF ND H0) as (V & HS & HP).
  assert (HPU : Permutation (ROOT_STREAM_ID :: V ++ [] ++ []) (ROOT_STREAM_ID :: concat Us)).
  { apply perm_skip. rewrite !app_nil_r. exact HP. }
  assert (Hseg : Seg ds ROOT_STREAM_ID (ROOT_STREAM_ID :: V ++ [] ++ [])).
  { apply (Seg_node ds ROOT_STREAM_ID root V [] []).
    - discriminate.
    - exact Hroot.
    - exact Ht.
    - apply (HB _ _ Hroot). rewrite Ht. discriminate.
    - left. exact RL.
    - left. exact RR.
    - eapply child_range. exact HR.
    - exact HS.
    - rewrite RR. apply Seg_nil.
    - rewrite RL. apply Seg_nil.
    - eapply Permutation_NoDup; [apply Permutation_sym; exact HPU|exact ND0]. }
  set (V' := ROOT_STREAM_ID :: V ++ [] ++ []) in *.
  assert (Hlen : (length V' <= length ds)%nat).
  { apply nodup_bound.
    - eapply Permutation_NoDup; [apply Permutation_sym; exact HPU|exact ND0].
    - intros i Hi. rewrite <- lenN_length.
      destruct (MutRefine.NRU_typed _ _ _ _ _ _ _ HN0 i) as (ei & Hei & _).
      + eapply Permutation_in; [exact HPU|exact Hi].
      + eapply nthN_Some_lt. exact Hei. }
  unfold dir_validate. destruct ds as [|r0 tl] eqn:Eds; [discriminate Hroot|].
  assert (r0 = root) by (cbn in Hroot; congruence). subst r0.
  rewrite <- Eds in *.
  destruct (N.eqb_spec (d_len root mod MINI_SECTOR_LEN) 0) as [_|Hne]; [|contradiction].
  cbn [negb].
  change [(ROOT_STREAM_ID, false)] with (push_link ROOT_STREAM_ID false []).
  replace (S (S (length ds))) with (length V' + (S (S (length ds)) - length V'))%nat by lia.
  rewrite Hseg by (intros v _ []).
  destruct (S (S (length ds)) - length V')%nat as [|f] eqn:Ef; [lia|]. reflexivity.
Qed.

Lemma ents_AllBlack : forall v ds, Forall (ent_ok v) ds -> AllBlack ds.
Proof.
  intros v ds H j e He Ht. rewrite Forall_nthN in H. destruct (H j e He) as (_ & Hb & _). exact (Hb Ht).
Qed.

(* the invariant gives the reopen round trip *)
Theorem PInv_Coherent : forall s, PInv s -> Coherent s.
Proof.
  intros s [[Bh Bf Bd Bi Bn Bs Bu Bt Bm Bv Bmi Bmt Bml Bmv Bfr Bdj] Hdir Hents Hroot Htree].
  destruct Hroot as (root & Hr & R1 & R2 & R3 & R4).
  constructor; try assumption.
  - intros e He. rewrite Forall_forall in Hents. apply (Hents e He).
  - apply tree_validates; [exact Htree|eapply ents_AllBlack; exact Hents|].
    exists root. auto.
  - intros root' Hr'. change ROOT_STREAM_ID with 0 in Hr.
    assert (root' = root) by congruence. subst root'. exact R4.
Qed.

Corollary PInv_reopens : forall s, PInv s -> forall strict,
  open_model strict (concat_img (img s)) = Ok (reopened s).
Proof. intros s H strict. apply reopen_both_modes. apply PInv_Coherent. exact H. Qed.


(* ================================================================== *)
(* 6. metadata updates                                                 *)
(* ================================================================== *)

(* one read-modify-write of a directory entry through with_dir_entry_mut *)
Lemma wdem_pinv : forall s s' id f,
  PInv s -> with_dir_entry_mut id f s = (s', Ok tt) ->
  (forall e, nthN (dirs s) id = Some e -> ent_ok (ver s) e -> ent_ok (ver s) (f e)) ->
  (forall e, d_left (f e) = d_left e /\ d_right (f e) = d_right e /\ d_len (f e) = d_len e) ->
  TreeInv (dirs s') -> PInv s'.
Proof.
  intros s s' id f [B Hdir Hents Hroot Htree] H Hf Hlinks Htree'.
  destruct (PInv_DH s B Hdir) as (dids & HD).
  destruct (dstep_with_dir_entry_mut dids id f s s' tt HD H) as [HD' F].
  destruct (MutRefine.wdem_inv _ _ _ _ _ H) as (e & He & Ed).
  pose proof F as (F1 & _ & _ & _ & _ & _ & _ & F8 & _).
  constructor.
  - eapply base_dframe; [exact B|apply HD|exact F].
  - eapply DirCoherence.with_dir_entry_mut_coherent; eassumption.
  - rewrite F1, Ed. unfold modN. rewrite He. apply Forall_updN; [exact Hents|].
    apply Hf; [exact He|]. rewrite Forall_nthN in Hents. eapply Hents. exact He.
  - eapply RootOK_modN; eassumption.
  - exact Htree'.
Qed.

Lemma set_entry_inv : forall p f s s',
  set_entry_with_path p f s = (s', Ok tt) ->
  exists id, with_dir_entry_mut id f s = (s', Ok tt).
Proof.
  intros p f s s' H. unfold set_entry_with_path in H.
  destruct (MutRefine.names_lookup_inv _ _ _ _ _ _ H) as (names & r & _ & _ & HK).
  destruct r as [id|]; [|discriminate HK]. exists id. exact HK.
Qed.

Theorem set_state_preserves : forall p bits s s',
  PInv s -> bits <= u32_max -> api_set_state p bits s = (s', Ok tt) -> PInv s'.
Proof.
  intros p bits s s' HP Hb H. pose proof HP as [_ _ _ _ (t & HT & HU)].
  destruct (MutRefine.set_state_refines ctrue ctrue (fun _ _ c => c) p bits 0 s s' t HT HU H)
    as (t' & _ & HT' & HU').
  unfold api_set_state in H. destruct (set_entry_inv _ _ _ _ H) as (id & Hw).
  apply (wdem_pinv s s' id _ HP Hw).
  - intros e _ He. apply ent_ok_set_state; assumption.
  - intros e. repeat split.
  - exists t'. split; assumption.
Qed.

Theorem set_modified_preserves : forall p before secs nanos s s',
  PInv s -> api_set_modified p before secs nanos s = (s', Ok tt) -> PInv s'.
Proof.
  intros p before secs nanos s s' HP H. pose proof HP as [_ _ _ _ (t & HT & HU)].
  destruct (MutRefine.set_modified_refines ctrue ctrue (fun _ _ c => c) p before secs nanos 0 s s' t HT HU H)
    as (t' & _ & HT' & HU').
  unfold api_set_modified in H. destruct (set_entry_inv _ _ _ _ H) as (id & Hw).
  apply (wdem_pinv s s' id _ HP Hw).
  - intros e _ He. destruct (objtype_eqb (d_type e) TStream) eqn:T; [exact He|].
    apply ent_ok_set_mtime; [exact He|apply TimeProofs.from_time_range|apply objtype_eqb_false; exact T].
  - intros e. destruct (objtype_eqb (d_type e) TStream); repeat split.
  - exists t'. split; assumption.
Qed.

Theorem set_created_preserves : forall p before secs nanos s s',
  PInv s -> api_set_created p before secs nanos s = (s', Ok tt) -> PInv s'.
Proof.
  intros p before secs nanos s s' HP H. pose proof HP as [_ _ _ _ (t & HT & HU)].
  destruct (MutRefine.set_created_refines ctrue ctrue (fun _ _ c => c) p before secs nanos 0 s s' t HT HU H)
    as (t' & _ & HT' & HU').
  unfold api_set_created in H. destruct (set_entry_inv _ _ _ _ H) as (id & Hw).
  apply (wdem_pinv s s' id _ HP Hw).
  - intros e _ He. destruct (objtype_eqb (d_type e) TStream) eqn:T; [exact He|].
    apply ent_ok_set_ctime; [exact He|apply TimeProofs.from_time_range|apply objtype_eqb_false; exact T].
  - intros e. destruct (objtype_eqb (d_type e) TStream); repeat split.
  - exists t'. split; assumption.
Qed.

Theorem set_clsid_preserves : forall p g s s',
  PInv s -> g < 2 ^ 128 -> api_set_clsid p g s = (s', Ok tt) -> PInv s'.
Proof.
  intros p g s s' HP Hg H. pose proof HP as [_ _ _ _ (t & HT & HU)].
  destruct (MutRefine.set_clsid_refines ctrue ctrue (fun _ _ c => c) p g 0 s s' t HT HU H)
    as (t' & _ & HT' & HU').
  unfold api_set_clsid in H.
  destruct (MutRefine.names_lookup_inv _ _ _ _ _ _ H) as (names & r & _ & _ & HK).
  destruct r as [id|]; [|discriminate HK].
  binv HK e0 s1 H1 H2. apply dir_entry_inv in H1. destruct H1 as [-> He0].
  destruct (objtype_eqb (d_type e0) TStream) eqn:T; [discriminate H2|].
  apply (wdem_pinv s s' id _ HP H2).
  - intros e He Hok. assert (e = e0) by congruence. subst e.
    apply ent_ok_set_clsid; [exact Hok|exact Hg|apply objtype_eqb_false; exact T].
  - intros e. repeat split.
  - exists t'. split; assumption.
Qed.


(* ================================================================== *)
(* 7. table-level invariants under relinking                           *)
(* ================================================================== *)

Definition RootT (L : N) (ds : list dirent) : Prop :=
  exists root, nthN ds ROOT_STREAM_ID = Some root /\
    d_left root = NO_STREAM /\ d_right root = NO_STREAM /\ d_len root = L.

Definition keeps_root (f : dirent -> dirent) : Prop :=
  forall e, d_left (f e) = d_left e /\ d_right (f e) = d_right e /\ d_len (f e) = d_len e.

Definition TOK (v : version) (L : N) (ds : list dirent) : Prop :=
  Forall (ent_ok v) ds /\ RootT L ds.

Lemma RootT_modN : forall L ds k f, RootT L ds ->
  k <> ROOT_STREAM_ID \/ keeps_root f -> RootT L (modN ds k f).
Proof.
  intros L ds k f (root & Hr & R1 & R2 & R3) H. unfold RootT.
  destruct (N.eq_dec k ROOT_STREAM_ID) as [->|Hne].
  - destruct H as [H|H]; [contradiction|]. exists (f root).
    split; [apply nthN_modN_same; exact Hr|]. destruct (H root) as (A & B & C). rewrite A, B, C. auto.
  - exists root. split; [rewrite nthN_modN_other by exact Hne; exact Hr|auto].
Qed.

Lemma RootT_updN : forall L ds k e, RootT L ds -> k <> ROOT_STREAM_ID -> RootT L (updN ds k e).
Proof.
  intros L ds k e (root & Hr & R) Hk. exists root. split; [|exact R].
  rewrite nthN_updN_other by exact Hk. exact Hr.
Qed.

Lemma TOK_modN : forall v L ds k f, TOK v L ds ->
  (forall e, ent_ok v e -> ent_ok v (f e)) ->
  k <> ROOT_STREAM_ID \/ keeps_root f -> TOK v L (modN ds k f).
Proof.
  intros v L ds k f [H1 H2] Hf Hk. split; [apply Forall_modN; assumption|apply RootT_modN; assumption].
Qed.

Lemma Forall_modN_at : forall (P : dirent -> Prop) ds i f,
  Forall P ds -> (forall e, nthN ds i = Some e -> P e -> P (f e)) -> Forall P (modN ds i f).
Proof.
  intros P ds i f H Hf. unfold modN. destruct (nthN ds i) as [e|] eqn:E; [|exact H].
  apply Forall_updN; [exact H|]. apply Hf; [reflexivity|]. rewrite Forall_forall in H. apply H.
  eapply nthN_In. exact E.
Qed.

Lemma keeps_root_set_color : forall c, keeps_root (fun e => set_color e c).
Proof. intros c e. repeat split. Qed.
Lemma keeps_root_set_child : forall c, keeps_root (fun e => set_child e c).
Proof. intros c e. repeat split. Qed.

Lemma ent_ok_unalloc : forall v, ent_ok v dirent_unallocated.
Proof.
  intros v. split; [|split].
  - apply dirent_wf_b_sound. destruct v; vm_compute; reflexivity.
  - intros H. exfalso. apply H. reflexivity.
  - repeat split; discriminate.
Qed.

Lemma TOK_recolor : forall v L ds c, TOK v L ds -> TOK v L (recolor_black ds c).
Proof.
  intros v L ds c H. unfold recolor_black. destruct (c =? NO_STREAM); [exact H|].
  apply TOK_modN; [exact H| |right; apply keeps_root_set_color].
  intros e He. apply ent_ok_set_color; [exact He|reflexivity].
Qed.

Lemma find_pred_facts : forall f ds pp0 cur pp pred,
  find_pred f ds pp0 cur = Ok (pp, pred) ->
  (pp = pp0 \/ exists e, nthN ds pp = Some e /\ d_right e <> NO_STREAM) /\
  (pred = cur \/ exists e, In e ds /\ d_right e = pred).
Proof.
  induction f as [|f IH]; intros ds pp0 cur pp pred H; cbn [find_pred] in H; [discriminate H|].
  unfold dir_entry_of in H. destruct (nthN ds cur) as [e|] eqn:He; [|discriminate H]. cbn [rbind] in H.
  destruct (N.eqb_spec (d_right e) NO_STREAM) as [E|E].
  - injection H as <- <-. split; left; reflexivity.
  - destruct (IH _ _ _ _ _ H) as [[A|A] [B|B]].
    + subst pp. split; [right; exists e; split; assumption|].
      subst pred. right. exists e. split; [eapply nthN_In; exact He|reflexivity].
    + subst pp. split; [right; exists e; split; assumption|right; exact B].
    + split; [right; exact A|]. subst pred. right. exists e. split; [eapply nthN_In; exact He|reflexivity].
    + split; right; assumption.
Qed.

Definition link_good (x : N) : Prop := CodecProofs.link_ok x /\ x <> ROOT_STREAM_ID.

Lemma link_good_nostream : link_good NO_STREAM.
Proof. split; [left; reflexivity|discriminate]. Qed.

Lemma ent_links : forall v e, ent_ok v e ->
  link_good (d_left e) /\ link_good (d_right e) /\ link_good (d_child e).
Proof.
  intros v e (W & _ & (N1 & N2 & N3)). destruct W. repeat split; assumption.
Qed.

Lemma splice_tbl_ok : forall v L ds x e pp pred,
  TOK v L ds -> nthN ds x = Some e -> d_color e = Black ->
  (d_left e <> NO_STREAM -> d_right e <> NO_STREAM ->
   find_pred (S (length ds)) ds x (d_left e) = Ok (pp, pred)) ->
  TOK v L (fst (splice_tbl ds x e pp pred)) /\ link_good (snd (splice_tbl ds x e pp pred)).
Proof.
  intros v L ds x e pp pred HT He Hcol Hfp.
  pose proof HT as [Hents Hroot].
  assert (Heok : ent_ok v e).
  { rewrite Forall_forall in Hents. apply Hents. eapply nthN_In. exact He. }
  destruct (ent_links _ _ Heok) as (Gl & Gr & _).
  unfold splice_tbl. cbv zeta.
  destruct ((d_left e =? NO_STREAM) || (d_right e =? NO_STREAM)) eqn:C; cbn [fst snd].
  - split; [apply TOK_recolor; exact HT|]. destruct (d_left e =? NO_STREAM); assumption.
  - apply orb_false_iff in C. destruct C as [C1 C2]. apply N.eqb_neq in C1, C2.
    destruct (find_pred_facts _ _ _ _ _ _ (Hfp C1 C2)) as [Fpp Fpred].
    set (pl := match nthN ds pred with Some pe => d_left pe | None => NO_STREAM end).
    assert (Gpl : link_good pl).
    { unfold pl. destruct (nthN ds pred) as [pe|] eqn:Ep; [|apply link_good_nostream].
      assert (ent_ok v pe) as Hpe by (rewrite Forall_forall in Hents; apply Hents; eapply nthN_In; exact Ep).
      apply (ent_links _ _ Hpe). }
    assert (Gpred : link_good pred).
    { destruct Fpred as [->|(e' & He' & <-)]; [exact Gl|].
      rewrite Forall_forall in Hents. apply (ent_links _ _ (Hents e' He')). }
    assert (Hpred0 : pred <> ROOT_STREAM_ID) by apply Gpred.
    split; [|exact Gpred].
    apply TOK_modN; [| |left; exact Hpred0].
    2:{ intros e0 H0. apply ent_ok_set_color; [|exact Hcol].
        apply ent_ok_set_right; [exact H0|apply Gr|apply Gr]. }
    destruct (N.eqb_spec pp x) as [Epp|Epp]; [apply TOK_recolor; exact HT|].
    apply TOK_modN; [| |left; exact Hpred0].
    2:{ intros e0 H0. apply ent_ok_set_left; [exact H0|apply Gl|apply Gl]. }
    apply TOK_modN; [apply TOK_recolor; exact HT| |].
    + intros e0 H0. apply ent_ok_set_right; [exact H0|apply Gpl|apply Gpl].
    + left. destruct Fpp as [->|(e' & He' & Hr')]; [contradiction|].
      intros ->. destruct Hroot as (root & Hr & _ & R2 & _).
      assert (e' = root) by congruence. subst e'. contradiction.
Qed.

Lemma remove_tbl_ok : forall v L ds parent sibo x e pp pred p,
  TOK v L ds ->
  nthN ds x = Some e -> d_color e = Black -> x <> ROOT_STREAM_ID -> x <> NO_STREAM ->
  nthN ds parent = Some p -> d_type p <> TStream ->
  (forall sib, sibo = Some sib ->
     exists se, nthN ds sib = Some se /\ (d_left se = x \/ d_right se = x)) ->
  (d_left e <> NO_STREAM -> d_right e <> NO_STREAM ->
   find_pred (S (length ds)) ds x (d_left e) = Ok (pp, pred)) ->
  TOK v L (remove_tbl ds parent sibo x e pp pred).
Proof.
  intros v L ds parent sibo x e pp pred p HT He Hcol Hx0 HxN Hp Hpt Hsib Hfp.
  destruct (splice_tbl_ok v L ds x e pp pred HT He Hcol Hfp) as [HT1 Grepl].
  pose proof (splice_pres ds x e pp pred) as SP.
  unfold remove_tbl. destruct (splice_tbl ds x e pp pred) as [ds1 repl]. cbn [fst snd] in *.
  assert (HT2 : TOK v L (relink ds1 parent sibo x repl)).
  { unfold relink. destruct sibo as [sib|].
    - apply TOK_modN; [exact HT1| |left].
      + intros e0 H0. destruct (d_left e0 =? x);
          [apply ent_ok_set_left|apply ent_ok_set_right]; try assumption; apply Grepl.
      + intros ->. destruct (Hsib _ eq_refl) as (se & Hse & Hl).
        destruct HT as [_ (root & Hr & R1 & R2 & _)].
        assert (se = root) by congruence. subst se. destruct Hl; congruence.
    - destruct HT1 as [E1 R1]. split; [|apply RootT_modN; [exact R1|right; apply keeps_root_set_child]].
      apply Forall_modN_at; [exact E1|]. intros p1 Hp1 Hok.
      apply ent_ok_set_child; [exact Hok|apply Grepl|apply Grepl|].
      destruct (SP parent p Hp) as (p1' & Hp1' & [(_ & Ty & _) _]).
      assert (p1' = p1) by congruence. subst p1'. rewrite Ty. exact Hpt. }
  destruct HT2 as [E2 R2]. split; [apply Forall_updN; [exact E2|apply ent_ok_unalloc]|].
  apply RootT_updN; assumption.
Qed.

(* ---- what remove_find tells about the path ---- *)
Lemma remove_find_sib : forall f ds nm id acc path,
  remove_find f ds nm id acc = Ok path ->
  exists x, lastN path = Some x /\ x <> NO_STREAM /\ id <> NO_STREAM /\
    ((lastN (pop_last path) = lastN acc /\ x = id) \/
     exists sib se, lastN (pop_last path) = Some sib /\ nthN ds sib = Some se /\
                    (d_left se = x \/ d_right se = x)).
Proof.
  induction f as [|f IH]; intros ds nm id acc path H; cbn [remove_find] in H; [discriminate H|].
  destruct (N.eqb_spec id NO_STREAM) as [E|E]; [discriminate H|].
  destruct (memN id acc); [discriminate H|].
  unfold dir_entry_of in H. destruct (nthN ds id) as [e|] eqn:He; [|discriminate H]. cbn [rbind] in H.
  destruct (cmp_names nm (d_name e)).
  - injection H as <-. exists id. rewrite lastN_app1, pop_last_app1.
    split; [reflexivity|]. split; [exact E|]. split; [exact E|]. left. split; reflexivity.
  - destruct (IH _ _ _ _ _ H) as (x & Hl & Hx & Hid & Hc). exists x.
    split; [exact Hl|]. split; [exact Hx|]. split; [exact E|]. right.
    destruct Hc as [[Hc ->]|Hc]; [|exact Hc].
    rewrite lastN_app1 in Hc. exists id, e. split; [exact Hc|]. split; [exact He|]. auto.
  - destruct (IH _ _ _ _ _ H) as (x & Hl & Hx & Hid & Hc). exists x.
    split; [exact Hl|]. split; [exact Hx|]. split; [exact E|]. right.
    destruct Hc as [[Hc ->]|Hc]; [|exact Hc].
    rewrite lastN_app1 in Hc. exists id, e. split; [exact Hc|]. split; [exact He|]. auto.
Qed.

Lemma find_remove_same : forall f ds nm root id acc path,
  find_in_siblings f ds nm root = Ok (Some id) ->
  remove_find f ds nm root acc = Ok path -> lastN path = Some id.
Proof.
  induction f as [|f IH]; intros ds nm root id acc path H1 H2; [discriminate H1|].
  cbn [find_in_siblings] in H1. cbn [remove_find] in H2.
  destruct (root =? NO_STREAM); [discriminate H1|].
  destruct (memN root acc); [discriminate H2|].
  destruct (dir_entry_of ds root) as [e| | |]; try discriminate H1. cbn [rbind] in *.
  destruct (cmp_names nm (d_name e)).
  - injection H1 as <-. injection H2 as <-. apply lastN_app1.
  - eapply IH; eassumption.
  - eapply IH; eassumption.
Qed.

(* RootOK from RootT *)
Lemma RootOK_of_T : forall s s' L, RootOK s ->
  (forall root, nthN (dirs s) ROOT_STREAM_ID = Some root -> d_len root = L) ->
  RootT L (dirs s') -> minifat s' = minifat s -> RootOK s'.
Proof.
  intros s s' L (root & Hr & R1 & R2 & R3 & R4) HL (root' & Hr' & A1 & A2 & A3) Em.
  exists root'. rewrite Em, A3, <- (HL root Hr). auto.
Qed.

Lemma RootT_of_OK : forall s, RootOK s -> exists L, RootT L (dirs s) /\
  (forall root, nthN (dirs s) ROOT_STREAM_ID = Some root -> d_len root = L).
Proof.
  intros s (root & Hr & R1 & R2 & R3 & R4). exists (d_len root). split.
  - exists root. auto.
  - intros r' Hr'. congruence.
Qed.

(* ================================================================== *)
(* 8. remove_storage                                                   *)
(* ================================================================== *)

(* the part common to remove_storage and remove_stream: the entry found by
   lookup is unlinked from its parent's sibling tree *)
Lemma remove_entry_pinv : forall s s' names id0 e0 nm pid,
  PInv s ->
  lookup_chain (dirs s) names ROOT_STREAM_ID = Ok (Some id0) ->
  nthN (dirs s) id0 = Some e0 -> d_type e0 <> TUnalloc ->
  lastN names = Some nm ->
  lookup_chain (dirs s) (pop_last names) ROOT_STREAM_ID = Ok (Some pid) ->
  remove_dir_entry pid nm s = (s', Ok tt) ->
  TreeInv (dirs s') -> PInv s'.
Proof.
  intros s s' names id0 e0 nm pid [B Hdir Hents Hroot Htree] Hlk He0 Ht0 Hlast Hlkp H Htree'.
  destruct (PInv_DH s B Hdir) as (dids & HD).
  destruct (dstep_remove_dir_entry dids pid nm s s' tt HD H) as [HD' F].
  pose proof F as (F1 & _ & _ & _ & _ & _ & _ & F8 & _).
  constructor.
  - eapply base_dframe; [exact B|apply HD|exact F].
  - eapply DirCoherence.remove_dir_entry_coherent; eassumption.
  - (* the table *)
    destruct (remove_proj _ _ _ _ _ H)
      as (p & path & x & e & pp & pred & Hp & Hrf & Hlastp & He & Hc & Hx0 & Hfp & Hds).
    (* x is the entry found by lookup *)
    assert (Hfind : find_in_siblings (S (length (dirs s))) (dirs s) nm (d_child p) = Ok (Some id0)).
    { rewrite (TreeProofs.lastN_some _ _ _ Hlast), MutRefine.lookup_chain_app, Hlkp in Hlk.
      cbn [rbind lookup_chain] in Hlk. unfold dir_entry_of in Hlk. rewrite Hp in Hlk. cbn [rbind] in Hlk.
      destruct (find_in_siblings (S (length (dirs s))) (dirs s) nm (d_child p)) as [r| | |];
        try discriminate Hlk. cbn [rbind] in Hlk.
      destruct r as [cid|]; [|discriminate Hlk]. injection Hlk as ->. reflexivity. }
    pose proof (find_remove_same _ _ _ _ _ _ _ Hfind Hrf) as Hx.
    assert (x = id0) by congruence. subst x. assert (e = e0) by congruence. subst e.
    destruct (remove_find_sib _ _ _ _ _ _ Hrf) as (x' & Hl' & HxN & HcN & Hsib).
    assert (x' = id0) by congruence. subst x'.
    destruct (RootT_of_OK s Hroot) as (L & HRT & HL).
    assert (Hp_ok : ent_ok (ver s) p).
    { rewrite Forall_forall in Hents. apply Hents. eapply nthN_In. exact Hp. }
    assert (He_ok : ent_ok (ver s) e0).
    { rewrite Forall_forall in Hents. apply Hents. eapply nthN_In. exact He0. }
    assert (HT' : TOK (ver s) L (dirs s')).
    { rewrite Hds. apply (remove_tbl_ok _ _ _ _ _ _ _ _ _ p); try assumption.
      - split; assumption.
      - destruct He_ok as (_ & Hb & _). apply Hb. exact Ht0.
      - intros Hs. destruct Hp_ok as (W & _). destruct (CodecProofs.wf_stream _ _ W Hs) as (Hch & _).
        contradiction.
      - intros sib Hs. rewrite Hs in Hsib. destruct Hsib as [[Hn _]|(sib' & se & Hs' & Hse & Hl)].
        + discriminate Hn.
        + injection Hs' as <-. exists se. auto. }
    rewrite F1. apply HT'.
  - destruct (remove_proj _ _ _ _ _ H)
      as (p & path & x & e & pp & pred & Hp & Hrf & Hlastp & He & Hc & Hx0 & Hfp & Hds).
    assert (Hfind : find_in_siblings (S (length (dirs s))) (dirs s) nm (d_child p) = Ok (Some id0)).
    { rewrite (TreeProofs.lastN_some _ _ _ Hlast), MutRefine.lookup_chain_app, Hlkp in Hlk.
      cbn [rbind lookup_chain] in Hlk. unfold dir_entry_of in Hlk. rewrite Hp in Hlk. cbn [rbind] in Hlk.
      destruct (find_in_siblings (S (length (dirs s))) (dirs s) nm (d_child p)) as [r| | |];
        try discriminate Hlk. cbn [rbind] in Hlk.
      destruct r as [cid|]; [|discriminate Hlk]. injection Hlk as ->. reflexivity. }
    pose proof (find_remove_same _ _ _ _ _ _ _ Hfind Hrf) as Hx.
    assert (x = id0) by congruence. subst x. assert (e = e0) by congruence. subst e.
    destruct (remove_find_sib _ _ _ _ _ _ Hrf) as (x' & Hl' & HxN & HcN & Hsib).
    assert (x' = id0) by congruence. subst x'.
    destruct (RootT_of_OK s Hroot) as (L & HRT & HL).
    assert (Hp_ok : ent_ok (ver s) p).
    { rewrite Forall_forall in Hents. apply Hents. eapply nthN_In. exact Hp. }
    assert (He_ok : ent_ok (ver s) e0).
    { rewrite Forall_forall in Hents. apply Hents. eapply nthN_In. exact He0. }
    assert (HT' : TOK (ver s) L (dirs s')).
    { rewrite Hds. apply (remove_tbl_ok _ _ _ _ _ _ _ _ _ p); try assumption.
      - split; assumption.
      - destruct He_ok as (_ & Hb & _). apply Hb. exact Ht0.
      - intros Hs. destruct Hp_ok as (W & _). destruct (CodecProofs.wf_stream _ _ W Hs) as (Hch & _).
        contradiction.
      - intros sib Hs. rewrite Hs in Hsib. destruct Hsib as [[Hn _]|(sib' & se & Hs' & Hse & Hl)].
        + discriminate Hn.
        + injection Hs' as <-. exists se. auto. }
    eapply RootOK_of_T; [exact Hroot|exact HL|apply HT'|exact F8].
  - exact Htree'.
Qed.

Theorem remove_storage_preserves : forall p s s',
  PInv s -> api_remove_storage p s = (s', Ok tt) -> PInv s'.
Proof.
  intros p s s' HP H. pose proof HP as [_ _ _ _ (t & HT & HU)].
  destruct (MutRefine.remove_storage_refines ctrue ctrue p 0 s s' t HT HU (fun _ _ c => c) H)
    as (t' & _ & HT' & HU').
  unfold api_remove_storage, remove_storage_names in H.
  destruct (MutRefine.names_lookup_inv _ _ _ _ _ _ H) as (names & r & En & Hlk & HK).
  destruct r as [id0|]; [|discriminate HK].
  binv HK e s1 H1 H2. apply dir_entry_inv in H1. destruct H1 as [-> He].
  destruct (objtype_eqb (d_type e) TRoot) eqn:T1; [discriminate H2|].
  destruct (objtype_eqb (d_type e) TStream) eqn:T2; [discriminate H2|].
  destruct (objtype_eqb (d_type e) TStorage) eqn:T3; cbn [negb] in H2; [|discriminate H2].
  destruct (d_child e =? NO_STREAM) eqn:Ch; cbn [negb] in H2; [|discriminate H2].
  destruct (lastN names) as [nm|] eqn:Hlast; [|discriminate H2].
  destruct (MutRefine.lookup_inv _ _ _ _ _ _ H2) as (pr & Hlkp & H3). clear H2.
  destruct pr as [pid|]; [|discriminate H3].
  apply (remove_entry_pinv s s' names id0 e nm pid HP Hlk He); try assumption.
  - apply objtype_eqb_true in T3. rewrite T3. discriminate.
  - exists t'. split; assumption.
Qed.


(* ================================================================== *)
(* 9. the allocator (growth branch): FAT tail, frames, shapes          *)
(* ================================================================== *)

Definition G (s : cstate) : Prop :=
  lenN (img s) = nsect s + 1 /\ ReuseProofs.full s /\ NoDup (difat s) /\
  (forall f, In f (difat s) -> f < nsect s) /\ FatTailFree s.

(* the components no allocator primitive touches *)
Definition rest (s : cstate) :=
  (ver s, dirs s, dir_start s, minifat s, minifat_start s, mfree s, difat_ids s, free s).

Lemma dropN_repeatN : forall A (x : A) n k, dropN k (repeatN x n) = repeatN x (n - k).
Proof.
  intros A x n. induction n as [|n IH] using N.peano_ind; intros k.
  - cbn. destruct (k =? 0); reflexivity.
  - rewrite repeatN_succ. destruct (N.eq_dec k 0) as [->|Hk].
    + rewrite dropN_0, N.sub_0_r, repeatN_succ. reflexivity.
    + rewrite dropN_cons by lia. rewrite IH. f_equal. lia.
Qed.

Lemma takeN_repeatN' : forall A (x : A) n k, k <= n -> takeN k (repeatN x n) = repeatN x k.
Proof.
  intros A x n. induction n as [|n IH] using N.peano_ind; intros k Hk.
  - assert (k = 0) by lia. subst. reflexivity.
  - rewrite repeatN_succ. destruct (N.eq_dec k 0) as [->|Hk0].
    + rewrite takeN_0. reflexivity.
    + rewrite takeN_cons by lia. rewrite IH by lia.
      rewrite <- repeatN_succ. f_equal. lia.
Qed.

Lemma cell_of_ff : forall sl m, 4 * m + 4 <= sl ->
  le_val (takeN 4 (dropN (4 * m) (repeatN 255 sl))) = FREE_SECTOR.
Proof.
  intros sl m H. rewrite dropN_repeatN, takeN_repeatN' by lia.
  rewrite FREE_val. reflexivity.
Qed.

Lemma init_bytes_fat : forall v, init_bytes v IFat = repeatN 255 (sector_len v).
Proof. reflexivity. Qed.

Lemma G_set_fat : forall s index v s' u,
  G s -> set_fat index v s = (s', Ok u) ->
  G s' /\ fat s' = ReuseProofs.fat_set (fat s) index v /\ nsect s' = nsect s /\
  difat s' = difat s /\ rest s' = rest s /\ hd [] (img s') = hd [] (img s) /\
  (forall x, ~ In x (difat s) -> sector_bytes s' x = sector_bytes s x) /\
  index <= lenN (fat s).
Proof.
  intros s index v s' u (Gi & Gf & Gn & Gl & Gt) H.
  destruct (DirCoherence.set_fat_ok_inv s index v s' u Gi H) as (fsid & Hd & Hfs & Hidx & ->).
  set (off := 4 * (index mod fat_per_sector s)).
  change (w_img s (updN (img s) (fsid + 1) (spliceN (sector_bytes s fsid) off (le_bytes 4 v))))
    with (ReuseProofs.wr s fsid off (le_bytes 4 v)).
  set (s1 := ReuseProofs.wr s fsid off (le_bytes 4 v)).
  pose proof (ReuseProofs.cell_off_fits s index) as Hfit. unfold ReuseProofs.cell_off in Hfit. fold off in Hfit.
  pose proof (CodecProofs.lenN_le_bytes4 v) as HL4.
  assert (Hfull1 : ReuseProofs.full s1) by (apply ReuseProofs.full_wr; try assumption; lia).
  split; [|split; [reflexivity|split; [reflexivity|split; [reflexivity|split; [reflexivity|split]]]]].
  - split; [cbn [img nsect w_fat]; unfold s1, ReuseProofs.wr; cbn [img nsect w_img]; rewrite lenN_updN; exact Gi|].
    split; [exact Hfull1|]. split; [exact Gn|]. split; [exact Gl|].
    intros k f m Hk Hm Hge.
    change (difat (w_fat s1 (if index =? lenN (fat s) then fat s ++ [v] else updN (fat s) index v)))
      with (difat s) in Hk.
    change (fat_per_sector (w_fat s1 (if index =? lenN (fat s) then fat s ++ [v] else updN (fat s) index v)))
      with (fat_per_sector s) in Hm, Hge.
    cbn [fat w_fat] in Hge.
    change (sector_bytes (w_fat s1 (if index =? lenN (fat s) then fat s ++ [v] else updN (fat s) index v)) f)
      with (sector_bytes s1 f).
    assert (Hlen' : lenN (fat s) <= lenN (if index =? lenN (fat s) then fat s ++ [v] else updN (fat s) index v)
                    /\ index < lenN (if index =? lenN (fat s) then fat s ++ [v] else updN (fat s) index v)).
    { destruct (N.eqb_spec index (lenN (fat s))); [rewrite lenN_app; cbn [lenN]; lia|rewrite lenN_updN; lia]. }
    destruct Hlen' as [Hl1 Hl2].
    pose proof (ReuseProofs.fps_pos s) as Hfp. pose proof (ReuseProofs.fps_slen s) as Hfs4.
    destruct (N.eq_dec f fsid) as [->|Hne].
    + assert (k = index / fat_per_sector s) by (eapply CoherenceProofs.NoDup_nthN_inj; eassumption).
      subst k.
      assert (Hm' : m <> index mod fat_per_sector s).
      { intro E. subst m. rewrite (N.div_mod index (fat_per_sector s)) in Hl2 at 1 by lia. lia. }
      unfold s1. rewrite ReuseProofs.sector_bytes_wr_same by (apply Gf; exact Hfs).
      pose proof (Gf fsid Hfs) as Hlf.
      destruct (N.lt_ge_cases m (index mod fat_per_sector s)).
      * rewrite spliceN_read_before by (unfold off; blia).
        apply (Gt _ _ _ Hd Hm). lia.
      * rewrite spliceN_read_after by (unfold off; blia).
        apply (Gt _ _ _ Hd Hm). lia.
    + unfold s1. rewrite ReuseProofs.sector_bytes_wr_other by exact Hne.
      apply (Gt _ _ _ Hk Hm). lia.
  - cbn [img w_fat]. unfold s1, ReuseProofs.wr. cbn [img w_img]. apply hd_updN_pos. lia.
  - split; [|exact Hidx]. intros x Hx.
    change (sector_bytes (w_fat s1 (if index =? lenN (fat s) then fat s ++ [v] else updN (fat s) index v)) x)
      with (sector_bytes s1 x).
    unfold s1. apply ReuseProofs.sector_bytes_wr_other. intros ->. apply Hx. eapply nthN_In. exact Hd.
Qed.

Lemma G_init_append : forall s i s' u,
  G s -> init_sector (nsect s) i s = (s', Ok u) ->
  G s' /\ nsect s' = nsect s + 1 /\ fat s' = fat s /\ difat s' = difat s /\ rest s' = rest s /\
  sector_bytes s' (nsect s) = init_bytes (ver s) i /\
  (forall x, x < nsect s -> sector_bytes s' x = sector_bytes s x) /\
  (slen s <= lenN (hd [] (img s)) -> hd [] (img s') = hd [] (img s)).
Proof.
  intros s i s' u (Gi & Gf & Gn & Gl & Gt) H.
  destruct (DirCoherence.init_sector_ok_inv s (nsect s) i s' u Gi H) as [[Hc _]|[_ ->]]; [lia|].
  set (b := init_bytes (ver s) i).
  set (s1 := w_img (w_nsect s (nsect s + 1)) (img_pad_last (slen s) (img s) ++ [b])).
  pose proof (ReuseProofs.lenN_init_bytes (ver s) i) as HL. fold (slen s) in HL. fold b in HL.
  assert (Hold : forall x, x < nsect s -> sector_bytes s1 x = sector_bytes s x).
  { intros x Hx. unfold sector_bytes at 1. unfold s1. cbn [img w_img].
    rewrite nthN_app_l by (rewrite DirCoherence.lenN_img_pad_last; lia).
    pose proof (Gf x Hx) as Hlen. pose proof (slen_pos s) as Hpos.
    rewrite (CoherenceProofs.nthN_pad_last (slen s) (img s) (x + 1) (sector_bytes s x));
      [reflexivity| |exact Hlen].
    apply CoherenceProofs.sector_bytes_Some. lia. }
  assert (Hnew : sector_bytes s1 (nsect s) = b).
  { unfold sector_bytes, s1. cbn [img w_img].
    rewrite ReuseProofs.nthN_app_r by (rewrite DirCoherence.lenN_img_pad_last; lia).
    rewrite DirCoherence.lenN_img_pad_last, Gi, N.sub_diag. reflexivity. }
  split; [|split; [reflexivity|split; [reflexivity|split; [reflexivity|split; [reflexivity|
           split; [exact Hnew|split; [exact Hold|]]]]]]].
  - split; [unfold s1; cbn [img nsect w_img w_nsect];
            rewrite lenN_app, DirCoherence.lenN_img_pad_last; cbn [lenN]; lia|].
    split.
    { intros x Hx. cbn [s1 nsect w_img w_nsect] in Hx. change (slen s1) with (slen s).
      destruct (N.eq_dec x (nsect s)) as [->|Hne]; [rewrite Hnew; exact HL|].
      rewrite Hold by lia. apply Gf. lia. }
    split; [exact Gn|]. split; [intros f Hf; cbn [s1 nsect w_img w_nsect]; specialize (Gl f Hf); lia|].
    intros k f m Hk Hm Hge. change (difat s1) with (difat s) in Hk.
    change (fat_per_sector s1) with (fat_per_sector s) in Hm, Hge. change (fat s1) with (fat s) in Hge.
    rewrite Hold by (apply Gl; eapply nthN_In; exact Hk). exact (Gt _ _ _ Hk Hm Hge).
  - intros Hh. unfold s1. cbn [img w_img].
    pose proof (DirCoherence.lenN_img_pad_last (slen s) (img s)) as L.
    destruct (img_pad_last (slen s) (img s)) as [|p0 pt] eqn:Ep; [cbn [lenN] in L; lia|].
    cbn [app hd]. change p0 with (hd [] (p0 :: pt)). rewrite <- Ep.
    apply hd_img_pad_last. exact Hh.
Qed.

Lemma G_difat_app : forall s n,
  G s -> n < nsect s -> ~ In n (difat s) -> sector_bytes s n = repeatN 255 (slen s) ->
  G (w_difat s (difat s ++ [n])).
Proof.
  intros s n (Gi & Gf & Gn & Gl & Gt) Hn Hni Hb.
  split; [exact Gi|]. split; [exact Gf|].
  split; [cbn [difat w_difat]; apply CoherenceProofs.NoDup_app_snoc; assumption|].
  split.
  { intros f Hf. cbn [difat w_difat] in Hf. cbn [nsect w_difat].
    apply in_app_or in Hf. destruct Hf as [Hf|[<-|[]]]; [apply Gl; exact Hf|exact Hn]. }
  intros k f m Hk Hm Hge. cbn [difat w_difat] in Hk.
  change (fat_per_sector (w_difat s (difat s ++ [n]))) with (fat_per_sector s) in Hm, Hge.
  change (fat (w_difat s (difat s ++ [n]))) with (fat s) in Hge.
  change (sector_bytes (w_difat s (difat s ++ [n])) f) with (sector_bytes s f).
  destruct (N.lt_ge_cases k (lenN (difat s))) as [Hlt|Hge'].
  - rewrite nthN_app_l in Hk by exact Hlt. exact (Gt _ _ _ Hk Hm Hge).
  - rewrite ReuseProofs.nthN_app_r in Hk by exact Hge'.
    assert (k - lenN (difat s) = 0).
    { destruct (N.eq_dec (k - lenN (difat s)) 0) as [E|E]; [exact E|].
      rewrite nthN_cons_pos in Hk by lia. destruct (N.pred (k - lenN (difat s)) =? 0); discriminate Hk. }
    rewrite H in Hk. injection Hk as <-. rewrite Hb. apply cell_of_ff.
    pose proof (ReuseProofs.fps_slen s). lia.
Qed.

Lemma G_header_write : forall s off bs s' u,
  G s -> header_write off bs s = (s', Ok u) ->
  G s' /\ fat s' = fat s /\ nsect s' = nsect s /\ difat s' = difat s /\ rest s' = rest s /\
  (forall x, sector_bytes s' x = sector_bytes s x).
Proof.
  intros s off bs s' u (Gi & Gf & Gn & Gl & Gt) H.
  destruct (DirCoherence.header_write_ok_inv s off bs s' u Gi H) as (h & Hh & ->).
  assert (Hsb : forall x, sector_bytes (w_img s (updN (img s) 0 (spliceN h off bs))) x = sector_bytes s x).
  { intro x. unfold sector_bytes. cbn [img w_img]. rewrite nthN_updN_other by lia. reflexivity. }
  split; [|repeat split; try reflexivity; exact Hsb].
  split; [cbn [img nsect w_img]; rewrite lenN_updN; exact Gi|].
  split; [intros x Hx; rewrite Hsb; apply Gf; exact Hx|].
  split; [exact Gn|]. split; [exact Gl|].
  intros k f m Hk Hm Hge. rewrite Hsb. exact (Gt _ _ _ Hk Hm Hge).
Qed.

Lemma rest_ver : forall s s', rest s' = rest s -> ver s' = ver s.
Proof. intros s s' H. unfold rest in H. congruence. Qed.

(* append_fat_sector below 109 FAT sectors *)
Lemma G_append_fat_sector : forall s s' u,
  G s -> lenN (fat s) = nsect s -> lenN (difat s) < NUM_DIFAT_HDR ->
  append_fat_sector s = (s', Ok u) ->
  G s' /\ fat s' = fat s ++ [FAT_SECTOR] /\ difat s' = difat s ++ [nsect s] /\
  nsect s' = nsect s + 1 /\ rest s' = rest s /\
  (forall x, x < nsect s -> ~ In x (difat s) -> sector_bytes s' x = sector_bytes s x).
Proof.
  intros s s' u HG Hlen Hreg H. pose proof HG as (Gi & Gf & Gn & Gl & Gt).
  unfold append_fat_sector in H.
  binv H s0 s1 H1 H2. apply get_inv in H1. destruct H1 as [-> ->]. cbv zeta in H2.
  binv H2 u1 s1 H1 H2. rewrite Hlen in H1.
  destruct (G_init_append s IFat s1 u1 HG H1) as (HG1 & N1 & F1 & D1 & R1 & B1 & O1 & _).
  binv H2 u2 s2 H2 H3. unfold modify in H2. injection H2 as <-.
  assert (HG2 : G (w_difat s1 (difat s1 ++ [lenN (fat s)]))).
  { apply G_difat_app; [exact HG1|lia| |].
    - rewrite D1. intro Hin. specialize (Gl _ Hin). lia.
    - rewrite Hlen, B1. unfold slen. rewrite (rest_ver _ _ R1). apply init_bytes_fat. }
  set (s2 := w_difat s1 (difat s1 ++ [lenN (fat s)])) in *.
  binv H3 u3 s3 H3 H4.
  destruct (G_set_fat s2 _ _ s3 u3 HG2 H3) as (HG3 & F3 & N3 & D3 & R3 & _ & O3 & _).
  replace (lenN (difat s) <? NUM_DIFAT_HDR) with true in H4 by lia.
  binv H4 u4 s4 H4 H5.
  destruct (G_header_write s3 _ _ s4 u4 HG3 H4) as (HG4 & F4 & N4 & D4 & R4 & O4).
  binv H5 s0 s5 H5 H6. apply get_inv in H5. destruct H5 as [-> ->].
  destruct (G_header_write s4 _ _ s' u HG4 H6) as (HG5 & F5 & N5 & D5 & R5 & O5).
  split; [exact HG5|].
  assert (Ef2 : fat s2 = fat s) by (cbn [s2 fat w_difat]; exact F1).
  split.
  { rewrite F5, F4, F3, Ef2. unfold ReuseProofs.fat_set. rewrite N.eqb_refl. reflexivity. }
  split; [rewrite D5, D4, D3; cbn [s2 difat w_difat]; rewrite D1, Hlen; reflexivity|].
  split; [rewrite N5, N4, N3; cbn [s2 nsect w_difat]; exact N1|].
  split; [rewrite R5, R4, R3; exact R1|].
  intros x Hx Hni. rewrite O5, O4, O3.
  - change (sector_bytes s2 x) with (sector_bytes s1 x). apply O1. exact Hx.
  - cbn [s2 difat w_difat]. rewrite D1. intro Hin. apply in_app_or in Hin.
    destruct Hin as [Hin|[E|[]]]; [contradiction|lia].
Qed.

(* allocate_sector with an empty free list, below 109 FAT sectors *)
Theorem G_allocate_grow : forall i s s' sid,
  G s -> free s = [] -> lenN (fat s) = nsect s -> lenN (difat s) < NUM_DIFAT_HDR ->
  allocate_sector i s = (s', Ok sid) ->
  G s' /\
  ((fat s' = fat s ++ [END_OF_CHAIN] /\ difat s' = difat s /\ sid = nsect s /\ nsect s' = nsect s + 1) \/
   (fat s' = fat s ++ [FAT_SECTOR; END_OF_CHAIN] /\ difat s' = difat s ++ [nsect s] /\
    sid = nsect s + 1 /\ nsect s' = nsect s + 2)) /\
  rest s' = rest s /\
  (forall x, x < nsect s -> ~ In x (difat s) -> sector_bytes s' x = sector_bytes s x) /\
  sector_bytes s' sid = init_bytes (ver s) i.
Proof.
  intros i s s' sid HG Hfree Hlen Hreg H.
  rewrite (CoherenceProofs.allocate_sector_grow_unfold i s Hfree) in H.
  binv H u1 s1 H1 H2.
  assert (P1 : G s1 /\ lenN (fat s1) = nsect s1 /\
          ((fat s1 = fat s /\ difat s1 = difat s /\ nsect s1 = nsect s) \/
           (fat s1 = fat s ++ [FAT_SECTOR] /\ difat s1 = difat s ++ [nsect s] /\ nsect s1 = nsect s + 1)) /\
          rest s1 = rest s /\
          (forall x, x < nsect s -> ~ In x (difat s) -> sector_bytes s1 x = sector_bytes s x)).
  { destruct (lenN (fat s) mod fat_per_sector s =? 0).
    - destruct (G_append_fat_sector s s1 u1 HG Hlen Hreg H1) as (A1 & A2 & A3 & A4 & A5 & A6).
      split; [exact A1|]. split; [rewrite A2, A4, lenN_app; cbn [lenN]; lia|].
      split; [right; auto|]. split; assumption.
    - apply ret_inv in H1. destruct H1 as [-> _]. split; [exact HG|]. split; [exact Hlen|].
      split; [left; auto|]. split; [reflexivity|]. intros; reflexivity. }
  destruct P1 as (HG1 & Hlen1 & Hcase & R1 & O1).
  unfold CoherenceProofs.alloc_tail in H2.
  binv H2 s0 s2 H2 H3. apply get_inv in H2. destruct H2 as [-> ->]. cbv zeta in H3.
  binv H3 u2 s2 H3 H4.
  destruct (G_set_fat s1 _ _ s2 u2 HG1 H3) as (HG2 & F2 & N2 & D2 & R2 & _ & O2 & _).
  binv H4 u3 s3 H4 H5. apply ret_inv in H5. destruct H5 as [-> ->].
  rewrite Hlen1, <- N2 in H4.
  destruct (G_init_append s2 i s3 u3 HG2 H4) as (HG3 & N3 & F3 & D3 & R3 & B3 & O3 & _).
  unfold ReuseProofs.fat_set in F2. rewrite N.eqb_refl in F2.
  split; [exact HG3|]. split.
  { rewrite Hlen1, N3, N2, F3, F2, D3, D2.
    destruct Hcase as [(A & B & C)|(A & B & C)]; [left|right]; rewrite A, B, C.
    - auto.
    - rewrite <- app_assoc. cbn [app]. repeat split; lia. }
  split; [rewrite R3, R2; exact R1|]. split.
  - intros x Hx Hni. rewrite O3, O2.
    + apply O1; assumption.
    + destruct Hcase as [(_ & B & _)|(_ & B & _)]; rewrite B; [exact Hni|].
      intro Hin. apply in_app_or in Hin. destruct Hin as [Hin|[E|[]]]; [contradiction|lia].
    + rewrite N2. destruct Hcase as [(_ & _ & C)|(_ & _ & C)]; rewrite C; lia.
  - rewrite Hlen1, <- N2, B3. rewrite (rest_ver _ _ R2), (rest_ver _ _ R1). reflexivity.
Qed.


(* ================================================================== *)
(* 10. extending the directory chain keeps [Base]                      *)
(* ================================================================== *)

Lemma INVALID_val : INVALID_SECTOR = 4294967291. Proof. vm_compute. reflexivity. Qed.

Lemma rest_fields : forall s s', rest s' = rest s ->
  ver s' = ver s /\ dirs s' = dirs s /\ dir_start s' = dir_start s /\ minifat s' = minifat s /\
  minifat_start s' = minifat_start s /\ mfree s' = mfree s /\ difat_ids s' = difat_ids s /\
  free s' = free s.
Proof. intros s s' H. unfold rest in H. injection H as -> -> -> -> -> -> -> ->. repeat split. Qed.

Lemma G_of_Base : forall s, Base s -> G s.
Proof.
  intros s B. destruct (b_fat s B) as [[Ci Cf Cc Cn Cl] _ _ _].
  split; [exact Ci|]. split; [exact Cf|]. split; [exact Cn|]. split; [exact Cl|apply B].
Qed.

(* FatInv across a step that keeps the FAT, the DIFAT and the FAT sectors *)
Lemma FatInv_frame : forall s s',
  CoherenceProofs.FatInv s -> G s' ->
  fat s' = fat s -> difat s' = difat s -> nsect s' = nsect s -> ver s' = ver s ->
  (forall f, In f (difat s) -> sector_bytes s' f = sector_bytes s f) ->
  CoherenceProofs.FatInv s'.
Proof.
  intros s s' [[Ci Cf Cc Cn Cl] Clen Cpos Ct] (Gi & Gf & Gn & Gl & _) Ef Ed En Ev Hs.
  assert (Hfps : fat_per_sector s' = fat_per_sector s)
    by (unfold fat_per_sector, slen; rewrite Ev; reflexivity).
  constructor; [constructor|..]; try assumption.
  - apply (CoherenceProofs.coherent_frame s); try assumption; [lia|].
    intros f Hf _ _. apply Hs. exact Hf.
  - rewrite Ef, En. exact Clen.
  - rewrite En. exact Cpos.
  - rewrite Ed, Ef, Hfps. exact Ct.
Qed.

Lemma path_last_eoc : forall fat cur l x,
  WalkProofs.path fat cur l -> lastN l = Some x -> nthN fat x = Some END_OF_CHAIN.
Proof.
  intros fat cur l x Hp. induction Hp as [|c nx l Hc Hn Hp IH]; intro Hl; [discriminate Hl|].
  destruct l as [|y t].
  - injection Hl as <-. inversion Hp; subst. apply WalkProofs.next_of_Ok in Hn. apply Hn.
  - rewrite lastN_cons_cons in Hl. apply IH. exact Hl.
Qed.

(* ---- the regular cells of a FAT ---- *)
Notation regs := WalkProofs.regs.
Notation regular := WalkProofs.regular.

Lemma regs_app : forall a b, regs (a ++ b) = regs a ++ regs b.
Proof. intros. unfold WalkProofs.regs. apply filter_app. Qed.

Lemma regular_spec : forall c, regular c = true <-> c <= MAX_REGULAR_SECTOR.
Proof. intro c. unfold WalkProofs.regular. apply N.leb_le. Qed.

Lemma regs_updN : forall l i c v,
  nthN l i = Some c -> regular c = false -> regular v = true ->
  Permutation (regs (updN l i v)) (v :: regs l).
Proof.
  induction l as [|a t IH]; intros i c v Hn Hc Hv; [discriminate Hn|].
  cbn [updN nthN] in *. destruct (i =? 0).
  - injection Hn as ->. unfold WalkProofs.regs. cbn [filter]. rewrite Hc, Hv. reflexivity.
  - unfold WalkProofs.regs. cbn [filter]. fold (regs (updN t (N.pred i) v)). fold (regs t).
    destruct (regular a).
    + etransitivity; [apply perm_skip; eapply IH; eassumption|apply perm_swap].
    + eapply IH; eassumption.
Qed.

Lemma In_updN : forall A (l : list A) i v x, In x (updN l i v) -> x = v \/ In x l.
Proof.
  induction l as [|a t IH]; intros i v x H; [destruct H|].
  cbn [updN] in H. destruct (i =? 0).
  - destruct H as [<-|H]; [left; reflexivity|right; right; exact H].
  - destruct H as [<-|H]; [right; left; reflexivity|].
    destruct (IH _ _ _ H); [left; assumption|right; right; assumption].
Qed.

(* linking a fresh cell behind an END_OF_CHAIN cell keeps the FAT valid *)
Lemma pointees_extend : forall fat X lst new,
  check_pointees false fat (lenN fat) [] = Ok tt ->
  (X = [END_OF_CHAIN] \/ X = [FAT_SECTOR; END_OF_CHAIN]) ->
  nthN fat lst = Some END_OF_CHAIN ->
  lenN fat <= new -> new < lenN (fat ++ X) -> new <= MAX_REGULAR_SECTOR ->
  check_pointees false (updN (fat ++ X) lst new) (lenN (updN (fat ++ X) lst new)) [] = Ok tt.
Proof.
  intros fat X lst new H HX Hlast Hge Hlt Hreg.
  apply WalkProofs.check_pointees_spec in H. destruct H as (P1 & P2 & _ & P4).
  markers. pose proof INVALID_val as HI.
  assert (HrX : regs X = []).
  { destruct HX as [-> | ->]; unfold WalkProofs.regs; cbn [filter]; unfold WalkProofs.regular.
    - destruct (N.leb_spec END_OF_CHAIN MAX_REGULAR_SECTOR); [lia|reflexivity].
    - destruct (N.leb_spec FAT_SECTOR MAX_REGULAR_SECTOR); [lia|].
      destruct (N.leb_spec END_OF_CHAIN MAX_REGULAR_SECTOR); [lia|reflexivity]. }
  assert (Hl' : nthN (fat ++ X) lst = Some END_OF_CHAIN).
  { rewrite nthN_app_l by (eapply nthN_Some_lt; exact Hlast). exact Hlast. }
  assert (HP : Permutation (regs (updN (fat ++ X) lst new)) (new :: regs fat)).
  { etransitivity; [eapply regs_updN; [exact Hl'| |]|].
    - unfold WalkProofs.regular. destruct (N.leb_spec END_OF_CHAIN MAX_REGULAR_SECTOR); [lia|reflexivity].
    - apply regular_spec. exact Hreg.
    - rewrite regs_app, HrX, app_nil_r. reflexivity. }
  apply WalkProofs.check_pointees_spec. rewrite lenN_updN.
  split; [|split; [|split]].
  - eapply Permutation_Forall; [apply Permutation_sym; exact HP|].
    constructor; [exact Hlt|]. eapply Forall_impl; [|exact P1]. cbv beta. intros a Ha.
    rewrite lenN_app. lia.
  - eapply Permutation_NoDup; [apply Permutation_sym; exact HP|].
    constructor; [|exact P2]. intro Hin. rewrite Forall_forall in P1. specialize (P1 _ Hin). lia.
  - intros c _ [].
  - intros _ Hin. apply In_updN in Hin. destruct Hin as [E|Hin]; [lia|].
    apply in_app_or in Hin. destruct Hin as [Hin|Hin]; [exact (P4 eq_refl Hin)|].
    destruct HX as [-> | ->]; cbn [In] in Hin; intuition lia.
Qed.

(* update_num_dir_sectors: a header write at most *)
Lemma G_update_num_dir : forall s s' u,
  G s -> slen s <= lenN (hd [] (img s)) -> update_num_dir_sectors s = (s', Ok u) ->
  G s' /\ fat s' = fat s /\ nsect s' = nsect s /\ difat s' = difat s /\ rest s' = rest s /\
  (forall x, sector_bytes s' x = sector_bytes s x) /\
  lenN (hd [] (img s')) = lenN (hd [] (img s)).
Proof.
  intros s s' u HG Hh H. unfold update_num_dir_sectors in H.
  binv H s0 s1 H1 H2. apply get_inv in H1. destruct H1 as [-> ->].
  destruct (ver s) eqn:Ev.
  - apply ret_inv in H2. destruct H2 as [-> _]. split; [exact HG|]. repeat split; reflexivity.
  - binv H2 nx s1 H1 H2. unfold next in H1. rewrite ReuseProofs.bind_get in H1. apply lift_inv in H1.
    destruct H1 as [-> _].
    binv H2 n s1 H1 H2. apply lift_inv in H1. destruct H1 as [-> _].
    destruct (G_header_write s _ _ s' u HG H2) as (A1 & A2 & A3 & A4 & A5 & A6).
    split; [exact A1|]. do 5 (split; [assumption|]).
    destruct HG as (Gi & _).
    destruct (DirCoherence.header_write_ok_inv s _ _ s' u Gi H2) as (h & Hh0 & ->).
    cbn [img w_img]. rewrite (hd_nthN0 _ _ Hh0).
    destruct (img s) as [|h0 t]; [discriminate Hh0|]. cbn in Hh0. injection Hh0 as ->.
    cbn [updN N.eqb hd]. rewrite lenN_spliceN, CodecProofs.lenN_le_bytes4.
    cbn [hd] in Hh. unfold HDR_OFF_NUM_DIR.
    destruct (ReuseProofs.slen_cases s) as [E|E]; rewrite E in Hh; blia.
Qed.

Lemma chain_count_eq : forall fat fat' st ids,
  chain_ids_of fat st = Ok ids -> chain_ids_of fat' st = Ok ids ->
  chain_count fat' st = chain_count fat st.
Proof. intros fat fat' st ids H H'. unfold chain_count. rewrite H, H'. reflexivity. Qed.

Theorem dir_extension_base : forall s s3,
  Base s -> DirCoherence.DirCoherent s ->
  lenN (difat s) < NUM_DIFAT_HDR -> nsect s + 3 <= MAX_REGULAR_SECTOR ->
  (do _ <- extend_chain (dir_start s) IDir; update_num_dir_sectors) s = (s3, Ok tt) ->
  Base s3 /\ rest s3 = rest s /\ nsect s3 <= nsect s + 2 /\ lenN (difat s3) <= lenN (difat s) + 1.
Proof.
  intros s s3 B Hdir Hreg Hsize H.
  pose proof (G_of_Base s B) as HG.
  destruct B as [Bh Bf Bd Bi Bn Bs Bu Bt Bm Bv Bmi Bmt Bml Bmv Bfr Bdj].
  pose proof Bf as [[Ci Cfull Ccoh Cnd Clt] Clen Cpos Ctight].
  destruct Hdir as (dids & Hids & Hgd & Hdcap & _).
  pose proof Bmi as (mids & Hmids & Hgm & Hmcap & Hmcell).
  destruct (uniform_parts s (slen s) Ci Bu) as [Uh _].
  unfold DirCoherence.dir_ids in Hids. unfold DirCoherence.minifat_ids in Hmids.
  binv H new s2 He H3.
  pose proof He as He0.
  (* open extend_chain *)
  unfold extend_chain in He.
  destruct (N.eqb_spec (dir_start s) END_OF_CHAIN) as [E|Hstart]; [discriminate He|].
  binv He s0 sx H1 H2. apply get_inv in H1. destruct H1 as [-> ->].
  binv H2 lst sx H1 H2. apply lift_inv in H1. destruct H1 as [-> Hfl].
  binv H2 nw sa Ha H2. binv H2 u2 sb Hs H2. apply ret_inv in H2. destruct H2 as [<- ->]. destruct u2.
  pose proof (WalkProofs.chain_ids_path _ _ _ Hids) as Hpd.
  pose proof (DirCoherence.find_last_go_path _ _ _ _ _ _ Hpd Hstart Hfl) as Hlast.
  pose proof (CoherenceProofs.lastN_In _ _ _ Hlast) as HlastIn.
  pose proof (path_last_eoc _ _ _ _ Hpd Hlast) as Hlast_eoc.
  assert (Hlast_lt : lst < lenN (fat s)) by (eapply nthN_Some_lt; exact Hlast_eoc).
  assert (Hdids_nf : forall x, In x dids -> ~ In x (difat s))
    by (intros x Hx; exact (chain_not_marked s _ _ x Bm Hids Hx)).
  assert (Hmids_nf : forall x, In x mids -> ~ In x (difat s))
    by (intros x Hx; exact (chain_not_marked s _ _ x Bm Hmids Hx)).
  (* the allocation *)
  markers.
  destruct (G_allocate_grow IDir s sa nw HG Bfr Clen Hreg Ha) as (HGa & Hshape & Ra & Oa & Ba).
  destruct (CoherenceProofs.allocate_grow_coherent IDir s sa nw Bf Bd Bfr Ha)
    as (Hinva & Hoka & Hfra & Hnw & Hnsa).
  destruct (allocate_sector_header IDir s sa nw Bh Bf Hreg ltac:(rewrite Uh; lia)
              ltac:(intros x Hx; rewrite Bfr in Hx; destruct Hx)
              (ex_intro _ dids Hids) (ex_intro _ mids Hmids) Ha)
    as ((P1 & P2 & P3 & P4 & P5 & P6 & P7 & P8) & Hcell & Hfl2).
  destruct (rest_fields _ _ Ra) as (Rv & Rdirs & Rds & Rmf & Rms & Rmfr & Rdi & Rfr).
  assert (Hfa : exists X, fat sa = fat s ++ X /\ (X = [END_OF_CHAIN] \/ X = [FAT_SECTOR; END_OF_CHAIN]) /\
                 (forall f, In f (difat sa) -> In f (difat s) \/ (f = nsect s /\ X = [FAT_SECTOR; END_OF_CHAIN])) /\
                 lenN (difat sa) <= lenN (difat s) + 1 /\ nsect sa = nsect s + lenN X /\ nsect s <= nw).
  { destruct Hshape as [(A & B & C & D)|(A & B & C & D)].
    - exists [END_OF_CHAIN]. split; [exact A|]. split; [left; reflexivity|]. split.
      + intros f Hf. rewrite B in Hf. left. exact Hf.
      + rewrite B, D. cbn [lenN]. repeat split; lia.
    - exists [FAT_SECTOR; END_OF_CHAIN]. split; [exact A|]. split; [right; reflexivity|]. split.
      + intros f Hf. rewrite B in Hf. apply in_app_or in Hf.
        destruct Hf as [Hf|[<-|[]]]; [left; exact Hf|right; split; reflexivity].
      + rewrite B, D, lenN_app. cbn [lenN]. repeat split; lia. }
  destruct Hfa as (X & EfX & HX & HdX & HdlX & HnX & Hnwge).
  assert (HlX : lenN X <= 2) by (destruct HX as [-> | ->]; cbn [lenN]; lia).
  pose proof Hinva as [[Cia Cfulla Ccoha Cnda Clta] Clena Cposa Ctighta].
  assert (Hnwreg : nw <= MAX_REGULAR_SECTOR) by lia.
  (* the link *)
  destruct (G_set_fat sa lst nw s2 tt HGa Hs) as (HG2 & F2 & N2 & D2 & R2 & Hh2 & O2 & _).
  assert (Hlast_a : lst < lenN (fat sa)) by (rewrite EfX, lenN_app; lia).
  assert (F2' : fat s2 = updN (fat sa) lst nw).
  { rewrite F2. unfold ReuseProofs.fat_set. destruct (N.eqb_spec lst (lenN (fat sa))); [lia|reflexivity]. }
  destruct (rest_fields _ _ R2) as (Rv2 & Rdirs2 & Rds2 & Rmf2 & Rms2 & Rmfr2 & Rdi2 & Rfr2).
  destruct (CoherenceProofs.set_fat_existing_coherent sa lst nw Ccoha Cnda ltac:(lia) Hlast_a)
    as (f0 & Hd0 & Hf0 & Hl0 & Eset & Hcoh2 & Efat2).
  rewrite Eset in Hs. injection Hs as Es2.
  assert (Hinv2 : CoherenceProofs.FatInv s2).
  { rewrite <- Es2.
    pose proof (ReuseProofs.set_fat_state_fields sa lst nw f0)
      as (Ev & En & _ & Ed & Ef & _ & _ & _ & _ & _ & Efps & _).
    constructor.
    - apply CoherenceProofs.set_fat_state_core; [apply Hinva|lia|lia|exact Hd0].
    - rewrite Efat2, lenN_updN, En. exact Clena.
    - rewrite En. exact Cposa.
    - rewrite Ed, Efat2, lenN_updN, Efps. exact Ctighta. }
  (* the chains of s2 *)
  assert (Hext : DirCoherence.chain_extended s s2 dids nw).
  { apply (DirCoherence.extend_chain_dir_extended s dids s2 nw); try assumption.
    - intros x Hx. split; [apply Hdids_nf; exact Hx|]. rewrite Bi, Bfr. split; intros [].
    - intros x Hx. rewrite Bfr in Hx. destruct Hx.
    - intros f Hf. rewrite Clen. apply Clt. exact Hf.
    - intros j Hj. destruct (CoherenceProofs.coherent_backed s Ccoh j Hj) as (f & Hf & _).
      eapply nthN_Some_lt. exact Hf. }
  destruct Hext as (_ & _ & Eds2 & Hids2 & Hgd2 & _ & _).
  assert (Hlast_nm : ~ In lst mids) by (apply (Bdj dids mids Hids Hmids); exact HlastIn).
  assert (Hmids2 : chain_ids_of (fat s2) (minifat_start s2) = Ok mids).
  { rewrite F2', Rms2, Rms. pose proof (P8 _ _ Hmids) as Hm1.
    apply WalkProofs.chain_ids_path in Hm1.
    apply WalkProofs.chain_ids_of_path; [|eapply ReuseProofs.path_nodup; exact Hm1].
    apply ReuseProofs.path_updN; assumption. }
  (* sectors of the MiniFAT chain *)
  pose proof Hgm as (Hndm & HFm & _ & _). rewrite Forall_forall in HFm.
  assert (Hsec2 : forall x, In x mids -> sector_bytes s2 x = sector_bytes s x).
  { intros x Hx. destruct (HFm x Hx) as [Hxn _]. rewrite O2.
    - apply Oa; [exact Hxn|apply Hmids_nf; exact Hx].
    - intro Hin. destruct (HdX _ Hin) as [Hin'|[E _]]; [exact (Hmids_nf x Hx Hin')|lia]. }
  (* the header *)
  assert (Hhd2 : slen s2 <= lenN (hd [] (img s2))).
  { unfold slen. rewrite Rv2, Rv, Hh2. unfold byte in *. rewrite P7, Uh. unfold slen. lia. }
  destruct (G_update_num_dir s2 s3 tt HG2 Hhd2 H3) as (HG3 & F3 & N3 & D3 & R3 & O3 & Hh3).
  destruct (rest_fields _ _ R3) as (Rv3 & Rdirs3 & Rds3 & Rmf3 & Rms3 & Rmfr3 & Rdi3 & Rfr3).
  assert (Hhdr3 : HeaderCoherent s3).
  { apply (update_num_dir_sectors_header s2 s3 (h_num_dir (header_of sa)) (dids ++ [nw])).
    - unfold HdrBytes. rewrite Hh2. unfold HeaderCoherent in P1. rewrite P1. f_equal.
      unfold h_set_num_dir, header_of. hdr_fields.
      rewrite Rv2, D2, Rds2, Rms2, Rdi2.
      rewrite (chain_count_eq (fat sa) (fat s2) (minifat_start sa) mids);
        [reflexivity| |rewrite <- Rms2; exact Hmids2].
      rewrite Rms. apply P8. exact Hmids.
    - intro Hv3. unfold header_of. hdr_fields. rewrite <- Rv2, Hv3. reflexivity.
    - destruct HG2 as (Gi2 & _). intro E. rewrite E in Gi2. cbn [lenN] in Gi2. lia.
    - unfold HEADER_LEN. destruct (ReuseProofs.slen_cases s2) as [E|E]; rewrite E in Hhd2; blia.
    - exact Hids2.
    - rewrite Eds2. exact Hstart.
    - exact H3. }
  assert (Hinv3 : CoherenceProofs.FatInv s3).
  { apply (FatInv_frame s2 s3 Hinv2 HG3 F3 D3 N3 Rv3). intros f _. apply O3. }
  assert (Hver3 : ver s3 = ver s) by congruence.
  assert (Hsl3 : slen s3 = slen s) by (unfold slen; rewrite Hver3; reflexivity).
  assert (Hns3 : nsect s3 = nsect s + lenN X) by congruence.
  assert (Hfat3 : fat s3 = updN (fat s ++ X) lst nw) by congruence.
  assert (Hdif3 : difat s3 = difat sa) by congruence.
  assert (Hmids3 : chain_ids_of (fat s3) (minifat_start s3) = Ok mids) by (rewrite F3, Rms3; exact Hmids2).
  assert (Hsec3 : forall x, In x mids -> sector_bytes s3 x = sector_bytes s x).
  { intros x Hx. rewrite O3. apply Hsec2. exact Hx. }
  assert (Hgm3 : good_chain s3 mids).
  { pose proof HG3 as (Gi3 & Gf3 & _).
    split; [exact Hndm|]. split; [|split; [exact Gi3|apply slen_pos]].
    rewrite Forall_forall. intros x Hx. destruct (HFm x Hx) as [Hxn _].
    split; [lia|]. apply Gf3. lia. }
  assert (Hcont3 : chain_content s3 mids = chain_content s mids)
    by (apply chain_content_same; exact Hsec3).
  split; [|split; [rewrite R3, R2; exact Ra|split; [lia|rewrite Hdif3; lia]]].
  constructor.
  - exact Hhdr3.
  - exact Hinv3.
  - intros d Hd. rewrite Rdi3, Rdi2, Rdi, Bi in Hd. destruct Hd.
  - congruence.
  - rewrite Hdif3. lia.
  - lia.
  - rewrite Hsl3. pose proof HG3 as (Gi3 & Gf3 & _). apply uniform_of_parts; [exact Gi3| |].
    + unfold byte in *. rewrite Hh3, Hh2, P7. exact Uh.
    + intros x Hx. rewrite <- Hsl3. apply Gf3. exact Hx.
  - apply HG3.
  - intros f Hf. rewrite Hdif3 in Hf. rewrite Hfat3.
    assert (Hfnl : f <> lst).
    { intros ->. destruct (HdX _ Hf) as [Hin|[E _]]; [exact (Hdids_nf _ HlastIn Hin)|lia]. }
    rewrite nthN_updN_other by congruence.
    destruct (HdX _ Hf) as [Hin|[E EX]].
    + rewrite nthN_app_l by (rewrite Clen; apply Clt; exact Hin). apply Bm. exact Hin.
    + subst f. rewrite EX, ReuseProofs.nthN_app_r by lia. rewrite Clen, N.sub_diag. reflexivity.
  - rewrite Hfat3. apply pointees_extend; try assumption; [lia|].
    rewrite lenN_app. lia.
  - exists mids. split; [exact Hmids3|]. split; [exact Hgm3|].
    rewrite Rmf3, Rmf2, Rmf, Hsl3, Hcont3. split; assumption.
  - intros mids' Hm' i Hi Hfit. unfold DirCoherence.minifat_ids in Hm'. rewrite Hmids3 in Hm'.
    injection Hm' as <-. rewrite Rmf3, Rmf2, Rmf in Hi. rewrite Hsl3 in Hfit. rewrite Hcont3.
    exact (Bmt mids Hmids i Hi Hfit).
  - rewrite Rmf3, Rmf2, Rmf. exact Bml.
  - rewrite Rmf3, Rmf2, Rmf. exact Bmv.
  - congruence.
  - intros d m Hd Hm x Hx Hxm. unfold DirCoherence.dir_ids, DirCoherence.minifat_ids in Hd, Hm.
    rewrite Hmids3 in Hm. injection Hm as <-.
    rewrite F3, Rds3 in Hd. rewrite Hids2 in Hd. injection Hd as <-.
    apply in_app_or in Hx. destruct Hx as [Hx|[<-|[]]].
    + exact (Bdj dids mids Hids Hmids x Hx Hxm).
    + destruct (HFm _ Hxm) as [Hlt _]. lia.
Qed.


(* ================================================================== *)
(* 11. allocate_dir_entry keeps [Base]                                 *)
(* ================================================================== *)

Lemma Base_w_dirs : forall s d, Base s -> Base (w_dirs s d).
Proof.
  intros s d [Bh Bf Bd Bi Bn Bs Bu Bt Bm Bv Bmi Bmt Bml Bmv Bfr Bdj].
  destruct Bf as [[Ci Cf Cc Cn Cl] Clen Cpos Ct].
  constructor; try assumption.
  constructor; [constructor|..]; assumption.
Qed.

Definition Regime (s : cstate) : Prop :=
  lenN (difat s) < NUM_DIFAT_HDR /\ nsect s + 3 <= MAX_REGULAR_SECTOR /\
  lenN (dirs s) < MAX_REGULAR_STREAM_ID.

Lemma alloc_dir_base : forall s s1 id,
  Base s -> DirCoherence.DirCoherent s ->
  lenN (difat s) < NUM_DIFAT_HDR -> nsect s + 3 <= MAX_REGULAR_SECTOR ->
  allocate_dir_entry s = (s1, Ok id) ->
  Base s1 /\ ver s1 = ver s /\ minifat s1 = minifat s /\ (exists dids', DH dids' s1) /\
  nsect s1 <= nsect s + 2 /\ lenN (difat s1) <= lenN (difat s) + 1.
Proof.
  intros s s1 id B Hdir Hreg Hsize H.
  (* the directory chain after the allocation *)
  assert (HDX : exists dids', DirCoherence.DirCohX [] s1 dids').
  { apply DirCoherence.DirCoherent_iff in Hdir. destruct Hdir as (dids & HC).
    apply (DirCoherence.allocate_dir_entry_ext_cohX s dids s1 id HC); [|exact H].
    intros s2 new He. pose proof HC as (Hids & Hgd & _).
    destruct (b_fat s B) as [[Ci Cfull Ccoh Cnd Clt] Clen Cpos Ctight].
    apply (DirCoherence.extend_chain_dir_extended s dids s2 new); try assumption.
    - intros x Hx. split; [exact (chain_not_marked s _ _ x (b_marks s B) Hids Hx)|].
      rewrite (b_ids s B), (b_free s B). split; intros [].
    - intros x Hx. rewrite (b_free s B) in Hx. destruct Hx.
    - intros f Hf. rewrite Clen. apply Clt. exact Hf.
    - intros j Hj. destruct (CoherenceProofs.coherent_backed s Ccoh j Hj) as (f & Hf & _).
      eapply nthN_Some_lt. exact Hf.
    - pose proof (DirCoherence.extend_chain_new_bound s _ _ _ _ Ci Cfull He). lia. }
  assert (HB : Base s1 /\ ver s1 = ver s /\ minifat s1 = minifat s /\
               nsect s1 <= nsect s + 2 /\ lenN (difat s1) <= lenN (difat s) + 1).
  { unfold allocate_dir_entry in H.
    binv H s0 sx H1 H2. apply get_inv in H1. destruct H1 as [-> ->].
    destruct (first_unalloc (dirs s) 0) as [i|].
    { apply ret_inv in H2. destruct H2 as [-> _]. split; [exact B|]. repeat split; lia. }
    binv H2 u1 sm H1 H2.
    assert (HM : Base sm /\ rest sm = rest s /\ nsect sm <= nsect s + 2 /\
                 lenN (difat sm) <= lenN (difat s) + 1).
    { destruct (lenN (dirs s) mod dir_per_sector (ver s) =? 0).
      - destruct u1. apply dir_extension_base; assumption.
      - apply ret_inv in H1. destruct H1 as [-> _]. split; [exact B|]. split; [reflexivity|lia]. }
    destruct HM as (BM & RM & GM1 & GM2). destruct (rest_fields _ _ RM) as (Rv & _ & _ & Rmf & _).
    binv H2 s0 sy H2 H3. apply get_inv in H2. destruct H2 as [-> ->].
    binv H3 u2 sz H3 H4. unfold put in H3. injection H3 as <-.
    apply ret_inv in H4. destruct H4 as [-> _].
    split; [apply Base_w_dirs; exact BM|]. repeat split; assumption. }
  destruct HB as (B1 & Ev & Em & Gr1 & Gr2). split; [exact B1|]. split; [exact Ev|]. split; [exact Em|].
  split; [|split; assumption].
  destruct HDX as (dids' & H1 & H2 & H3 & _). exists dids'.
  split; [exact H1|]. split; [exact H2|]. split; [unfold DIR_ENTRY_LEN in H3; exact H3|apply B1].
Qed.

(* ================================================================== *)
(* 12. the table after an insertion                                    *)
(* ================================================================== *)

Lemma insert_descend_prev : forall f ds nm sib prev0 ord0 prev ord,
  insert_descend f ds nm sib prev0 ord0 = Ok (prev, ord) ->
  (forall e, In e ds -> d_left e <> ROOT_STREAM_ID /\ d_right e <> ROOT_STREAM_ID) ->
  sib <> ROOT_STREAM_ID ->
  (prev = prev0 /\ ord = ord0) \/ prev <> ROOT_STREAM_ID.
Proof.
  induction f as [|f IH]; intros ds nm sib prev0 ord0 prev ord H Hn Hs; cbn [insert_descend] in H;
    [discriminate H|].
  destruct (sib =? NO_STREAM); [injection H as <- <-; left; split; reflexivity|].
  unfold dir_entry_of in H. destruct (nthN ds sib) as [e|] eqn:He; [|discriminate H]. cbn [rbind] in H.
  destruct (Hn e (nthN_In _ _ _ _ He)) as [Nl Nr].
  destruct (cmp_names nm (d_name e)); [discriminate H| |].
  - destruct (IH _ _ _ _ _ _ _ H Hn Nl) as [[-> _]|Hp]; right; assumption.
  - destruct (IH _ _ _ _ _ _ _ H Hn Nr) as [[-> _]|Hp]; right; assumption.
Qed.

Lemma TOK_alloc : forall v L ds ds0 id, TOK v L ds -> (ds0, id) = alloc_tbl ds -> TOK v L ds0.
Proof.
  intros v L ds ds0 id [H1 H2] Ha. unfold alloc_tbl in Ha. destruct (first_unalloc ds 0).
  - injection Ha as -> _. split; assumption.
  - injection Ha as -> _. split.
    + apply Forall_app. split; [exact H1|]. constructor; [apply ent_ok_unalloc|constructor].
    + destruct H2 as (root & Hr & R). exists root. split; [|exact R].
      rewrite nthN_app_l by (eapply nthN_Some_lt; exact Hr). exact Hr.
Qed.

Lemma insert_tbl_ok : forall v L ds ds0 id new parent p nm prev ord,
  TOK v L ds -> (ds0, id) = alloc_tbl ds -> nthN ds0 id <> None ->
  id <> ROOT_STREAM_ID -> link_good id -> ent_ok v new ->
  nthN (updN ds0 id new) parent = Some p -> d_type p <> TStream ->
  insert_descend (S (length (updN ds0 id new))) (updN ds0 id new) nm (d_child p) parent Eq
    = Ok (prev, ord) ->
  TOK v L (tbl_link (updN ds0 id new) parent prev ord id).
Proof.
  intros v L ds ds0 id new parent p nm prev ord HT Ha Hid Hid0 Gid Hnew Hp Hpt Hd.
  pose proof (TOK_alloc _ _ _ _ _ HT Ha) as [E0 R0].
  assert (HT1 : TOK v L (updN ds0 id new)).
  { split; [apply Forall_updN; assumption|apply RootT_updN; assumption]. }
  set (ds1 := updN ds0 id new) in *.
  destruct HT1 as [E1 R1].
  assert (Hp_ok : ent_ok v p) by (rewrite Forall_forall in E1; apply E1; eapply nthN_In; exact Hp).
  assert (Hnl : forall e, In e ds1 -> d_left e <> ROOT_STREAM_ID /\ d_right e <> ROOT_STREAM_ID).
  { intros e He. rewrite Forall_forall in E1. destruct (E1 e He) as (_ & _ & (A & B & _)). auto. }
  assert (Hc0 : d_child p <> ROOT_STREAM_ID) by (destruct Hp_ok as (_ & _ & (_ & _ & C)); exact C).
  unfold tbl_link. destruct ord.
  - (* first child *)
    apply DirCoherence.insert_descend_eq in Hd. destruct Hd as [-> _]. rewrite Hp.
    assert (Em : updN ds1 parent (set_child p id) = modN ds1 parent (fun e => set_child e id))
      by (unfold modN; rewrite Hp; reflexivity).
    rewrite Em. split.
    + apply Forall_modN_at; [exact E1|]. intros e He Hok. assert (e = p) by congruence. subst e.
      apply ent_ok_set_child; [exact Hok|apply Gid|apply Gid|exact Hpt].
    + apply RootT_modN; [exact R1|right; apply keeps_root_set_child].
  - destruct (insert_descend_prev _ _ _ _ _ _ _ _ Hd Hnl Hc0) as [[_ E]|Hp0]; [discriminate E|].
    apply TOK_modN; [split; assumption| |left; exact Hp0].
    intros e He. apply ent_ok_set_left; [exact He|apply Gid|apply Gid].
  - destruct (insert_descend_prev _ _ _ _ _ _ _ _ Hd Hnl Hc0) as [[_ E]|Hp0]; [discriminate E|].
    apply TOK_modN; [split; assumption| |left; exact Hp0].
    intros e He. apply ent_ok_set_right; [exact He|apply Gid|apply Gid].
Qed.

(* ---- names taken from a path of scalar values are scalar ---- *)
Section Scalars.
Variable P : N -> Prop.

Lemma split_slash_all : forall p cur, Forall P p -> Forall P cur ->
  Forall (Forall P) (split_slash p cur).
Proof.
  induction p as [|c t IH]; intros cur Hp Hc; cbn [split_slash].
  - constructor; [apply Forall_rev; exact Hc|constructor].
  - inversion Hp; subst. destruct (c =? SLASH).
    + constructor; [apply Forall_rev; exact Hc|apply IH; [assumption|constructor]].
    + apply IH; [assumption|constructor; assumption].
Qed.

Definition comp_ok (c : comp) : Prop := match c with CNormal n => Forall P n | _ => True end.

Lemma components_all : forall p, Forall P p -> Forall comp_ok (components p).
Proof.
  intros p Hp. unfold components. destruct p as [|c0 t]; [constructor|].
  pose proof (split_slash_all (c0 :: t) [] Hp (Forall_nil _)) as Hs.
  set (pieces := split_slash (c0 :: t) []) in *.
  assert (Hb : Forall comp_ok
            (flat_map (fun s => match s with
                                | [] => []
                                | _ => if is_dot s then [] else if is_dotdot s then [CParent] else [CNormal s]
                                end) pieces)).
  { clear -Hs. induction Hs as [|s l Hs _ IH]; [constructor|]. cbn [flat_map].
    apply Forall_app. split; [|exact IH].
    destruct s as [|a s']; [constructor|].
    destruct (is_dot (a :: s')); [constructor|].
    destruct (is_dotdot (a :: s'));
      [constructor; [exact I|constructor]|constructor; [exact Hs|constructor]]. }
  cbv zeta. destruct (c0 =? SLASH); [constructor; [exact I|exact Hb]|].
  destruct pieces as [|s l]; [exact Hb|].
  destruct (is_dot s); [constructor; [exact I|exact Hb]|exact Hb].
Qed.

Lemma Forall_removelast : forall A (Q : A -> Prop) l, Forall Q l -> Forall Q (removelast l).
Proof.
  intros A Q l H. induction H as [|x l Hx Hl IH]; [constructor|].
  cbn [removelast]. destruct l; [constructor|constructor; assumption].
Qed.

Lemma name_chain_go_all : forall cs names r, Forall comp_ok cs -> Forall (Forall P) names ->
  name_chain_go cs names = Ok r -> Forall (Forall P) r.
Proof.
  induction cs as [|c t IH]; intros names r Hc Hn H; cbn [name_chain_go] in H.
  - injection H as <-. exact Hn.
  - inversion Hc as [|? ? Hc1 Hc2]; subst. destruct c.
    + eapply IH; [exact Hc2|constructor|exact H].
    + eapply IH; eassumption.
    + destruct names as [|n0 nt]; [discriminate H|].
      eapply IH; [exact Hc2| |exact H]. apply Forall_removelast. exact Hn.
    + eapply IH; [exact Hc2| |exact H]. apply Forall_app. split; [exact Hn|].
      constructor; [exact Hc1|constructor].
Qed.

Lemma names_of_path_all : forall p names, Forall P p ->
  name_chain_from_path p = Ok names -> Forall (Forall P) names.
Proof.
  intros p names Hp H. unfold name_chain_from_path in H.
  eapply name_chain_go_all; [apply components_all; exact Hp|constructor|exact H].
Qed.
End Scalars.

Lemma lastN_Forall : forall A (Q : A -> Prop) l x, Forall Q l -> lastN l = Some x -> Q x.
Proof.
  intros A Q l x H Hl. rewrite Forall_forall in H. apply H. eapply CoherenceProofs.lastN_In. exact Hl.
Qed.

Lemma tree_root_type : forall ds, TreeInv ds ->
  exists e, nthN ds ROOT_STREAM_ID = Some e /\ d_type e = TRoot.
Proof.
  intros ds (t & HT & HU).
  destruct (MutRefine.tree_NRU ds ctrue t HT HU) as (U & HN & _).
  pose proof HN as [HNR _].
  destruct (QueryRefine.NodeRep_root_dir _ _ _ _ _ HNR) as (m & ks & ->).
  apply MutRefine.NRU_dir in HN. destruct HN as (_ & e & He & _ & Ht & _). eauto.
Qed.

(* ================================================================== *)
(* 13. insertion of a new entry (create_storage, create_stream)        *)
(* ================================================================== *)

Definition Grow (s s' : cstate) : Prop :=
  nsect s' <= nsect s + 2 /\ lenN (difat s') <= lenN (difat s) + 1 /\
  lenN (dirs s') <= lenN (dirs s) + 1.

Lemma insert_entry_pinv : forall s s' pid pe nm ty now id u,
  PInv s -> Regime s ->
  nthN (dirs s) pid = Some pe -> d_type pe <> TStream -> d_type pe <> TUnalloc ->
  Forall CodecProofs.scalar nm -> validate_name nm = Ok u -> ty <> TRoot -> ty <> TUnalloc ->
  now <= u64_max ->
  insert_dir_entry pid nm ty now s = (s', Ok id) ->
  TreeInv (dirs s') -> PInv s' /\ Grow s s'.
Proof.
  intros s s' pid pe nm ty now id u [B Hdir Hents Hroot Htree] (Hreg & Hsize & Hdlen)
         Hpe Hpet Hpeu Hsc Hval Hty Hty' Hnow H Htree'.
  pose proof H as H0. rewrite insert_dir_entry_split in H. binv H id0 s1 Ha Hr.
  destruct (alloc_dir_base s s1 id0 B Hdir Hreg Hsize Ha) as (B1 & Ev1 & Em1 & (dids' & HD1) & Gr1 & Gr2).
  destruct (dstep_insert_rest dids' pid nm ty now id0 s1 s' id HD1 Hr) as [HD' F].
  pose proof F as (F1 & F2 & _ & F4 & _ & _ & _ & F8 & _).
  (* the table *)
  destruct (insert_proj _ _ _ _ _ _ _ H0) as (ds0 & p & prev & ord & Hal & Hid0 & Hrest).
  cbv zeta in Hrest. destruct Hrest as (Hp1 & Hd & Hds).
  destruct (RootT_of_OK s Hroot) as (L & HRT & HL).
  destruct (tree_root_type _ Htree) as (re & Hre & Hret).
  set (new := dirent_new nm ty (if objtype_eqb ty TStorage then now else 0)) in *.
  assert (Hidlt : id < lenN ds0).
  { destruct (nthN ds0 id) eqn:E; [eapply nthN_Some_lt; eauto|congruence]. }
  assert (Hl0 : lenN ds0 <= lenN (dirs s) + 1).
  { unfold alloc_tbl in Hal. destruct (first_unalloc (dirs s) 0); injection Hal as -> _;
      [lia|rewrite lenN_app; cbn [lenN]; lia]. }
  assert (Hidr : id <> ROOT_STREAM_ID).
  { destruct (alloc_fresh _ _ _ Hal) as [(e & He & Te)|E].
    - intros ->. assert (e = re) by congruence. subst e. congruence.
    - rewrite E. apply nthN_Some_lt in Hre. unfold ROOT_STREAM_ID in *. lia. }
  assert (Gid : link_good id).
  { split; [right|exact Hidr]. unfold MAX_REGULAR_STREAM_ID in *. lia. }
  assert (Hnew : ent_ok (ver s) new).
  { split; [|split].
    - unfold new. eapply CodecProofs.dirent_wf_inserted; eassumption.
    - intros _. reflexivity.
    - unfold new, dirent_new. repeat split; cbn; discriminate. }
  assert (Hp_pe : p = pe).
  { assert (pid <> id).
    { intros ->. destruct (alloc_fresh _ _ _ Hal) as [(e & He & Te)|E].
      - assert (e = pe) by congruence. subst e. contradiction.
      - apply nthN_Some_lt in Hpe. lia. }
    rewrite nthN_updN_other in Hp1 by congruence.
    rewrite (alloc_old _ _ _ Hal) in Hp1 by (eapply nthN_Some_lt; exact Hpe). congruence. }
  subst p.
  assert (HT' : TOK (ver s) L (dirs s')).
  { rewrite Hds. apply (insert_tbl_ok _ _ (dirs s) ds0 id new pid pe nm); try assumption.
    split; assumption. }
  split.
  2:{ split; [rewrite F2; exact Gr1|]. split; [rewrite F4; exact Gr2|].
      rewrite Hds. unfold tbl_link.
      assert (lenN (updN ds0 id new) <= lenN (dirs s) + 1) by (rewrite lenN_updN; exact Hl0).
      destruct ord; rewrite ?lenN_modN; try assumption.
      destruct (nthN (updN ds0 id new) prev); [rewrite lenN_updN|]; assumption. }
  constructor.
  - eapply base_dframe; [exact B1|apply HD1|exact F].
  - destruct (b_fat s B) as [Hcore Hlen Hpos Htight] eqn:Ef.
    eapply (DirCoherence.insert_dir_entry_coherent_fatinv s s' pid nm ty now id Hdir (b_fat s B)).
    + intros x Hx. rewrite (b_free s B) in Hx. destruct Hx.
    + intros dids x Hids Hx. split; [exact (chain_not_marked s _ _ x (b_marks s B) Hids Hx)|].
      rewrite (b_ids s B), (b_free s B). split; intros [].
    + rewrite Hlen. lia.
    + exact H0.
  - rewrite F1, Ev1. apply HT'.
  - eapply (RootOK_of_T s s' L); [exact Hroot|exact HL|apply HT'|]. rewrite F8. exact Em1.
  - exact Htree'.
Qed.

Lemma lookup_typed : forall ds names id e, TreeInv ds ->
  lookup_chain ds names ROOT_STREAM_ID = Ok (Some id) -> nthN ds id = Some e ->
  d_type e <> TUnalloc.
Proof.
  intros ds names id e (t & HT & _) Hl He.
  pose proof (MutRefine.lookup_get ds ctrue t names (Some id) HT Hl) as Hg.
  destruct (Tree.get t names) as [n|]; [|contradiction]. destruct Hg as (nm & HN).
  apply QueryRefine.NodeRep_entry in HN. destruct HN as (_ & e' & He' & _ & Ht).
  assert (e' = e) by congruence. subst e'. rewrite Ht.
  destruct n; [discriminate|destruct (QueryRefine.is_nil names); discriminate].
Qed.

Theorem create_storage_preserves : forall p now s s',
  PInv s -> Regime s -> Forall CodecProofs.scalar p -> now <= u64_max ->
  api_create_storage p now s = (s', Ok tt) -> PInv s' /\ Grow s s'.
Proof.
  intros p now s s' HP HR Hsc Hnow H. pose proof HP as [_ _ _ _ (t & HT & HU)].
  pose proof HR as (_ & _ & Hdl).
  destruct (MutRefine.create_storage_refines ctrue ctrue p now s s' t HT HU
              ltac:(unfold MAX_REGULAR_STREAM_ID, NO_STREAM in *; lia) (fun _ _ c => c) H)
    as (t' & _ & HT' & HU').
  unfold api_create_storage, create_storage_names in H.
  destruct (MutRefine.names_lookup_inv _ _ _ _ _ _ H) as (names & r & En & Hlk & HK).
  destruct r as [id0|].
  { binv HK e0 s1 H1 H2. discriminate H2. }
  destruct (lastN names) as [nm|] eqn:Hlast; [|discriminate HK].
  binv HK u1 s1 H1 H2. apply lift_inv in H1. destruct H1 as [-> Hv].
  destruct (MutRefine.lookup_inv _ _ _ _ _ _ H2) as (pr & Hlkp & H3). clear H2.
  destruct pr as [pid|]; [|discriminate H3].
  binv H3 pe s1 H1 H2. apply dir_entry_inv in H1. destruct H1 as [-> Hpe].
  destruct (objtype_eqb (d_type pe) TStream) eqn:Ty; [discriminate H2|].
  binv H2 nid s1 H1 H2. apply ret_inv in H2. destruct H2 as [<- _].
  apply (insert_entry_pinv s s' pid pe nm TStorage now nid u1 HP HR Hpe); try assumption.
  - apply objtype_eqb_false. exact Ty.
  - eapply lookup_typed; [apply HP|exact Hlkp|exact Hpe].
  - eapply lastN_Forall; [eapply names_of_path_all; eassumption|exact Hlast].
  - discriminate.
  - discriminate.
  - exists t'. split; assumption.
Qed.


(* ================================================================== *)
(* 14. the empty file                                                  *)
(* ================================================================== *)

Lemma Base_of_Coherent : forall s, Coherent s -> free s = [] -> DirMiniDisj s -> Base s.
Proof.
  intros s [H1 H2 H3 H4 H5 H6 H7 H8 H9 H10 H11 H12 H13 H14 H15 H16 H17 H18] Hf Hd.
  constructor; assumption.
Qed.

Theorem create_state_pinv : forall v, PInv (create_state v).
Proof.
  intros v. pose proof (Examples.create_state_coherent v) as HC.
  constructor.
  - apply Base_of_Coherent; [exact HC|reflexivity|].
    intros dids mids _ Hm x _ Hx. unfold DirCoherence.minifat_ids in Hm.
    cbn [create_state fat minifat_start] in Hm. unfold chain_ids_of in Hm. cbn [chain_ids_go] in Hm.
    rewrite N.eqb_refl in Hm. injection Hm as <-. destruct Hx.
  - apply HC.
  - cbn [create_state dirs ver]. constructor; [|constructor].
    split; [apply (ch_dir_wf _ HC); left; reflexivity|]. split.
    + intros _. reflexivity.
    + repeat split; discriminate.
  - exists dirent_empty_root. cbn [create_state dirs minifat].
    split; [reflexivity|]. split; [reflexivity|]. split; [reflexivity|]. split; [reflexivity|].
    vm_compute. discriminate.
  - exists (Tree.Dir (QueryRefine.meta_of dirent_empty_root) []). cbn [create_state dirs]. split.
    + unfold QueryRefine.TreeRep. apply QueryRefine.NodeRep_dir.
      split; [reflexivity|]. exists dirent_empty_root. repeat split.
      exists BL. repeat split; constructor.
    + exists [ROOT_STREAM_ID]. split; [|constructor; [intros []|constructor]].
      apply MutRefine.AllIds_dir. exists dirent_empty_root, BL. repeat split.
      exists []. split; [constructor|reflexivity].
Qed.

(* ================================================================== *)
(* 15. metadata updates: the refused outcome leaves the state alone    *)
(* ================================================================== *)

Lemma ent_name_len : forall v e, ent_ok v e -> lenN (utf16 (d_name e)) <= 31.
Proof.
  intros v e (W & _). destruct W as [_ Wn _ _ _ _ _ _ _ _ _ _ _].
  destruct (objtype_eqb (d_type e) TRoot).
  - rewrite Wn. vm_compute. discriminate.
  - destruct Wn as (u & Hu). unfold validate_name in Hu.
    destruct (MAX_NAME_LEN <? lenN (utf16 (d_name e))) eqn:E; [discriminate Hu|].
    rewrite NamesProofs.MAX_NAME_LEN_is_31 in E. lia.
Qed.

Lemma wdem_total : forall dids s id f e,
  DH dids s -> nthN (dirs s) id = Some e -> lenN (utf16 (d_name (f e))) <= 31 ->
  exists s', with_dir_entry_mut id f s = (s', Ok tt).
Proof.
  intros dids s id f e HD He Hn.
  cut (exists s', with_dir_entry_mut_inner id f s = (s', Ok tt)).
  { intros [s' E]. exists s'. apply DirProofs.with_dir_entry_mut_ok. exact E. }
  unfold with_dir_entry_mut_inner.
  pose proof (nthN_Some_lt _ _ _ _ He) as Hlt.
  assert (E1 : dir_entry id s = (s, Ok e)) by (unfold dir_entry, bind, get, ret; rewrite He; reflexivity).
  assert (E2 : set_dir_entry id (f e) s = (w_dirs s (updN (dirs s) id (f e)), Ok tt))
    by (unfold set_dir_entry, bind, get, put; rewrite He; reflexivity).
  destruct (dstep_set_dir_entry dids id (f e) s _ tt HD E2) as [(Hids & Hg & Hcap & _) _].
  set (s1 := w_dirs s (updN (dirs s) id (f e))) in *.
  destruct (DirCoherence.write_dir_entry_spec s1 dids id (f e) Hids Hg) as (s' & Hw & _).
  - cbn [s1 dirs w_dirs] in Hcap. rewrite lenN_updN in Hcap. change (slen s1) with (slen s) in *. lia.
  - cbn [s1 dirs w_dirs]. apply nthN_updN_same. exact Hlt.
  - exact Hn.
  - exists s'. unfold bind. rewrite E1, E2. exact Hw.
Qed.

Lemma set_entry_err : forall p f s s' k,
  PInv s -> (forall e, d_name (f e) = d_name e) ->
  set_entry_with_path p f s = (s', Err k) -> s' = s.
Proof.
  intros p f s s' k [B Hdir Hents _ _] Hf H. unfold set_entry_with_path, names_of in H.
  unfold bind at 1 in H. unfold lift at 1 in H.
  destruct (name_chain_from_path p) as [names| | |]; try (injection H as <- _; reflexivity).
  unfold bind at 1 in H. rewrite QueryRefine.q_lookup_run in H.
  destruct (lookup_chain (dirs s) names ROOT_STREAM_ID) as [r| | |]; try (injection H as <- _; reflexivity).
  destruct r as [id|]; [|injection H as <- _; reflexivity].
  destruct (nthN (dirs s) id) as [e|] eqn:He.
  - destruct (PInv_DH s B Hdir) as (dids & HD).
    destruct (wdem_total dids s id f e HD He) as (s2 & E).
    + rewrite Hf. rewrite Forall_nthN in Hents. eapply ent_name_len. eapply Hents. exact He.
    + rewrite E in H. discriminate H.
  - unfold with_dir_entry_mut, with_dir_entry_mut_inner in H. unfold bind at 1 in H.
    rewrite QueryRefine.q_dir_entry_run in H. unfold dir_entry_of in H. rewrite He in H. discriminate H.
Qed.

Theorem set_state_err : forall p bits s s' k,
  PInv s -> api_set_state p bits s = (s', Err k) -> s' = s.
Proof. intros p bits s s' k HP H. eapply set_entry_err; [exact HP| |exact H]. reflexivity. Qed.

Theorem set_modified_err : forall p before secs nanos s s' k,
  PInv s -> api_set_modified p before secs nanos s = (s', Err k) -> s' = s.
Proof.
  intros p b secs nanos s s' k HP H. eapply set_entry_err; [exact HP| |exact H].
  intros e. cbv beta. destruct (objtype_eqb (d_type e) TStream); reflexivity.
Qed.

Theorem set_created_err : forall p before secs nanos s s' k,
  PInv s -> api_set_created p before secs nanos s = (s', Err k) -> s' = s.
Proof.
  intros p b secs nanos s s' k HP H. eapply set_entry_err; [exact HP| |exact H].
  intros e. cbv beta. destruct (objtype_eqb (d_type e) TStream); reflexivity.
Qed.

Theorem set_clsid_err : forall p g s s' k,
  PInv s -> api_set_clsid p g s = (s', Err k) -> s' = s.
Proof.
  intros p g s s' k [B Hdir Hents _ _] H. unfold api_set_clsid, names_of in H.
  unfold bind at 1 in H. unfold lift at 1 in H.
  destruct (name_chain_from_path p) as [names| | |]; try (injection H as <- _; reflexivity).
  unfold bind at 1 in H. rewrite QueryRefine.q_lookup_run in H.
  destruct (lookup_chain (dirs s) names ROOT_STREAM_ID) as [r| | |]; try (injection H as <- _; reflexivity).
  destruct r as [id|]; [|injection H as <- _; reflexivity].
  unfold bind at 1 in H. rewrite QueryRefine.q_dir_entry_run in H. unfold dir_entry_of in H.
  destruct (nthN (dirs s) id) as [e|] eqn:He; [|discriminate H].
  destruct (objtype_eqb (d_type e) TStream); [injection H as <- _; reflexivity|].
  destruct (PInv_DH s B Hdir) as (dids & HD).
  destruct (wdem_total dids s id (fun e0 => set_clsid e0 g) e HD He) as (s2 & E).
  - cbn [set_clsid d_name]. rewrite Forall_nthN in Hents. eapply ent_name_len. eapply Hents. exact He.
  - rewrite E in H. discriminate H.
Qed.


(* ================================================================== *)
(* 16. streams without data                                            *)
(* ================================================================== *)

(* no stream owns a chain: what holds as long as nothing is written *)
Definition es_ok (e : dirent) : Prop :=
  d_type e = TStream -> d_start e = END_OF_CHAIN /\ d_len e = 0.
Definition EmptyStreams (s : cstate) : Prop := Forall es_ok (dirs s).

Definition tsl (e e' : dirent) : Prop :=
  d_type e' = d_type e /\ d_start e' = d_start e /\ d_len e' = d_len e.

Lemma es_ok_tsl : forall e e', tsl e e' -> es_ok e -> es_ok e'.
Proof.
  intros e e' (Ht & Hs & Hl) H Ht'. rewrite Ht in Ht'. rewrite Hs, Hl. exact (H Ht').
Qed.

Lemma es_ok_payload : forall e e', same_payload e e' -> es_ok e -> es_ok e'.
Proof.
  intros e e' (_ & Ht & Hs & Hl & _). apply es_ok_tsl. repeat split; assumption.
Qed.

Lemma es_ok_unalloc : es_ok dirent_unallocated.
Proof. intro H. discriminate H. Qed.

Lemma es_ok_new : forall nm ty ts, es_ok (dirent_new nm ty ts).
Proof.
  intros nm ty ts H. cbn [dirent_new d_type] in H. subst ty. cbn. split; reflexivity.
Qed.

Lemma EmptyStreams_modN : forall s s' id f,
  EmptyStreams s -> dirs s' = modN (dirs s) id f -> (forall e, tsl e (f e)) ->
  EmptyStreams s'.
Proof.
  intros s s' id f H Ed Hf. unfold EmptyStreams. rewrite Ed. apply Forall_modN; [exact H|].
  intros e He. eapply es_ok_tsl; [apply Hf|exact He].
Qed.

Lemma EmptyStreams_wdem : forall s s' id f,
  EmptyStreams s -> with_dir_entry_mut id f s = (s', Ok tt) -> (forall e, tsl e (f e)) ->
  EmptyStreams s'.
Proof.
  intros s s' id f H Hw Hf. destruct (MutRefine.wdem_inv _ _ _ _ _ Hw) as (e & _ & Ed).
  eapply EmptyStreams_modN; eassumption.
Qed.

Lemma EmptyStreams_remove : forall s s' parent nm u,
  EmptyStreams s -> remove_dir_entry parent nm s = (s', Ok u) -> EmptyStreams s'.
Proof.
  intros s s' parent nm u H Hr.
  destruct (remove_ids_stable_raw _ _ _ _ _ Hr) as (x & ex & _ & _ & _ & _ & Hx & Hlen & Hst).
  unfold EmptyStreams in *. apply Forall_nthN. intros k e' Hk.
  destruct (N.eq_dec k x) as [->|Hne].
  - assert (e' = dirent_unallocated) by congruence. subst e'. apply es_ok_unalloc.
  - pose proof (nthN_Some_lt _ _ _ _ Hk) as Hlt. rewrite Hlen in Hlt.
    destruct (WalkProofs.nthN_lt_Some (dirs s) k Hlt) as [e He].
    destruct (Hst k e Hne He) as (e'' & He'' & P & _).
    assert (e'' = e') by congruence. subst e''.
    eapply es_ok_payload; [exact P|]. rewrite Forall_nthN in H. eapply H. exact He.
Qed.

Lemma EmptyStreams_insert : forall s s' parent nm ty now id,
  EmptyStreams s -> insert_dir_entry parent nm ty now s = (s', Ok id) -> EmptyStreams s'.
Proof.
  intros s s' parent nm ty now id H Hi.
  destruct (insert_proj _ _ _ _ _ _ _ Hi) as (ds0 & p & prev & ord & Hal & Hid0 & Hrest).
  cbv zeta in Hrest. destruct Hrest as (Hp1 & Hd & Hds).
  set (new := dirent_new nm ty (if objtype_eqb ty TStorage then now else 0)) in *.
  assert (H0 : Forall es_ok ds0).
  { unfold alloc_tbl in Hal. destruct (first_unalloc (dirs s) 0); injection Hal as -> _; [exact H|].
    apply Forall_app. split; [exact H|]. constructor; [apply es_ok_unalloc|constructor]. }
  assert (H1 : Forall es_ok (updN ds0 id new)) by (apply Forall_updN; [exact H0|apply es_ok_new]).
  set (ds1 := updN ds0 id new) in *.
  assert (Hod : ord = Eq -> prev = parent).
  { intros ->. apply DirCoherence.insert_descend_eq in Hd. apply Hd. }
  assert (Hlen : lenN (dirs s') = lenN ds1).
  { rewrite Hds. unfold tbl_link. destruct ord; rewrite ?lenN_modN; try reflexivity.
    destruct (nthN ds1 prev); [apply lenN_updN|reflexivity]. }
  unfold EmptyStreams. apply Forall_nthN. intros k e' Hk.
  pose proof (nthN_Some_lt _ _ _ _ Hk) as Hlt. rewrite Hlen in Hlt.
  destruct (WalkProofs.nthN_lt_Some ds1 k Hlt) as [e He].
  destruct (tbl_link_stable ds1 parent prev ord id p k e Hp1 Hod He) as (e'' & He'' & P & _).
  rewrite <- Hds in He''. assert (e'' = e') by congruence. subst e''.
  eapply es_ok_payload; [exact P|]. rewrite Forall_nthN in H1. eapply H1. exact He.
Qed.

Lemma free_mini_chain_eoc : forall s, free_mini_chain END_OF_CHAIN s = (s, Ok tt).
Proof.
  intro s. unfold free_mini_chain. rewrite ReuseProofs.bind_get. cbn [free_mini_chain_go].
  rewrite N.eqb_refl. reflexivity.
Qed.

Theorem remove_stream_preserves : forall p s s',
  PInv s -> EmptyStreams s -> api_remove_stream p s = (s', Ok tt) ->
  PInv s' /\ EmptyStreams s' /\ exists dids, dframe dids s s'.
Proof.
  intros p s s' HP HE H. pose proof HP as [_ _ _ _ (t & HT & HU)].
  destruct (MutRefine.remove_stream_refines ctrue ctrue p 0 s s' t HT HU (fun _ _ _ c => c) H)
    as (t' & _ & HT' & HU').
  unfold api_remove_stream, remove_stream_names in H.
  destruct (MutRefine.names_lookup_inv _ _ _ _ _ _ H) as (names & r & En & Hlk & HK).
  destruct r as [id0|]; [|discriminate HK].
  binv HK e s1 H1 H2. apply dir_entry_inv in H1. destruct H1 as [-> He].
  destruct (objtype_eqb (d_type e) TStream) eqn:T1; cbn [negb] in H2; [|discriminate H2].
  destruct (d_child e =? NO_STREAM) eqn:Ch; cbn [negb] in H2; [|discriminate H2].
  apply objtype_eqb_true in T1.
  assert (Hes : d_start e = END_OF_CHAIN /\ d_len e = 0).
  { unfold EmptyStreams in HE. rewrite Forall_nthN in HE. exact (HE _ _ He T1). }
  destruct Hes as [Est Eln]. rewrite Eln, Est in H2.
  replace (0 <? MINI_STREAM_CUTOFF) with true in H2 by reflexivity.
  binv H2 u1 s1 H1 H2. rewrite free_mini_chain_eoc in H1. injection H1 as <- _.
  destruct (lastN names) as [nm|] eqn:Hlast; [|discriminate H2].
  destruct (MutRefine.lookup_inv _ _ _ _ _ _ H2) as (pr & Hlkp & H3). clear H2.
  destruct pr as [pid|]; [|discriminate H3].
  split; [|split].
  - apply (remove_entry_pinv s s' names id0 e nm pid HP Hlk He); try assumption.
    + rewrite T1. discriminate.
    + exists t'. split; assumption.
  - eapply EmptyStreams_remove; eassumption.
  - destruct HP as [B Hdir _ _ _]. destruct (PInv_DH _ B Hdir) as (dids & HD). exists dids.
    apply (dstep_remove_dir_entry dids pid nm _ _ tt HD H3).
Qed.

Lemma handle_new_state : forall id mb s s' h,
  handle_new' id mb s = (s', Ok h) -> s' = s.
Proof.
  intros id mb s s' h H. unfold handle_new', handle_new, stream_len_of in H.
  unfold bind at 1 in H. rewrite QueryRefine.q_dir_entry_run in H.
  destruct (dir_entry_of (dirs s) id) as [e| | |]; cbn in H; try discriminate H.
  injection H as <- _. reflexivity.
Qed.

Theorem create_new_stream_preserves : forall p maxbuf now s s' h,
  PInv s -> Regime s -> Forall CodecProofs.scalar p -> now <= u64_max ->
  api_create_stream p false maxbuf now s = (s', Ok h) ->
  PInv s' /\ Grow s s' /\ (EmptyStreams s -> EmptyStreams s').
Proof.
  intros p maxbuf now s s' h HP HR Hsc Hnow H. pose proof HP as [_ _ _ _ (t & HT & HU)].
  pose proof HR as (_ & _ & Hdl).
  pose proof H as H0.
  unfold api_create_stream in H.
  destruct (MutRefine.names_lookup_inv _ _ _ _ _ _ H) as (names & r & En & Hlk & HK).
  destruct r as [id0|].
  { binv HK e0 s1 H1 H2. destruct (negb (objtype_eqb (d_type e0) TStream)); discriminate H2. }
  destruct (MutRefine.create_stream_refines ctrue ctrue p false maxbuf now s s' t h HT HU
              ltac:(unfold MAX_REGULAR_STREAM_ID, NO_STREAM in *; lia)) as (t' & _ & HT' & HU' & _).
  { intros names' En'. assert (names' = names) by congruence. subst names'.
    pose proof (MutRefine.lookup_get _ _ _ _ _ HT Hlk) as Hg.
    destruct (Tree.get t names); [contradiction|reflexivity]. }
  { intros i bs _ c. exact c. }
  { exact I. }
  { exact H0. }
  destruct (lastN names) as [nm|] eqn:Hlast; [|discriminate HK].
  binv HK u1 s1 H1 H2. apply lift_inv in H1. destruct H1 as [-> Hv].
  destruct (MutRefine.lookup_inv _ _ _ _ _ _ H2) as (pr & Hlkp & H3). clear H2.
  destruct pr as [pid|]; [|discriminate H3].
  binv H3 pe s1 H1 H2. apply dir_entry_inv in H1. destruct H1 as [-> Hpe].
  destruct (objtype_eqb (d_type pe) TStream) eqn:Ty; [discriminate H2|].
  binv H2 nid s1 H1 H2. apply handle_new_state in H2. subst s1.
  destruct (insert_entry_pinv s s' pid pe nm TStream now nid u1 HP HR Hpe) as [HP' HG]; try assumption.
  - apply objtype_eqb_false. exact Ty.
  - eapply lookup_typed; [apply HP|exact Hlkp|exact Hpe].
  - eapply lastN_Forall; [eapply names_of_path_all; eassumption|exact Hlast].
  - discriminate.
  - discriminate.
  - exists t'. split; assumption.
  - split; [exact HP'|]. split; [exact HG|]. intro HE. eapply EmptyStreams_insert; eassumption.
Qed.


(* ================================================================== *)
(* 17. queries leave the state alone                                   *)
(* ================================================================== *)

Definition pure_m {A} (m : M A) : Prop := forall s, fst (m s) = s.

Lemma pure_bind : forall A B (m : M A) (f : A -> M B),
  pure_m m -> (forall a, pure_m (f a)) -> pure_m (bind m f).
Proof.
  intros A B m f Hm Hf s. unfold bind. specialize (Hm s). destruct (m s) as [s1 r].
  cbn [fst] in Hm. subst s1. destruct r; cbn [fst]; try reflexivity. apply Hf.
Qed.
Lemma pure_ret : forall A (a : A), pure_m (ret a). Proof. intros A a s. reflexivity. Qed.
Lemma pure_fail : forall A k, pure_m (@fail A k). Proof. intros A k s. reflexivity. Qed.
Lemma pure_panic : forall A n, pure_m (@panic A n). Proof. intros A n s. reflexivity. Qed.
Lemma pure_get : pure_m get. Proof. intros s. reflexivity. Qed.
Lemma pure_lift : forall A (r : res A), pure_m (lift r). Proof. intros A r s. reflexivity. Qed.

Ltac pm_step :=
  match goal with
  | |- pure_m (bind _ _) => apply pure_bind; [|intros]
  | |- pure_m (ret _) => apply pure_ret
  | |- pure_m (fail _) => apply pure_fail
  | |- pure_m (panic _) => apply pure_panic
  | |- pure_m get => apply pure_get
  | |- pure_m (lift _) => apply pure_lift
  | |- pure_m (match ?x with _ => _ end) => destruct x
  end.
Ltac pm := intros; repeat pm_step.

Lemma pure_dir_entry : forall id, pure_m (dir_entry id).
Proof. intros. unfold dir_entry. pm. Qed.
Lemma pure_lookup : forall names, pure_m (lookup names).
Proof. intros. unfold lookup. pm. Qed.
Lemma pure_names_of : forall p, pure_m (names_of p).
Proof. intros. unfold names_of. pm. Qed.

Lemma pure_lookup_path : forall p, pure_m (lookup_path p).
Proof.
  intros p s. unfold lookup_path. destruct (name_chain_from_path p) as [names| | |]; try reflexivity.
  rewrite QueryRefine.q_lookup_run.
  destruct (lookup_chain (dirs s) names ROOT_STREAM_ID) as [r| | |]; try reflexivity.
  destruct r as [id|]; [|reflexivity].
  rewrite QueryRefine.q_dir_entry_run. destruct (dir_entry_of (dirs s) id); reflexivity.
Qed.

Lemma pure_api_exists : forall p, pure_m (api_exists p).
Proof. intros. unfold api_exists. pm. apply pure_lookup_path. Qed.
Lemma pure_api_is_stream : forall p, pure_m (api_is_stream p).
Proof. intros. unfold api_is_stream. pm. apply pure_lookup_path. Qed.
Lemma pure_api_is_storage : forall p, pure_m (api_is_storage p).
Proof. intros. unfold api_is_storage. pm. apply pure_lookup_path. Qed.
Lemma pure_api_entry : forall p, pure_m (api_entry p).
Proof.
  intros. unfold api_entry. pm; try apply pure_names_of; try apply pure_lookup; apply pure_dir_entry.
Qed.
Lemma pure_api_root_entry : pure_m api_root_entry.
Proof. unfold api_root_entry. pm. apply pure_dir_entry. Qed.
Lemma pure_api_read_root : pure_m api_read_root.
Proof. unfold api_read_root. pm. apply pure_dir_entry. Qed.
Lemma pure_api_read_storage : forall p, pure_m (api_read_storage p).
Proof.
  intros. unfold api_read_storage.
  pm; try apply pure_names_of; try apply pure_lookup; try apply pure_dir_entry.
Qed.
Lemma pure_api_walk : pure_m api_walk.
Proof. unfold api_walk. pm. Qed.
Lemma pure_api_walk_storage : forall p, pure_m (api_walk_storage p).
Proof. intros. unfold api_walk_storage. pm; try apply pure_names_of; apply pure_lookup. Qed.

Lemma with_cs_pure : forall A (f : fstate) (m : M A) (k : A -> value),
  pure_m m -> cs (fst (with_cs f m k)) = cs f.
Proof.
  intros A f m k H. unfold with_cs. specialize (H (cs f)). destruct (m (cs f)) as [s' r].
  cbn [fst cs] in *. exact H.
Qed.

(* ================================================================== *)
(* 18. persistence over histories                                      *)
(* ================================================================== *)

Notation run_ops := ReadonlyTotal.run_ops.

(* the operations covered, with the range conditions that the Rust types of
   their arguments guarantee (a path is a str, a CLSID has 128 bits, the state
   bits are a u32); the time stamp of a step is a FILETIME (u64) *)
Definition covered (o : op) : Prop :=
  match o with
  | OCreateStorage p | OCreateNewStream _ p => Forall CodecProofs.scalar p
  | ORemoveStorage _ | ORemoveStream _ => True
  | OSetClsid _ g => g < 2 ^ 128
  | OSetState _ bits => bits <= u32_max
  | OSetCreated _ _ _ _ | OSetModified _ _ _ _ => True
  | OExists _ | OIsStream _ | OIsStorage _ | OEntry _ | ORootEntry | OReadStorage _
  | OReadRoot | OWalk | OWalkStorage _ | OFlushFile | OVersion => True
  | _ => False
  end.

(* every step either succeeds or leaves the file state as it was *)
Fixpoint run_fine (f : fstate) (l : list (N * op)) : Prop :=
  match l with
  | [] => True
  | (now, o) :: t =>
      (is_ok (snd (step f now o)) = true \/ cs (fst (step f now o)) = cs f) /\
      run_fine (fst (step f now o)) t
  end.

Definition Sized (k : N) (s : cstate) : Prop :=
  nsect s <= 2 + 2 * k /\ lenN (dirs s) <= 1 + k.

(* the number of FAT sectors follows from the number of sectors: 6000 steps
   stay far below 109 FAT sectors *)
Lemma Sized_Regime : forall k s, k <= 6000 -> PInv s -> Sized k s -> Regime s.
Proof.
  intros k s Hk [B _ _ _ _] (A & C). destruct (b_fat s B) as [_ Clen _ Ct].
  markers. unfold Regime, NUM_DIFAT_HDR, MAX_REGULAR_STREAM_ID.
  split; [|lia]. rewrite Ct, Clen.
  destruct (ReuseProofs.fps_cases s) as [[_ E]|[_ E]]; rewrite E; lia.
Qed.

Lemma with_cs_ok : forall A (f : fstate) (m : M A) (k : A -> value),
  is_ok (snd (with_cs f m k)) = true -> exists a, m (cs f) = (cs (fst (with_cs f m k)), Ok a).
Proof.
  intros A f m k H. unfold with_cs in *. destruct (m (cs f)) as [s' r]. cbn [fst snd cs] in *.
  destruct r as [a| | |]; try discriminate H. exists a. reflexivity.
Qed.

Lemma with_new_handle_ok : forall (f : fstate) i (m : M handle),
  is_ok (snd (with_new_handle f i m)) = true ->
  exists h, m (cs f) = (cs (fst (with_new_handle f i m)), Ok h).
Proof.
  intros f i m H. unfold with_new_handle in *. destruct (m (cs f)) as [s' r].
  destruct r as [h| | |]; cbn [fst snd cs] in *; try discriminate H. exists h. reflexivity.
Qed.

Lemma remove_storage_frame : forall p s s',
  PInv s -> api_remove_storage p s = (s', Ok tt) -> exists dids, dframe dids s s'.
Proof.
  intros p s s' [B Hdir _ _ _] E. destruct (PInv_DH _ B Hdir) as (dids & HD). exists dids.
  unfold api_remove_storage, remove_storage_names in E.
  destruct (MutRefine.names_lookup_inv _ _ _ _ _ _ E) as (names & r & _ & _ & HK).
  destruct r as [id0|]; [|discriminate HK].
  binv HK e s1 H1 H2. apply dir_entry_inv in H1. destruct H1 as [-> _].
  destruct (objtype_eqb (d_type e) TRoot); [discriminate H2|].
  destruct (objtype_eqb (d_type e) TStream); [discriminate H2|].
  destruct (negb (objtype_eqb (d_type e) TStorage)); [discriminate H2|].
  destruct (negb (d_child e =? NO_STREAM)); [discriminate H2|].
  destruct (lastN names) as [nm|]; [|discriminate H2].
  destruct (MutRefine.lookup_inv _ _ _ _ _ _ H2) as (pr & _ & H3).
  destruct pr as [pid|]; [|discriminate H3].
  apply (dstep_remove_dir_entry dids pid nm _ _ tt HD H3).
Qed.

Lemma remove_storage_empty : forall p s s',
  EmptyStreams s -> api_remove_storage p s = (s', Ok tt) -> EmptyStreams s'.
Proof.
  intros p s s' HE E.
  unfold api_remove_storage, remove_storage_names in E.
  destruct (MutRefine.names_lookup_inv _ _ _ _ _ _ E) as (names & r & _ & _ & HK).
  destruct r as [id0|]; [|discriminate HK].
  binv HK e s1 H1 H2. apply dir_entry_inv in H1. destruct H1 as [-> _].
  destruct (objtype_eqb (d_type e) TRoot); [discriminate H2|].
  destruct (objtype_eqb (d_type e) TStream); [discriminate H2|].
  destruct (negb (objtype_eqb (d_type e) TStorage)); [discriminate H2|].
  destruct (negb (d_child e =? NO_STREAM)); [discriminate H2|].
  destruct (lastN names) as [nm|]; [|discriminate H2].
  destruct (MutRefine.lookup_inv _ _ _ _ _ _ H2) as (pr & _ & H3).
  destruct pr as [pid|]; [|discriminate H3].
  eapply EmptyStreams_remove; eassumption.
Qed.

Lemma create_storage_empty : forall p now s s',
  EmptyStreams s -> api_create_storage p now s = (s', Ok tt) -> EmptyStreams s'.
Proof.
  intros p now s s' HE H. unfold api_create_storage, create_storage_names in H.
  destruct (MutRefine.names_lookup_inv _ _ _ _ _ _ H) as (names & r & _ & _ & HK).
  destruct r as [id0|].
  { binv HK e0 s1 H1 H2. discriminate H2. }
  destruct (lastN names) as [nm|]; [|discriminate HK].
  binv HK u1 s1 H1 H2. apply lift_inv in H1. destruct H1 as [-> _].
  destruct (MutRefine.lookup_inv _ _ _ _ _ _ H2) as (pr & _ & H3).
  destruct pr as [pid|]; [|discriminate H3].
  binv H3 pe s1 H1 H4. apply dir_entry_inv in H1. destruct H1 as [-> _].
  destruct (objtype_eqb (d_type pe) TStream); [discriminate H4|].
  binv H4 nid s1 H1 H5. apply ret_inv in H5. destruct H5 as [<- _].
  eapply EmptyStreams_insert; eassumption.
Qed.

Lemma set_entry_frame : forall p f s s',
  PInv s -> set_entry_with_path p f s = (s', Ok tt) -> exists dids, dframe dids s s'.
Proof.
  intros p f s s' [B Hdir _ _ _] E. destruct (PInv_DH _ B Hdir) as (dids & HD). exists dids.
  destruct (set_entry_inv _ _ _ _ E) as (id & Hw).
  apply (dstep_with_dir_entry_mut dids id _ _ _ tt HD Hw).
Qed.

Lemma set_entry_empty : forall p f s s',
  EmptyStreams s -> (forall e, tsl e (f e)) -> set_entry_with_path p f s = (s', Ok tt) ->
  EmptyStreams s'.
Proof.
  intros p f s s' HE Hf E. destruct (set_entry_inv _ _ _ _ E) as (id & Hw).
  eapply EmptyStreams_wdem; eassumption.
Qed.

Lemma set_clsid_frame : forall p g s s',
  PInv s -> api_set_clsid p g s = (s', Ok tt) ->
  (exists dids, dframe dids s s') /\ (EmptyStreams s -> EmptyStreams s').
Proof.
  intros p g s s' [B Hdir _ _ _] E. destruct (PInv_DH _ B Hdir) as (dids & HD).
  unfold api_set_clsid in E.
  destruct (MutRefine.names_lookup_inv _ _ _ _ _ _ E) as (names & r & _ & _ & HK).
  destruct r as [id|]; [|discriminate HK].
  binv HK e0 s1 H1 H2. apply dir_entry_inv in H1. destruct H1 as [-> _].
  destruct (objtype_eqb (d_type e0) TStream); [discriminate H2|].
  split.
  - exists dids. apply (dstep_with_dir_entry_mut dids id _ _ _ tt HD H2).
  - intro HE. eapply EmptyStreams_wdem; [exact HE|exact H2|]. intros e. repeat split.
Qed.

Lemma dframe_sizes : forall dids s s', dframe dids s s' ->
  nsect s' = nsect s /\ lenN (dirs s') = lenN (dirs s).
Proof.
  intros dids s s' (_ & F2 & _ & _ & _ & _ & _ & _ & _ & _ & _ & _ & _ & _ & F15). auto.
Qed.

(* the invariant of a history *)
Definition HInv (k : N) (s : cstate) : Prop := PInv s /\ EmptyStreams s /\ Sized k s.

Theorem step_covered : forall f now o k,
  covered o -> now <= u64_max -> k < 6000 -> HInv k (cs f) ->
  is_ok (snd (step f now o)) = true \/ cs (fst (step f now o)) = cs f ->
  HInv (k + 1) (cs (fst (step f now o))).
Proof.
  intros f now o k Hc Hnow Hk (HP & HE & HS) Hfine.
  assert (Hsame : cs (fst (step f now o)) = cs f -> HInv (k + 1) (cs (fst (step f now o)))).
  { intros ->. split; [exact HP|]. split; [exact HE|]. destruct HS as (A & C). unfold Sized. lia. }
  assert (Hkeep : forall s', PInv s' -> EmptyStreams s' -> (exists dids, dframe dids (cs f) s') ->
            HInv (k + 1) s').
  { intros s' HP' HE' (dids & F). destruct (dframe_sizes _ _ _ F) as (E1 & E3).
    split; [exact HP'|]. split; [exact HE'|]. destruct HS as (A & C). unfold Sized. lia. }
  assert (Hgrow : forall s', PInv s' -> EmptyStreams s' -> Grow (cs f) s' -> HInv (k + 1) s').
  { intros s' HP' HE' (G1 & G2 & G3).
    split; [exact HP'|]. split; [exact HE'|]. destruct HS as (A & C). unfold Sized. lia. }
  pose proof (Sized_Regime k _ ltac:(lia) HP HS) as HR.
  destruct o; cbn [covered] in Hc; try contradiction; cbn [step] in *.
  - (* create_storage *)
    destruct Hfine as [Hok|Hs]; [|exact (Hsame Hs)].
    destruct (with_cs_ok _ _ _ _ Hok) as ([] & E).
    destruct (create_storage_preserves p now _ _ HP HR Hc Hnow E) as [HP' HG].
    apply Hgrow; [exact HP'|eapply create_storage_empty; eassumption|exact HG].
  - (* remove_storage *)
    destruct Hfine as [Hok|Hs]; [|exact (Hsame Hs)].
    destruct (with_cs_ok _ _ _ _ Hok) as ([] & E).
    apply Hkeep; [eapply remove_storage_preserves|eapply remove_storage_empty|
                  eapply remove_storage_frame]; eassumption.
  - (* create_new_stream *)
    destruct Hfine as [Hok|Hs]; [|exact (Hsame Hs)].
    destruct (with_new_handle_ok _ _ _ Hok) as (h0 & E).
    destruct (create_new_stream_preserves p _ now _ _ h0 HP HR Hc Hnow E) as (HP' & HG & HE').
    apply Hgrow; [exact HP'|exact (HE' HE)|exact HG].
  - (* remove_stream *)
    destruct Hfine as [Hok|Hs]; [|exact (Hsame Hs)].
    destruct (with_cs_ok _ _ _ _ Hok) as ([] & E).
    destruct (remove_stream_preserves p _ _ HP HE E) as (HP' & HE' & HF).
    apply Hkeep; assumption.
  - (* set_clsid *)
    destruct Hfine as [Hok|Hs]; [|exact (Hsame Hs)].
    destruct (with_cs_ok _ _ _ _ Hok) as ([] & E).
    destruct (set_clsid_frame p g _ _ HP E) as [HF HE'].
    apply Hkeep; [eapply set_clsid_preserves; eassumption|exact (HE' HE)|exact HF].
  - (* set_state *)
    destruct Hfine as [Hok|Hs]; [|exact (Hsame Hs)].
    destruct (with_cs_ok _ _ _ _ Hok) as ([] & E).
    apply Hkeep; [eapply set_state_preserves; eassumption| |eapply set_entry_frame; eassumption].
    eapply set_entry_empty; [exact HE| |exact E]. intros e. repeat split.
  - (* set_created *)
    destruct Hfine as [Hok|Hs]; [|exact (Hsame Hs)].
    destruct (with_cs_ok _ _ _ _ Hok) as ([] & E).
    apply Hkeep; [eapply set_created_preserves; eassumption| |eapply set_entry_frame; eassumption].
    eapply set_entry_empty; [exact HE| |exact E].
    intros e. cbv beta. destruct (objtype_eqb (d_type e) TStream); repeat split.
  - (* set_modified *)
    destruct Hfine as [Hok|Hs]; [|exact (Hsame Hs)].
    destruct (with_cs_ok _ _ _ _ Hok) as ([] & E).
    apply Hkeep; [eapply set_modified_preserves; eassumption| |eapply set_entry_frame; eassumption].
    eapply set_entry_empty; [exact HE| |exact E].
    intros e. cbv beta. destruct (objtype_eqb (d_type e) TStream); repeat split.
  - apply Hsame, with_cs_pure, pure_api_exists.
  - apply Hsame, with_cs_pure, pure_api_is_stream.
  - apply Hsame, with_cs_pure, pure_api_is_storage.
  - apply Hsame, with_cs_pure, pure_api_entry.
  - apply Hsame, with_cs_pure, pure_api_root_entry.
  - apply Hsame, with_cs_pure, pure_api_read_storage.
  - apply Hsame, with_cs_pure, pure_api_read_root.
  - apply Hsame, with_cs_pure, pure_api_walk.
  - apply Hsame, with_cs_pure, pure_api_walk_storage.
  - apply Hsame. reflexivity.
  - apply Hsame. reflexivity.
Qed.

Lemma run_ops_cons : forall f now o t,
  fst (run_ops f ((now, o) :: t)) = fst (run_ops (fst (step f now o)) t).
Proof.
  intros f now o t. cbn [ReadonlyTotal.run_ops]. destruct (step f now o) as [f1 r]. cbn [fst].
  destruct (run_ops f1 t) as [f2 rs]. reflexivity.
Qed.

Lemma run_covered : forall l f k,
  Forall (fun p => covered (snd p) /\ fst p <= u64_max) l ->
  k + N.of_nat (length l) <= 6000 ->
  HInv k (cs f) -> run_fine f l ->
  PInv (cs (fst (run_ops f l))).
Proof.
  induction l as [|[now o] t IH]; intros f k Hall Hlen HI Hrun.
  - apply HI.
  - inversion Hall as [|? ? [Hc Hnow] Hall']; subst. cbn [fst snd] in Hc, Hnow.
    cbn [run_fine] in Hrun. destruct Hrun as [Hfine Hrun].
    cbn [length] in Hlen.
    pose proof (step_covered f now o k Hc Hnow ltac:(lia) HI Hfine) as HI1.
    rewrite run_ops_cons. apply (IH _ (k + 1)); try assumption. lia.
Qed.

Lemma create_state_hinv : forall v, HInv 0 (create_state v).
Proof.
  intros v. split; [apply create_state_pinv|]. split.
  - unfold EmptyStreams. cbn [create_state dirs]. constructor; [|constructor]. intro H. discriminate H.
  - unfold Sized. cbn. lia.
Qed.

Theorem persist_history : forall v mb nh (l : list (N * op)),
  Forall (fun p => covered (snd p) /\ fst p <= u64_max) l ->
  N.of_nat (length l) <= 6000 ->
  run_fine (init_fstate v mb nh) l ->
  let f := fst (run_ops (init_fstate v mb nh) l) in
  forall strict, open_model strict (concat_img (img (cs f))) = Ok (reopened (cs f)).
Proof.
  intros v mb nh l Hall Hlen Hrun f strict. apply PInv_reopens.
  apply (run_covered l (init_fstate v mb nh) 0); try assumption.
  apply create_state_hinv.
Qed.

(* the same at every intermediate point of the history *)
Corollary persist_every_prefix : forall v mb nh (l1 l2 : list (N * op)),
  Forall (fun p => covered (snd p) /\ fst p <= u64_max) (l1 ++ l2) ->
  N.of_nat (length (l1 ++ l2)) <= 6000 ->
  run_fine (init_fstate v mb nh) (l1 ++ l2) ->
  let f := fst (run_ops (init_fstate v mb nh) l1) in
  forall strict, open_model strict (concat_img (img (cs f))) = Ok (reopened (cs f)).
Proof.
  intros v mb nh l1 l2 Hall Hlen Hrun. apply persist_history.
  - apply Forall_app in Hall. apply Hall.
  - rewrite app_length, Nat2N.inj_add in Hlen. lia.
  - clear -Hrun. revert Hrun. generalize (init_fstate v mb nh).
    induction l1 as [|[now o] t IH]; intros f H; [exact I|].
    cbn [app run_fine] in *. destruct H as [H1 H2]. split; [exact H1|apply IH; exact H2].
Qed.


(* ================================================================== *)
(* 19. non-vacuity                                                     *)
(* ================================================================== *)

Fixpoint all_ok (f : fstate) (l : list (N * op)) : bool :=
  match l with
  | [] => true
  | (now, o) :: t => is_ok (snd (step f now o)) && all_ok (fst (step f now o)) t
  end.

Lemma all_ok_fine : forall l f, all_ok f l = true -> run_fine f l.
Proof.
  induction l as [|[now o] t IH]; intros f H; cbn [all_ok run_fine] in *; [exact I|].
  apply andb_true_iff in H. destruct H as [H1 H2]. split; [left; exact H1|apply IH; exact H2].
Qed.

Lemma run_fine_app : forall l1 l2 f,
  run_fine f l1 -> run_fine (fst (ReadonlyTotal.run_ops f l1)) l2 -> run_fine f (l1 ++ l2).
Proof.
  induction l1 as [|[now o] t IH]; intros l2 f H1 H2; [exact H2|].
  cbn [app run_fine] in *. destruct H1 as [A B]. split; [exact A|].
  apply IH; [exact B|]. rewrite run_ops_cons in H2. exact H2.
Qed.

Module Example.
  Definition p_a : list N := [47; 97].                 (* "/a"   *)
  Definition p_ab : list N := [47; 97; 47; 98].        (* "/a/b" *)
  Definition p_as : list N := [47; 97; 47; 115].       (* "/a/s" *)
  Definition p_c : list N := [47; 99].                 (* "/c"   *)
  Definition p_d : list N := [47; 100].                (* "/d"   *)
  Definition p_e : list N := [47; 101].                (* "/e"   *)
  Definition p_z : list N := [47; 122].                (* "/z", never created *)
  Definition t0 : N := 132000000000000000.

  (* storages (one nested), an empty stream, metadata on each, queries, a
     removal; then a refused call; then two more storages (in a version-3 file
     the first reuses the freed slot, the second makes the directory chain grow
     by a sector) and the removal of the stream *)
  Definition hist1 : list (N * op) :=
    [(t0, OCreateStorage p_a); (t0, OCreateStorage p_ab); (t0, OCreateNewStream 0 p_as);
     (t0, OCreateStorage p_c);
     (t0, OSetClsid p_a 12345); (t0, OSetState p_as 7); (t0, OSetModified p_c false 1000 0);
     (t0, OSetCreated p_a true 5 0); (t0, OExists p_c); (t0, OWalk);
     (t0, ORemoveStorage p_c)].
  Definition hist3 : list (N * op) :=
    [(t0, OCreateStorage p_d); (t0, OCreateStorage p_e); (t0, ORemoveStream p_as);
     (t0, OReadRoot); (t0, OFlushFile)].
  Definition hist2 : list (N * op) := (t0, ORemoveStorage p_z) :: hist3.
  Definition hist : list (N * op) := hist1 ++ hist2.

  Ltac scal := repeat (constructor; [left; reflexivity|]); constructor.
  Lemma hist_covered : Forall (fun p => covered (snd p) /\ fst p <= u64_max) hist.
  Proof.
    unfold hist, hist1, hist2, hist3. cbn [app].
    repeat (constructor; [split; [cbn [snd covered]|cbn [fst]; unfold t0, u64_max; lia]|]);
      try exact I; try scal.
    unfold u32_max. lia.
  Qed.

  Lemma hist_len : N.of_nat (length hist) <= 6000.
  Proof. cbn. lia. Qed.

  Example refused_step : forall v,
    is_ok (snd (step (fst (ReadonlyTotal.run_ops (init_fstate v 1024 4) hist1)) t0 (ORemoveStorage p_z)))
    = false.
  Proof. intros [|]; vm_compute; reflexivity. Qed.

  Lemma hist_fine : forall v, run_fine (init_fstate v 1024 4) hist.
  Proof.
    intros v. apply run_fine_app; [apply all_ok_fine; destruct v; vm_compute; reflexivity|].
    unfold hist2. cbn [run_fine]. split.
    - right. destruct v; vm_compute; reflexivity.
    - apply all_ok_fine. destruct v; vm_compute; reflexivity.
  Qed.

  Example hist_shapes :
    let s3 := cs (fst (ReadonlyTotal.run_ops (init_fstate V3 1024 4) hist)) in
    let s4 := cs (fst (ReadonlyTotal.run_ops (init_fstate V4 1024 4) hist)) in
    lenN (dirs s3) = 6 /\ nsect s3 = 3 /\
    map d_type (dirs s3) = [TRoot; TStorage; TStorage; TUnalloc; TStorage; TStorage] /\
    lenN (dirs s4) = 6 /\ nsect s4 = 2.
  Proof. vm_compute. repeat split; reflexivity. Qed.

  Theorem hist_persists : forall v strict,
    let f := fst (ReadonlyTotal.run_ops (init_fstate v 1024 4) hist) in
    open_model strict (concat_img (img (cs f))) = Ok (reopened (cs f)).
  Proof.
    intros v strict.
    exact (persist_history v 1024 4 hist hist_covered hist_len (hist_fine v) strict).
  Qed.

  (* the same fact checked by running open_model on the bytes *)
  Example hist_persists_by_computation : forall strict,
    let f := fst (ReadonlyTotal.run_ops (init_fstate V3 1024 4) hist) in
    open_model strict (concat_img (img (cs f))) = Ok (reopened (cs f)).
  Proof. intros [|]; vm_compute; reflexivity. Qed.
End Example.


(* ------------------------------------------------------------------ *)
Check PInv_Coherent.
Check PInv_reopens.
Check tree_validates.
Check base_dframe.
Check create_state_pinv.
Check set_state_preserves.
Check set_clsid_preserves.
Check set_created_preserves.
Check set_modified_preserves.
Check set_state_err.
Check set_clsid_err.
Check set_created_err.
Check set_modified_err.
Check remove_storage_preserves.
Check G_allocate_grow.
Check dir_extension_base.
Check create_storage_preserves.
Check create_new_stream_preserves.
Check remove_stream_preserves.
Check step_covered.
Check persist_history.
Check persist_every_prefix.
Check Example.hist_persists.
Print Assumptions PInv_Coherent.
Print Assumptions tree_validates.
Print Assumptions create_state_pinv.
Print Assumptions set_state_preserves.
Print Assumptions set_clsid_preserves.
Print Assumptions set_created_preserves.
Print Assumptions set_modified_preserves.
Print Assumptions set_state_err.
Print Assumptions set_clsid_err.
Print Assumptions set_created_err.
Print Assumptions set_modified_err.
Print Assumptions remove_storage_preserves.
Print Assumptions create_storage_preserves.
Print Assumptions create_new_stream_preserves.
Print Assumptions remove_stream_preserves.
Print Assumptions persist_history.
Print Assumptions persist_every_prefix.
Print Assumptions Example.hist_persists.
Print Assumptions Example.hist_persists_by_computation.
