(* StoreMiniProofs.v — SMALL streams (mini chains) of the storage layer Store.v
   behave as byte vectors as long as they stay small and need no new mini
   sector; bytes gained by growing read as ZERO whatever the mini sectors held
   before (property C08, and the store half of C06).
   Stdlib only; every theorem is closed under the global context.
   Reuses ChainProofs / MiniChainProofs. *)
From Coq Require Import List NArith Lia Bool ZifyN ZifyBool.
From Cfb.model Require Import Base Names DirEnt State Alloc Dir Mini Store.
From Cfb.gen Require Import Consts.
From Cfb.proofs Require Import ChainProofs MiniChainProofs.
From Cfb.proofs Require CodecProofs.
Import ListNotations.
Open Scope N_scope.

Lemma MSL_64 : MINI_SECTOR_LEN = 64. Proof. reflexivity. Qed.
Lemma CUTOFF_4096 : MINI_STREAM_CUTOFF = 4096. Proof. reflexivity. Qed.
Lemma DEL_128 : DIR_ENTRY_LEN = 128. Proof. reflexivity. Qed.
Lemma MNL_31 : MAX_NAME_LEN = 31. Proof. reflexivity. Qed.

(* ------------------------------------------------------------------ *)
(* list algebra                                                        *)
(* ------------------------------------------------------------------ *)

Lemma takeN_takeN : forall A (l : list A) a b, a <= b -> takeN a (takeN b l) = takeN a l.
Proof.
  intros A l a b H.
  pose proof (takeN_dropN_takeN A l 0 a b) as E. rewrite !dropN_0 in E. apply E. lia.
Qed.

(* the first [max m (off + |b|)] bytes of a splice only depend on the first
   [m] bytes of the spliced list (off <= m) *)
Lemma takeN_spliceN_gen : forall (C : list byte) m off b,
  m <= lenN C -> off <= m ->
  takeN (N.max m (off + lenN b)) (spliceN C off b) = spliceN (takeN m C) off b.
Proof.
  intros C m off b Hm Hoff.
  assert (HlenT : lenN (takeN m C) = m) by (rewrite lenN_takeN; blia).
  destruct (N.le_gt_cases (off + lenN b) m) as [Hin|Hout].
  - replace (N.max m (off + lenN b)) with m by blia.
    rewrite <- (takeN_dropN_id _ C m) at 1.
    rewrite spliceN_app_le by blia.
    assert (HlenS : lenN (spliceN (takeN m C) off b) = m) by (rewrite lenN_spliceN; blia).
    rewrite takeN_app_le by blia.
    apply takeN_all. blia.
  - replace (N.max m (off + lenN b)) with (off + lenN b) by blia.
    rewrite (spliceN_inside C off b) by blia.
    rewrite (spliceN_inside (takeN m C) off b) by blia.
    rewrite (dropN_all _ (takeN m C)) by blia.
    rewrite takeN_takeN by blia. rewrite app_nil_r.
    rewrite app_assoc.
    assert (HlenP : lenN (takeN off C ++ b) = off + lenN b)
      by (rewrite lenN_app, lenN_takeN; blia).
    rewrite takeN_app_le by blia.
    apply takeN_all. blia.
Qed.

Lemma spliceN_at_end : forall (V b : list byte),
  spliceN V (lenN V) b = V ++ b.
Proof.
  intros V b. rewrite spliceN_beyond by blia.
  replace (lenN V - lenN V) with 0 by blia. reflexivity.
Qed.

(* ------------------------------------------------------------------ *)
(* the monad                                                           *)
(* ------------------------------------------------------------------ *)

Lemma bind_ok : forall A B (m : M A) (f : A -> M B) s s1 a,
  m s = (s1, Ok a) -> bind m f s = f a s1.
Proof. intros A B m f s s1 a H. unfold bind. rewrite H. reflexivity. Qed.

Ltac splits := repeat match goal with |- _ /\ _ => split end.

Ltac sred :=
  cbv beta iota zeta delta [bind get put modify ret fail panic lift out_of_fuel].

(* ------------------------------------------------------------------ *)
(* definitions                                                         *)
(* ------------------------------------------------------------------ *)

(* stream [id] is a small stream: its bytes are the first [d_len] bytes of its
   mini chain [mids], which lies inside the mini stream (root chain [ids]) *)
Definition small_at (s : cstate) (id : N) (e : dirent) (ids mids : list N)
           (V : list byte) : Prop :=
  nthN (dirs s) id = Some e /\ d_type e = TStream /\
  d_len e < MINI_STREAM_CUTOFF /\ 0 < d_len e /\
  chain_ids_of (minifat s) (d_start e) = Ok mids /\
  good_mchain s ids mids /\
  d_len e <= 64 * lenN mids /\
  V = takeN (d_len e) (mchain_content s ids mids).

Definition small_content (s : cstate) (id : N) (V : list byte) : Prop :=
  exists e ids mids, small_at s id e ids mids V.

(* the number of mini sectors in the mini chain of stream [id] *)
Definition mini_sectors (s : cstate) (id k : N) : Prop :=
  exists e mids, nthN (dirs s) id = Some e /\
                 chain_ids_of (minifat s) (d_start e) = Ok mids /\ lenN mids = k.

(* the mini chains of [id] and [id'] share no mini sector *)
Definition mini_disjoint (s : cstate) (id id' : N) : Prop :=
  exists e e' mids mids',
    nthN (dirs s) id = Some e /\ nthN (dirs s) id' = Some e' /\
    chain_ids_of (minifat s) (d_start e) = Ok mids /\
    chain_ids_of (minifat s) (d_start e') = Ok mids' /\
    (forall x, In x mids -> ~ In x mids').

(* what update_entry / with_dir_entry_mut / write_dir_entry need in order to
   succeed on slot [id] and to leave the mini stream alone *)
Definition DirWritable (s : cstate) (id : N) : Prop :=
  exists e dids,
    nthN (dirs s) id = Some e /\
    lenN (utf16 (d_name e)) <= MAX_NAME_LEN /\
    chain_ids_of (fat s) (dir_start s) = Ok dids /\
    good_chain s dids /\
    DIR_ENTRY_LEN * (id + 1) <= slen s * lenN dids /\
    (forall ids, root_ids s ids -> forall x, In x dids -> ~ In x ids).

Lemma root_ids_fun : forall s a b, root_ids s a -> root_ids s b -> a = b.
Proof.
  intros s a b (r & Hr & Ha) (r' & Hr' & Hb). congruence.
Qed.

Lemma small_at_lenV : forall s id e ids mids V,
  small_at s id e ids mids V -> lenN V = d_len e.
Proof.
  intros s id e ids mids V (_ & _ & _ & _ & _ & Hgm & Hle & ->).
  rewrite lenN_takeN, (good_mchain_len _ _ _ Hgm). blia.
Qed.

Lemma small_at_start : forall s id e ids mids V,
  small_at s id e ids mids V ->
  d_start e <> END_OF_CHAIN /\ mchain_start (mkMChain mids 0) = d_start e /\
  0 < lenN mids.
Proof.
  intros s id e ids mids V (_ & _ & _ & Hpos & Hch & _ & Hle & _).
  destruct (chain_ids_of_walk _ _ _ Hch) as (_ & Hnil & Hhd & _).
  assert (Hk : 0 < lenN mids) by lia.
  destruct mids as [|x t]; [cbn [lenN] in Hk; lia|].
  split; [|split; [|exact Hk]].
  - intro E. apply Hnil in E. discriminate.
  - unfold mchain_start. cbn [mc_ids]. apply Hhd. reflexivity.
Qed.

(* ------------------------------------------------------------------ *)
(* pieces of the execution                                             *)
(* ------------------------------------------------------------------ *)

Lemma stream_entry_ok : forall s id e,
  nthN (dirs s) id = Some e -> d_type e = TStream ->
  stream_entry id s = (s, Ok (d_start e, d_len e)).
Proof.
  intros s id e Hn Ht. unfold stream_entry, dir_entry. sred.
  rewrite Hn. sred. rewrite Ht. reflexivity.
Qed.

Lemma mchain_new_ok : forall s start mids,
  chain_ids_of (minifat s) start = Ok mids ->
  mchain_new start s = (s, Ok (mkMChain mids 0)).
Proof.
  intros s start mids H. unfold mchain_new. sred. rewrite H. reflexivity.
Qed.

Lemma mchain_seek_ok : forall s mids o pos,
  pos <= 64 * lenN mids ->
  mchain_seek (mkMChain mids o) pos s = (s, Ok (mkMChain mids pos)).
Proof.
  intros s mids o pos H.
  apply (proj1 (mchain_seek_spec s (mkMChain mids o) pos)).
  unfold mchain_len. cbn [mc_ids]. rewrite MSL_64. exact H.
Qed.

(* mchain_set_len when the number of mini sectors does not change *)
Lemma mchain_set_len_same : forall s c new_len,
  new_len < MINI_STREAM_CUTOFF ->
  0 < new_len ->
  (64 + new_len - 1) / 64 = lenN (mc_ids c) ->
  mchain_set_len c new_len s = (s, Ok c).
Proof.
  intros s c new_len Hcut Hpos Hnum. unfold mchain_set_len.
  assert (E1 : (MINI_STREAM_CUTOFF <=? new_len) = false) by lia. rewrite E1.
  rewrite MSL_64. cbv zeta. rewrite Hnum.
  assert (Hk : 0 < lenN (mc_ids c)).
  { rewrite <- Hnum. apply N.div_str_pos. lia. }
  assert (E2 : (lenN (mc_ids c) =? 0) = false) by lia. rewrite E2.
  rewrite N.leb_refl, N.ltb_irrefl. reflexivity.
Qed.

Lemma ceil_bounds : forall n k, (64 + n - 1) / 64 = k -> 0 < n ->
  n <= 64 * k /\ 64 * k < n + 64.
Proof.
  intros n k H Hn.
  pose proof (N.div_mod (64 + n - 1) 64 ltac:(lia)) as E.
  pose proof (N.mod_lt (64 + n - 1) 64 ltac:(lia)) as L.
  rewrite H in E. lia.
Qed.

(* ------------------------------------------------------------------ *)
(* update_entry                                                        *)
(* ------------------------------------------------------------------ *)

Lemma write_dir_entry_spec : forall s id e dids,
  nthN (dirs s) id = Some e ->
  lenN (utf16 (d_name e)) <= MAX_NAME_LEN ->
  chain_ids_of (fat s) (dir_start s) = Ok dids ->
  good_chain s dids ->
  DIR_ENTRY_LEN * (id + 1) <= slen s * lenN dids ->
  exists s',
    write_dir_entry id s = (s', Ok tt) /\
    s' = w_img s (img s') /\
    lenN (img s') = lenN (img s) /\
    (forall x, ~ In x dids -> sector_bytes s' x = sector_bytes s x) /\
    (forall x, lenN (sector_bytes s' x) = lenN (sector_bytes s x)) /\
    good_chain s' dids.
Proof.
  intros s id e dids Hn Hname Hch Hgood Hslot.
  rewrite MNL_31 in Hname. rewrite DEL_128 in Hslot.
  assert (Henc : lenN (dirent_encode e) = 128)
    by (apply CodecProofs.dirent_encode_length; lia).
  unfold write_dir_entry, chain_new, dir_entry. sred. rewrite Hch. sred.
  rewrite (proj1 (chain_seek_spec s (mkChain IDir dids 0) (DIR_ENTRY_LEN * id)))
    by (unfold chain_len; cbn [c_ids]; rewrite DEL_128; lia).
  cbn [c_init c_ids]. rewrite Hn.
  assert (E : (MAX_NAME_LEN <? lenN (utf16 (d_name e))) = false) by (rewrite MNL_31; lia).
  rewrite E.
  destruct (chain_write_spec s (mkChain IDir dids (DIR_ENTRY_LEN * id)) (dirent_encode e))
    as (s' & Hw & _ & _ & Hgood' & Hfr & Hlen & Himg & Hmeta).
  - exact Hgood.
  - unfold chain_len. cbn [c_ids c_off]. rewrite DEL_128. blia.
  - cbn [c_init c_ids c_off] in *. rewrite Hw.
    exists s'. splits; try assumption. reflexivity.
Qed.

Lemma update_entry_spec : forall s id e dids st ln,
  nthN (dirs s) id = Some e ->
  lenN (utf16 (d_name e)) <= MAX_NAME_LEN ->
  chain_ids_of (fat s) (dir_start s) = Ok dids ->
  good_chain s dids ->
  DIR_ENTRY_LEN * (id + 1) <= slen s * lenN dids ->
  exists s',
    update_entry id st ln s = (s', Ok tt) /\
    s' = w_img (w_dirs s (updN (dirs s) id (set_start_len e st ln))) (img s') /\
    lenN (img s') = lenN (img s) /\
    (forall x, ~ In x dids -> sector_bytes s' x = sector_bytes s x) /\
    (forall x, lenN (sector_bytes s' x) = lenN (sector_bytes s x)) /\
    good_chain s' dids.
Proof.
  intros s id e dids st ln Hn Hname Hch Hgood Hslot.
  pose proof (nthN_Some_lt _ _ _ _ Hn) as Hlt.
  set (s0 := w_dirs s (updN (dirs s) id (set_start_len e st ln))).
  destruct (write_dir_entry_spec s0 id (set_start_len e st ln) dids)
    as (s' & Hw & Hmeta & Himg & Hfr & Hlen & Hgood'); try assumption.
  - unfold s0. cbn [dirs w_dirs]. apply nthN_updN_same. exact Hlt.
  - exists s'. split; [|splits; assumption].
    unfold update_entry, with_dir_entry_mut, with_dir_entry_mut_inner, dir_entry, set_dir_entry. sred.
    rewrite Hn. sred. rewrite Hn. fold s0. rewrite Hw. reflexivity.
Qed.

(* ------------------------------------------------------------------ *)
(* the engine: a write inside the mini chain, then update_entry        *)
(* ------------------------------------------------------------------ *)

Lemma good_chain_transfer2 : forall s s1 ids,
  good_chain s ids ->
  nsect s1 = nsect s -> slen s1 = slen s ->
  lenN (img s1) = lenN (img s) ->
  (forall x, lenN (sector_bytes s1 x) = lenN (sector_bytes s x)) ->
  good_chain s1 ids.
Proof.
  intros s s1 ids (Hnd & HF & Himg & Hpos) Hns Hsl Hlen Hsec.
  split; [exact Hnd|]. split; [|split].
  - rewrite Forall_forall in *. intros x Hx. destruct (HF x Hx) as [H1 H2].
    rewrite Hns, Hsl, Hsec. split; assumption.
  - rewrite Hlen, Hns. exact Himg.
  - rewrite Hsl. exact Hpos.
Qed.

(* nothing is allocated or freed: the allocation tables, the free lists and
   the number of sectors are unchanged *)
Definition no_alloc (s s' : cstate) : Prop :=
  nsect s' = nsect s /\ lenN (img s') = lenN (img s) /\
  fat s' = fat s /\ free s' = free s /\ difat s' = difat s /\
  minifat s' = minifat s /\ mfree s' = mfree s /\
  dir_start s' = dir_start s /\ minifat_start s' = minifat_start s /\
  lenN (dirs s') = lenN (dirs s).

(* what an operation on stream [id] (mini chain [mids]) leaves alone *)
Definition mini_frame (s s' : cstate) (id : N) (ids mids : list N) : Prop :=
  root_ids s' ids /\ good_chain s' ids /\ slen s' = slen s /\
  minifat s' = minifat s /\
  (forall j, j <> id -> nthN (dirs s') j = nthN (dirs s) j) /\
  (forall ms, ~ In ms mids -> mini_bytes s' ids ms = mini_bytes s ids ms) /\
  no_alloc s s'.

Lemma mini_frame_small_at : forall s s' id ids mids id' e' mids' V',
  mini_frame s s' id ids mids ->
  small_at s id' e' ids mids' V' ->
  id' <> id ->
  (forall x, In x mids -> ~ In x mids') ->
  small_at s' id' e' ids mids' V'.
Proof.
  intros s s' id ids mids id' e' mids' V'
         (Hroot' & Hgood' & Hsl & Hmf & Hdirs & Hmb & _)
         (Hn & Ht & Hcut & Hpos & Hch & Hgm & Hle & HV) Hne Hdisj.
  destruct Hgm as (_ & _ & Hnd & HF).
  unfold small_at. splits; try assumption.
  - rewrite Hdirs by exact Hne. exact Hn.
  - rewrite Hmf. exact Hch.
  - split; [exact Hroot'|]. split; [exact Hgood'|]. split; [exact Hnd|].
    rewrite Hsl. exact HF.
  - rewrite HV. f_equal. unfold mchain_content. f_equal.
    apply map_ext_in. intros x Hx. symmetry. apply Hmb.
    intro Hin. exact (Hdisj x Hin Hx).
Qed.

Lemma small_write_update : forall s id e ids mids V off bs ln,
  small_at s id e ids mids V -> DirWritable s id ->
  off + lenN bs <= 64 * lenN mids ->
  0 < ln -> ln < MINI_STREAM_CUTOFF -> ln <= 64 * lenN mids ->
  exists s1 s',
    mchain_write_all (mkMChain mids off) bs s
      = (s1, Ok (mkMChain mids (off + lenN bs))) /\
    update_entry id (d_start e) ln s1 = (s', Ok tt) /\
    small_at s' id (set_start_len e (d_start e) ln) ids mids
             (takeN ln (spliceN (mchain_content s ids mids) off bs)) /\
    DirWritable s' id /\
    mini_frame s s' id ids mids.
Proof.
  intros s id e ids mids V off bs ln
         (Hn & Ht & Hcut & Hpos & Hch & Hgm & Hle & HV)
         (e0 & dids & Hn0 & Hname & Hdch & Hdgood & Hslot & Hdisj)
         Hfit Hln0 Hlncut Hlnle.
  rewrite Hn in Hn0. injection Hn0 as <-.
  destruct (mchain_write_spec s ids (mkMChain mids off) bs)
    as (s1 & Hw & Hc & _ & Hgm1 & Hfrm & Hfr & Hlen & Himg & Hmeta).
  { exact Hgm. }
  { unfold mchain_len. cbn [mc_ids mc_off]. rewrite MSL_64. exact Hfit. }
  cbn [mc_ids mc_off] in *.
  destruct (same_meta_fields _ _ Hmeta)
    as (Hver & Hns & _ & Hdifat & Hfat & Hfree & Hdirs & Hds & Hmf & Hmfs & Hmfree & Hsl).
  pose proof Hgm as (Hroot & Hgood & Hnd & HF).
  pose proof Hgm1 as (Hroot1 & Hgood1 & _ & HF1).
  assert (Hdgood1 : good_chain s1 dids).
  { apply (good_chain_transfer s s1 dids Hdgood Hmeta Himg). intros x _. apply Hlen. }
  destruct (update_entry_spec s1 id e dids (d_start e) ln)
    as (s' & Hu & Hs' & Himg' & Hfr' & Hlen' & Hdgood').
  { rewrite Hdirs. exact Hn. }
  { exact Hname. }
  { rewrite Hfat, Hds. exact Hdch. }
  { exact Hdgood1. }
  { rewrite Hsl. exact Hslot. }
  exists s1, s'. split; [exact Hw|]. split; [exact Hu|].
  set (e' := set_start_len e (d_start e) ln) in *.
  pose proof (nthN_Some_lt _ _ _ _ Hn) as Hlt.
  assert (Hdirs' : dirs s' = updN (dirs s) id e')
    by (rewrite Hs'; cbn [dirs w_img w_dirs]; rewrite Hdirs; reflexivity).
  assert (Hfat' : fat s' = fat s) by (rewrite Hs'; cbn [fat w_img w_dirs]; exact Hfat).
  assert (Hmf' : minifat s' = minifat s)
    by (rewrite Hs'; cbn [minifat w_img w_dirs]; exact Hmf).
  assert (Hds' : dir_start s' = dir_start s)
    by (rewrite Hs'; cbn [dir_start w_img w_dirs]; exact Hds).
  assert (Hns' : nsect s' = nsect s1) by (rewrite Hs'; reflexivity).
  assert (Hsl' : slen s' = slen s1) by (unfold slen; rewrite Hs'; reflexivity).
  assert (Hnid : nthN (dirs s') id = Some e')
    by (rewrite Hdirs'; apply nthN_updN_same; exact Hlt).
  assert (Hoth : forall j, j <> id -> nthN (dirs s') j = nthN (dirs s) j)
    by (intros j Hj; rewrite Hdirs'; apply nthN_updN_other; congruence).
  assert (Hroot' : root_ids s' ids).
  { destruct Hroot as (r & Hr & Hrch).
    destruct (N.eq_dec id ROOT_STREAM_ID) as [Eid|Nid].
    - (* a root entry typed as a stream: its start sector is not changed *)
      subst id. rewrite Hn in Hr. injection Hr as <-.
      exists e'. split; [exact Hnid|]. rewrite Hfat'. exact Hrch.
    - exists r. split.
      + rewrite Hoth by congruence. exact Hr.
      + rewrite Hfat'. exact Hrch. }
  assert (Hgood' : good_chain s' ids)
    by (apply (good_chain_transfer2 s1 s' ids Hgood1 Hns' Hsl' Himg' Hlen')).
  assert (Hms : mini_stream s' ids = mini_stream s1 ids).
  { unfold mini_stream, chain_content. f_equal. apply map_ext_in. intros x Hx.
    apply Hfr'. intro Hin. exact (Hdisj ids Hroot x Hin Hx). }
  assert (Hmb : forall ms, mini_bytes s' ids ms = mini_bytes s1 ids ms)
    by (intro ms; unfold mini_bytes; rewrite Hms; reflexivity).
  assert (Hmc : mchain_content s' ids mids = mchain_content s1 ids mids).
  { unfold mchain_content. f_equal. apply map_ext. exact Hmb. }
  assert (Hgm' : good_mchain s' ids mids).
  { split; [exact Hroot'|]. split; [exact Hgood'|]. split; [exact Hnd|].
    rewrite Hsl'. exact HF1. }
  split; [|split].
  - unfold small_at. splits.
    + exact Hnid.
    + exact Ht.
    + exact Hlncut.
    + exact Hln0.
    + rewrite Hmf'. exact Hch.
    + exact Hgm'.
    + exact Hlnle.
    + cbn [d_len e' set_start_len]. rewrite Hmc, Hc. reflexivity.
  - exists e', dids. splits.
    + exact Hnid.
    + exact Hname.
    + rewrite Hfat', Hds'. exact Hdch.
    + exact Hdgood'.
    + rewrite Hsl', Hsl. exact Hslot.
    + intros ids0 Hr0. rewrite (root_ids_fun s' ids0 ids Hr0 Hroot').
      exact (Hdisj ids Hroot).
  - unfold mini_frame. splits.
    + exact Hroot'.
    + exact Hgood'.
    + rewrite Hsl'. exact Hsl.
    + exact Hmf'.
    + exact Hoth.
    + intros ms Hms'. rewrite Hmb. apply Hfrm. exact Hms'.
    + unfold no_alloc. splits.
      * rewrite Hns'. exact Hns.
      * rewrite Himg'. exact Himg.
      * exact Hfat'.
      * rewrite Hs'. cbn [free w_img w_dirs]. exact Hfree.
      * rewrite Hs'. cbn [difat w_img w_dirs]. exact Hdifat.
      * exact Hmf'.
      * rewrite Hs'. cbn [mfree w_img w_dirs]. exact Hmfree.
      * exact Hds'.
      * rewrite Hs'. cbn [minifat_start w_img w_dirs]. exact Hmfs.
      * rewrite Hdirs'. apply lenN_updN.
Qed.

Lemma small_at_V_eq : forall s id e ids mids V V',
  small_at s id e ids mids V -> V = V' -> small_at s id e ids mids V'.
Proof. intros. subst. assumption. Qed.

(* ------------------------------------------------------------------ *)
(* M1: reading                                                         *)
(* ------------------------------------------------------------------ *)

Theorem read_data_small : forall s id V off n,
  small_content s id V -> off < lenN V -> 0 < n ->
  read_data id off n s
  = (s, Ok (takeN (N.min n (lenN V - off)) (dropN off V))).
Proof.
  intros s id V off n (e & ids & mids & Hsm) Hoff Hn.
  pose proof (small_at_lenV _ _ _ _ _ _ Hsm) as HlenV. rewrite HlenV in *.
  destruct Hsm as (Hnth & Ht & Hcut & Hpos & Hch & Hgm & Hle & HV).
  unfold read_data. sred.
  rewrite (stream_entry_ok s id e Hnth Ht). sred.
  assert (E1 : (d_len e <=? off) = false) by lia. rewrite E1.
  assert (E2 : (N.min (d_len e - off) n =? 0) = false) by lia. rewrite E2.
  assert (E3 : (d_len e <? MINI_STREAM_CUTOFF) = true) by lia. rewrite E3.
  rewrite (mchain_new_ok s _ mids Hch).
  rewrite (mchain_seek_ok s mids 0 off) by lia.
  rewrite (mchain_read_spec s ids (mkMChain mids off) (N.min (d_len e - off) n) Hgm)
    by (unfold mchain_len; cbn [mc_ids mc_off]; rewrite MSL_64; lia).
  cbn [mc_ids mc_off].
  rewrite HV. rewrite takeN_dropN_takeN by lia.
  rewrite (N.min_comm n). reflexivity.
Qed.

(* ------------------------------------------------------------------ *)
(* write_data inside the mini chain (covers M2 and M3)                 *)
(* ------------------------------------------------------------------ *)

Theorem write_data_small_full : forall s id e ids mids V off buf,
  small_at s id e ids mids V -> DirWritable s id ->
  off <= lenN V ->
  off + lenN buf <= 64 * lenN mids ->
  off + lenN buf < MINI_STREAM_CUTOFF ->
  exists s',
    write_data id off buf s = (s', Ok tt) /\
    small_at s' id (set_start_len e (d_start e) (N.max (d_len e) (off + lenN buf)))
             ids mids (spliceN V off buf) /\
    DirWritable s' id /\
    mini_frame s s' id ids mids.
Proof.
  intros s id e ids mids V off buf Hsm Hdw Hoff Hfit Hcut2.
  pose proof (small_at_lenV _ _ _ _ _ _ Hsm) as HlenV. rewrite HlenV in *.
  destruct (small_at_start _ _ _ _ _ _ Hsm) as (Hne & Hst & Hk).
  pose proof Hsm as (Hnth & Ht & Hcut & Hpos & Hch & Hgm & Hle & HV).
  set (ln := N.max (d_len e) (off + lenN buf)).
  destruct (small_write_update s id e ids mids V off buf ln Hsm Hdw Hfit)
    as (s1 & s' & Hw & Hu & Hsm' & Hdw' & Hfr); try (unfold ln; lia).
  exists s'. split; [|split; [|split; [exact Hdw' | exact Hfr]]].
  - unfold write_data. sred.
    rewrite (stream_entry_ok s id e Hnth Ht). sred.
    assert (E1 : (d_len e <? off) = false) by lia. rewrite E1.
    rewrite (both_check_false_small s (N.max (d_len e) (off + lenN buf))) by lia.
    assert (E2 : (d_start e =? END_OF_CHAIN) = false) by lia. rewrite E2.
    assert (E3 : (d_len e <? MINI_STREAM_CUTOFF) = true) by lia. rewrite E3.
    fold ln.
    assert (E4 : (ln <? MINI_STREAM_CUTOFF) = true) by (unfold ln; lia). rewrite E4.
    rewrite (mchain_new_ok s _ mids Hch).
    rewrite (mchain_seek_ok s mids 0 off) by lia.
    rewrite Hw.
    assert (E5 : negb (mchain_start (mkMChain mids (off + lenN buf)) =? d_start e) = false).
    { unfold mchain_start in *. cbn [mc_ids] in *. rewrite Hst, N.eqb_refl. reflexivity. }
    rewrite E5. exact Hu.
  - assert (HVeq : takeN ln (spliceN (mchain_content s ids mids) off buf) = spliceN V off buf).
    { rewrite HV. unfold ln. apply takeN_spliceN_gen; [|exact Hoff].
      rewrite (good_mchain_len _ _ _ Hgm). exact Hle. }
    rewrite <- HVeq. exact Hsm'.
Qed.

(* ------------------------------------------------------------------ *)
(* resize with an unchanged number of mini sectors (covers M4 and M5)  *)
(* ------------------------------------------------------------------ *)

Theorem resize_small_full : forall s id e ids mids V new_len,
  small_at s id e ids mids V -> DirWritable s id ->
  0 < new_len ->
  (64 + new_len - 1) / 64 = lenN mids ->
  new_len < MINI_STREAM_CUTOFF ->
  exists s',
    resize id new_len s = (s', Ok tt) /\
    small_at s' id (set_start_len e (d_start e) new_len) ids mids
             (takeN new_len V ++ repeatN 0 (new_len - lenN V)) /\
    DirWritable s' id /\
    mini_frame s s' id ids mids.
Proof.
  intros s id e ids mids V new_len Hsm Hdw Hpos' Hceil Hcut'.
  pose proof (small_at_lenV _ _ _ _ _ _ Hsm) as HlenV. rewrite HlenV in *.
  destruct (small_at_start _ _ _ _ _ _ Hsm) as (Hne & Hst & Hk).
  destruct (ceil_bounds _ _ Hceil Hpos') as [Hub Hlb].
  pose proof Hsm as (Hnth & Ht & Hcut & Hpos & Hch & Hgm & Hle & HV).
  pose proof (good_mchain_len _ _ _ Hgm) as HCL.
  (* the bytes written by zero_fill *)
  set (zs := repeatN 0 (new_len - d_len e) : list byte).
  assert (Hzs : lenN zs = new_len - d_len e) by (unfold zs; apply lenN_repeatN).
  destruct (small_write_update s id e ids mids V (N.min (d_len e) new_len) zs new_len Hsm Hdw)
    as (s1 & s' & Hw & Hu & Hsm' & Hdw' & Hfr); try blia.
  assert (HVeq : takeN new_len (spliceN (mchain_content s ids mids) (N.min (d_len e) new_len) zs)
                 = takeN new_len V ++ repeatN 0 (new_len - d_len e)).
  { destruct (N.lt_ge_cases (d_len e) new_len) as [Hgrow|Hshr].
    - replace (N.min (d_len e) new_len) with (d_len e) by lia.
      replace new_len with (N.max (d_len e) (d_len e + lenN zs)) at 1 by blia.
      rewrite takeN_spliceN_gen by blia.
      rewrite <- HV. rewrite (takeN_all _ V) by blia.
      rewrite <- HlenV at 1. apply spliceN_at_end.
    - replace (N.min (d_len e) new_len) with new_len by lia.
      unfold zs. replace (new_len - d_len e) with 0 by lia.
      change (repeatN 0 0) with (@nil byte).
      rewrite spliceN_nil by blia. rewrite app_nil_r.
      rewrite HV. symmetry. apply takeN_takeN. exact Hshr. }
  exists s'. split; [|split; [|split; [exact Hdw' | exact Hfr]]].
  - unfold resize. sred.
    rewrite (stream_entry_ok s id e Hnth Ht). sred.
    assert (E0 : (MAX_REGULAR_SECTOR * slen s <? new_len) = false).
    { pose proof (ChainProofs.slen_pos s). apply N.ltb_ge. unfold MAX_REGULAR_SECTOR, MINI_STREAM_CUTOFF in *. nia. }
    rewrite E0. sred.
    rewrite (mask_check_false s new_len) by (apply small_fits_mask; lia). sred.
    assert (E2 : (d_start e =? END_OF_CHAIN) = false) by lia. rewrite E2.
    assert (E3 : (d_len e <? MINI_STREAM_CUTOFF) = true) by lia. rewrite E3.
    assert (E4 : (new_len =? 0) = false) by lia. rewrite E4.
    assert (E5 : (new_len <? MINI_STREAM_CUTOFF) = true) by lia. rewrite E5.
    rewrite (mchain_new_ok s _ mids Hch).
    rewrite (mchain_set_len_same s (mkMChain mids 0) new_len Hcut' Hpos' Hceil).
    unfold zero_fill_mchain.
    destruct (d_len e <? new_len) eqn:Egrow.
    + sred. rewrite (mchain_seek_ok s mids 0 (d_len e)) by lia.
      replace (N.min (d_len e) new_len) with (d_len e) in Hw by lia.
      fold zs. rewrite Hw.
      assert (E6 : negb (mchain_start (mkMChain mids (d_len e + lenN zs)) =? d_start e) = false).
      { unfold mchain_start in *. cbn [mc_ids] in *. rewrite Hst, N.eqb_refl. reflexivity. }
      rewrite E6. exact Hu.
    + sred.
      assert (E6 : negb (mchain_start (mkMChain mids 0) =? d_start e) = false).
      { rewrite Hst, N.eqb_refl. reflexivity. }
      rewrite E6.
      (* nothing is written: s1 = s *)
      assert (Hs1 : s1 = s).
      { replace zs with (@nil byte) in Hw
          by (unfold zs; replace (new_len - d_len e) with 0 by lia; reflexivity).
        unfold mchain_write_all in Hw. cbn [mchain_write_go] in Hw.
        unfold ret in Hw. injection Hw as <- _. reflexivity. }
      rewrite <- Hs1. exact Hu.
  - apply (small_at_V_eq _ _ _ _ _ _ _ Hsm'). exact HVeq.
Qed.

(* ------------------------------------------------------------------ *)
(* the named theorems                                                  *)
(* ------------------------------------------------------------------ *)

Lemma small_at_mini_sectors : forall s id e ids mids V,
  small_at s id e ids mids V -> mini_sectors s id (lenN mids).
Proof.
  intros s id e ids mids V (Hn & _ & _ & _ & Hch & _).
  exists e, mids. splits; [exact Hn | exact Hch | reflexivity].
Qed.

Lemma mini_sectors_small_at : forall s id e ids mids V k,
  small_at s id e ids mids V -> mini_sectors s id k -> lenN mids = k.
Proof.
  intros s id e ids mids V k (Hn & _ & _ & _ & Hch & _) (e2 & mids2 & Hn2 & Hch2 & Hk).
  rewrite Hn in Hn2. injection Hn2 as <-. rewrite Hch in Hch2. injection Hch2 as <-.
  exact Hk.
Qed.

(* M2 *)
Theorem write_data_small_inplace : forall s id V off buf,
  small_content s id V -> off + lenN buf <= lenN V -> DirWritable s id ->
  exists s', write_data id off buf s = (s', Ok tt) /\
             small_content s' id (spliceN V off buf).
Proof.
  intros s id V off buf (e & ids & mids & Hsm) Hfit Hdw.
  pose proof (small_at_lenV _ _ _ _ _ _ Hsm) as HlenV.
  pose proof Hsm as (_ & _ & Hcut & _ & _ & _ & Hle & _).
  destruct (write_data_small_full s id e ids mids V off buf Hsm Hdw)
    as (s' & Hrun & Hsm' & _); try blia.
  exists s'. split; [exact Hrun|]. eexists _, ids, mids. exact Hsm'.
Qed.

(* M3: the write ends beyond the current length but inside the last mini
   sector of the chain: the stream grows to off + |buf|, nothing is allocated *)
Theorem write_data_small_grow_within_chain : forall s id V k off buf,
  small_content s id V -> mini_sectors s id k -> DirWritable s id ->
  off <= lenN V -> lenN V < off + lenN buf ->
  off + lenN buf <= 64 * k -> off + lenN buf < MINI_STREAM_CUTOFF ->
  exists s', write_data id off buf s = (s', Ok tt) /\
             small_content s' id (spliceN V off buf) /\
             lenN (spliceN V off buf) = off + lenN buf /\
             mini_sectors s' id k /\
             no_alloc s s'.
Proof.
  intros s id V k off buf (e & ids & mids & Hsm) Hk Hdw Hoff Hgrow Hfit Hcut.
  pose proof (mini_sectors_small_at _ _ _ _ _ _ _ Hsm Hk) as Ek. subst k.
  destruct (write_data_small_full s id e ids mids V off buf Hsm Hdw)
    as (s' & Hrun & Hsm' & _ & Hfr); try blia.
  exists s'. split; [exact Hrun|]. split; [eexists _, ids, mids; exact Hsm'|].
  split; [rewrite lenN_spliceN; blia|].
  split; [exact (small_at_mini_sectors _ _ _ _ _ _ Hsm')|].
  destruct Hfr as (_ & _ & _ & _ & _ & _ & Hna). exact Hna.
Qed.

(* M4 (C08 core): growing inside the last mini sector gives zeros, with no
   hypothesis on what the tail of that mini sector held *)
Theorem resize_small_grow_zero_within_chain : forall s id V k new_len,
  small_content s id V -> mini_sectors s id k ->
  lenN V < new_len ->
  (64 + new_len - 1) / 64 = k ->
  new_len < MINI_STREAM_CUTOFF ->
  DirWritable s id ->
  exists s', resize id new_len s = (s', Ok tt) /\
             small_content s' id (V ++ repeatN 0 (new_len - lenN V)).
Proof.
  intros s id V k new_len (e & ids & mids & Hsm) Hk Hgrow Hceil Hcut Hdw.
  pose proof (mini_sectors_small_at _ _ _ _ _ _ _ Hsm Hk) as Ek. subst k.
  destruct (resize_small_full s id e ids mids V new_len Hsm Hdw)
    as (s' & Hrun & Hsm' & _); try blia.
  exists s'. split; [exact Hrun|]. eexists _, ids, mids.
  apply (small_at_V_eq _ _ _ _ _ _ _ Hsm').
  rewrite takeN_all by blia. reflexivity.
Qed.

(* M5 *)
Theorem resize_small_shrink_same_count : forall s id V k new_len,
  small_content s id V -> mini_sectors s id k ->
  new_len < lenN V -> 0 < new_len ->
  (64 + new_len - 1) / 64 = k ->
  DirWritable s id ->
  exists s', resize id new_len s = (s', Ok tt) /\
             small_content s' id (takeN new_len V).
Proof.
  intros s id V k new_len (e & ids & mids & Hsm) Hk Hshr Hpos Hceil Hdw.
  pose proof (mini_sectors_small_at _ _ _ _ _ _ _ Hsm Hk) as Ek. subst k.
  pose proof (small_at_lenV _ _ _ _ _ _ Hsm) as HlenV.
  pose proof Hsm as (_ & _ & Hcut & _).
  destruct (resize_small_full s id e ids mids V new_len Hsm Hdw)
    as (s' & Hrun & Hsm' & _); try blia.
  exists s'. split; [exact Hrun|]. eexists _, ids, mids.
  apply (small_at_V_eq _ _ _ _ _ _ _ Hsm').
  replace (new_len - lenN V) with 0 by blia.
  change (repeatN 0 0) with (@nil byte). apply app_nil_r.
Qed.

(* reading the zero tail back *)
Lemma read_zero_tail : forall s id (A : list byte) z,
  small_content s id (A ++ repeatN 0 z) -> 0 < z ->
  read_data id (lenN A) z s = (s, Ok (repeatN 0 z)).
Proof.
  intros s id A z Hsm Hz.
  assert (HL : lenN (A ++ repeatN 0 z) = lenN A + z)
    by (rewrite lenN_app, lenN_repeatN; reflexivity).
  rewrite (read_data_small s id (A ++ repeatN 0 z) (lenN A) z Hsm) by blia.
  rewrite HL. replace (N.min z (lenN A + z - lenN A)) with z by blia.
  rewrite dropN_app_ge by blia. replace (lenN A - lenN A) with 0 by blia.
  rewrite dropN_0. rewrite takeN_all by (rewrite lenN_repeatN; blia). reflexivity.
Qed.

(* M6: shrink then grow back (same number of mini sectors): the regained bytes
   are zeros, and read_data returns zeros for them *)
Theorem small_shrink_then_grow_zero : forall s id V k m,
  small_content s id V -> mini_sectors s id k -> DirWritable s id ->
  0 < m -> m < lenN V ->
  (64 + m - 1) / 64 = k -> (64 + lenN V - 1) / 64 = k ->
  exists s1 s2,
    resize id m s = (s1, Ok tt) /\
    resize id (lenN V) s1 = (s2, Ok tt) /\
    small_content s2 id (takeN m V ++ repeatN 0 (lenN V - m)) /\
    read_data id m (lenN V - m) s2 = (s2, Ok (repeatN 0 (lenN V - m))).
Proof.
  intros s id V k m (e & ids & mids & Hsm) Hk Hdw Hm0 Hm Hceil1 Hceil2.
  pose proof (mini_sectors_small_at _ _ _ _ _ _ _ Hsm Hk) as Ek. subst k.
  pose proof (small_at_lenV _ _ _ _ _ _ Hsm) as HlenV.
  pose proof Hsm as (_ & _ & Hcut & _).
  destruct (resize_small_full s id e ids mids V m Hsm Hdw)
    as (s1 & Hrun1 & Hsm1 & Hdw1 & _); try blia.
  assert (Hsm1' : small_at s1 id (set_start_len e (d_start e) m) ids mids (takeN m V)).
  { apply (small_at_V_eq _ _ _ _ _ _ _ Hsm1).
    replace (m - lenN V) with 0 by blia.
    change (repeatN 0 0) with (@nil byte). apply app_nil_r. }
  assert (HlenT : lenN (takeN m V) = m) by (rewrite lenN_takeN; blia).
  destruct (resize_small_full s1 id _ ids mids (takeN m V) (lenN V) Hsm1' Hdw1)
    as (s2 & Hrun2 & Hsm2 & _); try blia.
  assert (Hsc2 : small_content s2 id (takeN m V ++ repeatN 0 (lenN V - m))).
  { eexists _, ids, mids. apply (small_at_V_eq _ _ _ _ _ _ _ Hsm2).
    rewrite (takeN_all _ (takeN m V)) by blia. rewrite HlenT. reflexivity. }
  exists s1, s2. split; [exact Hrun1|]. split; [exact Hrun2|]. split; [exact Hsc2|].
  pose proof (read_zero_tail s2 id (takeN m V) (lenN V - m) Hsc2) as Hrd.
  rewrite HlenT in Hrd. apply Hrd. blia.
Qed.

(* M4, seen through read_data *)
Corollary resize_small_grow_reads_zero : forall s id V k new_len,
  small_content s id V -> mini_sectors s id k ->
  lenN V < new_len ->
  (64 + new_len - 1) / 64 = k ->
  new_len < MINI_STREAM_CUTOFF ->
  DirWritable s id ->
  exists s', resize id new_len s = (s', Ok tt) /\
             read_data id (lenN V) (new_len - lenN V) s'
             = (s', Ok (repeatN 0 (new_len - lenN V))) /\
             read_data id 0 (lenN V) s' = (s', Ok V).
Proof.
  intros s id V k new_len Hsm Hk Hgrow Hceil Hcut Hdw.
  destruct (resize_small_grow_zero_within_chain s id V k new_len Hsm Hk Hgrow Hceil Hcut Hdw)
    as (s' & Hrun & Hsm').
  exists s'. split; [exact Hrun|]. split.
  - apply read_zero_tail; [exact Hsm' | blia].
  - (* the old bytes are still there *)
    assert (HV0 : 0 < lenN V).
    { destruct Hsm as (e & ids & mids & H). rewrite (small_at_lenV _ _ _ _ _ _ H).
      destruct H as (_ & _ & _ & Hp & _). exact Hp. }
    assert (HL : lenN (V ++ repeatN 0 (new_len - lenN V)) = new_len)
      by (rewrite lenN_app, lenN_repeatN; blia).
    rewrite (read_data_small s' id _ 0 (lenN V) Hsm') by blia.
    rewrite HL, dropN_0, N.sub_0_r.
    replace (N.min (lenN V) new_len) with (lenN V) by blia.
    rewrite takeN_app_le by blia. rewrite takeN_all by blia. reflexivity.
Qed.

(* M7: operations on stream [id] that stay inside its mini chain never change
   another small stream [id'] (a different directory slot, no shared mini
   sector) *)
Theorem small_write_frame_other : forall s id id' V V' k,
  small_content s id V -> mini_sectors s id k -> DirWritable s id ->
  small_content s id' V' -> id' <> id -> mini_disjoint s id id' ->
  (forall off buf s',
     off <= lenN V -> off + lenN buf <= 64 * k ->
     off + lenN buf < MINI_STREAM_CUTOFF ->
     write_data id off buf s = (s', Ok tt) -> small_content s' id' V') /\
  (forall new_len s',
     0 < new_len -> (64 + new_len - 1) / 64 = k -> new_len < MINI_STREAM_CUTOFF ->
     resize id new_len s = (s', Ok tt) -> small_content s' id' V').
Proof.
  intros s id id' V V' k (e & ids & mids & Hsm) Hk Hdw (e' & ids' & mids' & Hsm') Hne
         (e0 & e0' & m0 & m0' & Hn0 & Hn0' & Hc0 & Hc0' & Hdisj).
  pose proof (mini_sectors_small_at _ _ _ _ _ _ _ Hsm Hk) as Ek. subst k.
  assert (ids' = ids).
  { destruct Hsm as (_ & _ & _ & _ & _ & (Hr & _) & _).
    destruct Hsm' as (_ & _ & _ & _ & _ & (Hr' & _) & _).
    exact (root_ids_fun s ids' ids Hr' Hr). }
  subst ids'.
  assert (m0 = mids /\ m0' = mids') as [-> ->].
  { destruct Hsm as (Hn & _ & _ & _ & Hch & _).
    destruct Hsm' as (Hn' & _ & _ & _ & Hch' & _).
    rewrite Hn in Hn0. injection Hn0 as <-. rewrite Hn' in Hn0'. injection Hn0' as <-.
    rewrite Hch in Hc0. injection Hc0 as <-. rewrite Hch' in Hc0'. injection Hc0' as <-.
    split; reflexivity. }
  split.
  - intros off buf s' Hoff Hfit Hcut Hrun.
    destruct (write_data_small_full s id e ids mids V off buf Hsm Hdw Hoff Hfit Hcut)
      as (s2 & Hrun2 & _ & _ & Hfr).
    rewrite Hrun in Hrun2. injection Hrun2 as <-.
    exists e', ids, mids'.
    exact (mini_frame_small_at s s' id ids mids id' e' mids' V' Hfr Hsm' Hne Hdisj).
  - intros new_len s' Hpos Hceil Hcut Hrun.
    destruct (resize_small_full s id e ids mids V new_len Hsm Hdw Hpos Hceil Hcut)
      as (s2 & Hrun2 & _ & _ & Hfr).
    rewrite Hrun in Hrun2. injection Hrun2 as <-.
    exists e', ids, mids'.
    exact (mini_frame_small_at s s' id ids mids id' e' mids' V' Hfr Hsm' Hne Hdisj).
Qed.

(* ------------------------------------------------------------------ *)
(* non-vacuity: a state produced by the model itself                   *)
(* ------------------------------------------------------------------ *)
From Cfb.model Require Cfb.

Module Example.
  Definition bytes100 : list byte := map (fun i => N.of_nat i + 1) (seq 0 100).

  (* create "/a", write 100 bytes through the handle, drop the handle *)
  Definition run : Cfb.fstate * list (res Cfb.value) :=
    let f0 := Cfb.init_fstate V3 4096 4 in
    let '(f1, r1) := Cfb.step f0 0 (Cfb.OCreateStream 0 [47; 97]) in
    let '(f2, r2) := Cfb.step f1 0 (Cfb.OHWrite 0 bytes100) in
    let '(f3, r3) := Cfb.step f2 0 (Cfb.OHDrop 0) in
    (f3, [r1; r2; r3]).

  Definition st : cstate := Eval vm_compute in Cfb.cs (fst run).

  Example run_ok : snd run = [Ok Cfb.VUnit; Ok (Cfb.VNum 100); Ok Cfb.VUnit]
                   /\ Cfb.cs (fst run) = st.
  Proof. split; vm_compute; reflexivity. Qed.

  (* by computation: the stream (directory slot 1) holds the 100 bytes; after
     100 -> 70 -> 100 it holds the first 70 bytes followed by 30 zeros *)
  Example read_100 : read_data 1 0 100 st = (st, Ok bytes100).
  Proof. vm_compute. reflexivity. Qed.

  Example shrink_grow_computed :
    let '(s1, r1) := resize 1 70 st in
    let '(s2, r2) := resize 1 100 s1 in
    r1 = Ok tt /\ r2 = Ok tt /\
    snd (read_data 1 0 100 s2) = Ok (takeN 70 bytes100 ++ repeatN 0 30).
  Proof. vm_compute. repeat split. Qed.

  (* the hypotheses of the theorems hold of this state *)
  Ltac decide_goal := vm_compute; first [reflexivity | discriminate | (intro; discriminate)].

  Example ex_good_root : good_chain st [3].
  Proof.
    unfold good_chain. splits.
    - repeat constructor. intros [].
    - repeat constructor; decide_goal.
    - decide_goal.
    - decide_goal.
  Qed.

  Example ex_small_content : small_content st 1 bytes100.
  Proof.
    eexists _, [3], [0; 1]. unfold small_at. splits.
    - vm_compute. reflexivity.
    - reflexivity.
    - decide_goal.
    - decide_goal.
    - decide_goal.
    - unfold good_mchain. splits.
      + eexists. split; vm_compute; reflexivity.
      + exact ex_good_root.
      + repeat constructor; cbn; intuition discriminate.
      + repeat constructor; decide_goal.
    - decide_goal.
    - vm_compute. reflexivity.
  Qed.

  Example ex_mini_sectors : mini_sectors st 1 2.
  Proof. eexists _, [0; 1]. splits; vm_compute; reflexivity. Qed.

  Example ex_dir_writable : DirWritable st 1.
  Proof.
    eexists _, [1]. splits.
    - vm_compute. reflexivity.
    - decide_goal.
    - decide_goal.
    - unfold good_chain. splits.
      + repeat constructor. intros [].
      + repeat constructor; decide_goal.
      + decide_goal.
      + decide_goal.
    - decide_goal.
    - intros ids (r & Hr & Hc). vm_compute in Hr. injection Hr as <-.
      vm_compute in Hc. injection Hc as <-.
      intros x [<-|[]] [E|[]]. discriminate.
  Qed.

  (* hence M6 applies: 100 -> 70 -> 100 with 2 mini sectors *)
  Example shrink_grow_by_theorem :
    exists s1 s2,
      resize 1 70 st = (s1, Ok tt) /\
      resize 1 100 s1 = (s2, Ok tt) /\
      small_content s2 1 (takeN 70 bytes100 ++ repeatN 0 30) /\
      read_data 1 70 30 s2 = (s2, Ok (repeatN 0 30)).
  Proof.
    exact (small_shrink_then_grow_zero st 1 bytes100 2 70
             ex_small_content ex_mini_sectors ex_dir_writable
             eq_refl eq_refl eq_refl eq_refl).
  Qed.
End Example.

(* ------------------------------------------------------------------ *)
Check read_data_small.
Check write_data_small_inplace.
Check write_data_small_grow_within_chain.
Check resize_small_grow_zero_within_chain.
Check resize_small_shrink_same_count.
Check small_shrink_then_grow_zero.
Check small_write_frame_other.
Check write_data_small_full.
Check resize_small_full.
Check resize_small_grow_reads_zero.
Print Assumptions read_data_small.
Print Assumptions write_data_small_inplace.
Print Assumptions write_data_small_grow_within_chain.
Print Assumptions resize_small_grow_zero_within_chain.
Print Assumptions resize_small_shrink_same_count.
Print Assumptions small_shrink_then_grow_zero.
Print Assumptions small_write_frame_other.
Print Assumptions resize_small_grow_reads_zero.
Print Assumptions Example.shrink_grow_by_theorem.
Print Assumptions Example.shrink_grow_computed.
