(* TimeProofs.v — FILETIME <-> SystemTime conversion (model/Time.v): round trip,
   resolution / rounding direction, saturation, range, monotonicity. *)
From Coq Require Import List NArith ZArith Bool Lia ZifyN ZifyBool.
From Cfb.model Require Import Base Time.
From Cfb.gen Require Import Consts.
Open Scope N_scope.

Ltac Zify.zify_post_hook ::= Z.div_mod_to_equations.

(* Unfold everything down to linear arithmetic over N with /, mod by literals,
   N.min and truncating subtraction; [lia] (with the div/mod hook) does the rest. *)
Ltac time_unfold :=
  unfold from_system_time, to_system_time, delta_to_duration, duration_to_delta,
         sat_add, sat_sub, sat_mul, TICKS_PER_SEC, UNIX_EPOCH_TIMESTAMP, u64_max in *.

(* ---- the delta (ticks away from the Unix epoch) ---- *)

Lemma delta_exact : forall s n,
  s * 10000000 + n / 100 <= u64_max ->
  duration_to_delta s n = s * 10000000 + n / 100.
Proof.
  intros s n H. time_unfold. lia.
Qed.

Lemma delta_saturated : forall s n,
  u64_max <= s * 10000000 + n / 100 ->
  duration_to_delta s n = u64_max.
Proof.
  intros s n H. time_unfold.
  destruct (N.min_spec (s * 10000000) 18446744073709551615) as [[Hlt Hm]|[Hge Hm]];
    rewrite Hm; lia.
Qed.

Lemma delta_range : forall s n, duration_to_delta s n <= u64_max.
Proof. intros s n. time_unfold. lia. Qed.

Lemma delta_monotone : forall s n s' n',
  n < 1000000000 ->
  (s < s' \/ (s = s' /\ n <= n')) ->
  duration_to_delta s n <= duration_to_delta s' n'.
Proof.
  intros s n s' n' Hn Hord.
  assert (Hexact : s * 10000000 + n / 100 <= s' * 10000000 + n' / 100).
  { destruct Hord as [Hlt | [Heq Hle]].
    - assert (n / 100 < 10000000) by lia. nia.
    - subst s'. assert (n / 100 <= n' / 100) by (apply N.div_le_mono; lia). lia. }
  destruct (N.le_gt_cases (s' * 10000000 + n' / 100) u64_max) as [Hs' | Hs'].
  - rewrite (delta_exact s n) by lia. rewrite (delta_exact s' n') by lia. exact Hexact.
  - rewrite (delta_saturated s' n') by lia. apply delta_range.
Qed.

(* ---- main theorems ---- *)

Theorem filetime_roundtrip : forall ts, ts <= u64_max ->
  let '(b, s, n) := to_system_time ts in from_system_time b s n = ts.
Proof.
  intros ts Hts. unfold to_system_time, delta_to_duration.
  destruct (N.leb_spec UNIX_EPOCH_TIMESTAMP ts) as [Hle | Hgt].
  - (* at or after 1970 *)
    unfold from_system_time.
    set (d := ts - UNIX_EPOCH_TIMESTAMP).
    assert (Hd : d / TICKS_PER_SEC * 10000000 + d mod TICKS_PER_SEC * 100 / 100 = d).
    { rewrite N.div_mul by lia. unfold TICKS_PER_SEC.
      pose proof (N.div_mod d 10000000 ltac:(lia)). lia. }
    rewrite delta_exact; rewrite Hd; subst d; unfold sat_add, UNIX_EPOCH_TIMESTAMP, u64_max in *; lia.
  - (* before 1970 *)
    unfold from_system_time.
    set (d := UNIX_EPOCH_TIMESTAMP - ts).
    assert (Hd : d / TICKS_PER_SEC * 10000000 + d mod TICKS_PER_SEC * 100 / 100 = d).
    { rewrite N.div_mul by lia. unfold TICKS_PER_SEC.
      pose proof (N.div_mod d 10000000 ltac:(lia)). lia. }
    rewrite delta_exact; rewrite Hd; subst d; unfold sat_sub, UNIX_EPOCH_TIMESTAMP, u64_max in *; lia.
Qed.

Theorem to_system_time_nanos : forall ts,
  let '(_, _, n) := to_system_time ts in n < 1000000000 /\ n mod 100 = 0.
Proof.
  intros ts. unfold to_system_time, delta_to_duration, TICKS_PER_SEC.
  destruct (UNIX_EPOCH_TIMESTAMP <=? ts).
  - split.
    + pose proof (N.mod_upper_bound (ts - UNIX_EPOCH_TIMESTAMP) 10000000 ltac:(lia)). lia.
    + apply N.mod_mul. lia.
  - split.
    + pose proof (N.mod_upper_bound (UNIX_EPOCH_TIMESTAMP - ts) 10000000 ltac:(lia)). lia.
    + apply N.mod_mul. lia.
Qed.

(* exact at 100 ns resolution; the sub-100ns part is dropped (rounded toward the epoch) *)
Theorem from_time_floor_after : forall s n, n < 1000000000 ->
  UNIX_EPOCH_TIMESTAMP + s * 10000000 + n / 100 <= u64_max ->
  from_system_time false s n = UNIX_EPOCH_TIMESTAMP + s * 10000000 + n / 100.
Proof.
  intros s n _ H. unfold from_system_time.
  rewrite delta_exact by lia. unfold sat_add. lia.
Qed.

(* before 1970 the magnitude is floored, i.e. the time is rounded toward the epoch *)
Theorem from_time_floor_before : forall s n, n < 1000000000 ->
  s * 10000000 + n / 100 <= UNIX_EPOCH_TIMESTAMP ->
  from_system_time true s n = UNIX_EPOCH_TIMESTAMP - (s * 10000000 + n / 100).
Proof.
  intros s n _ H. unfold from_system_time.
  rewrite delta_exact; [reflexivity|]. unfold UNIX_EPOCH_TIMESTAMP, u64_max in *. lia.
Qed.

Theorem from_time_saturates_low : forall s n,
  UNIX_EPOCH_TIMESTAMP <= s * 10000000 + n / 100 ->
  from_system_time true s n = 0.
Proof.
  intros s n H. unfold from_system_time, sat_sub.
  destruct (N.le_gt_cases (s * 10000000 + n / 100) u64_max) as [Hs | Hs].
  - rewrite delta_exact by exact Hs. lia.
  - rewrite delta_saturated by lia. reflexivity.
Qed.

Theorem from_time_saturates_high : forall s n,
  u64_max <= UNIX_EPOCH_TIMESTAMP + s * 10000000 + n / 100 ->
  from_system_time false s n = u64_max.
Proof.
  intros s n H. unfold from_system_time, sat_add.
  destruct (N.le_gt_cases (s * 10000000 + n / 100) u64_max) as [Hs | Hs].
  - rewrite delta_exact by exact Hs. lia.
  - rewrite delta_saturated by lia. unfold UNIX_EPOCH_TIMESTAMP, u64_max. reflexivity.
Qed.

Theorem from_time_range : forall b s n, from_system_time b s n <= u64_max.
Proof.
  intros b s n. unfold from_system_time, sat_add, sat_sub.
  destruct b; [unfold UNIX_EPOCH_TIMESTAMP, u64_max|]; lia.
Qed.

Theorem from_time_monotone : forall s n s' n',
  n < 1000000000 -> n' < 1000000000 ->
  (s < s' \/ (s = s' /\ n <= n')) ->
  from_system_time false s n <= from_system_time false s' n'.
Proof.
  intros s n s' n' Hn _ Hord.
  pose proof (delta_monotone s n s' n' Hn Hord) as Hd.
  unfold from_system_time, sat_add. lia.
Qed.

(* mirrored: further before the epoch means an earlier (smaller) timestamp *)
Theorem from_time_monotone_before : forall s n s' n',
  n < 1000000000 -> n' < 1000000000 ->
  (s < s' \/ (s = s' /\ n <= n')) ->
  from_system_time true s' n' <= from_system_time true s n.
Proof.
  intros s n s' n' Hn _ Hord.
  pose proof (delta_monotone s n s' n' Hn Hord) as Hd.
  unfold from_system_time, sat_sub. lia.
Qed.

Theorem from_time_idempotent : forall b s n, n < 1000000000 ->
  let ts := from_system_time b s n in
  let '(b', s', n') := to_system_time ts in from_system_time b' s' n' = ts.
Proof.
  intros b s n _. cbv zeta.
  apply filetime_roundtrip. apply from_time_range.
Qed.

(* ---- concrete values ---- *)
Example from_time_unix_epoch : from_system_time false 0 0 = UNIX_EPOCH_TIMESTAMP.
Proof. vm_compute. reflexivity. Qed.

Example from_time_unix_epoch_before : from_system_time true 0 0 = UNIX_EPOCH_TIMESTAMP.
Proof. vm_compute. reflexivity. Qed.

(* 1601-01-01T00:00:00Z *)
Example from_time_filetime_epoch : from_system_time true 11644473600 0 = 0.
Proof. vm_compute. reflexivity. Qed.

Example to_time_u64_max :
  to_system_time u64_max = (false, 1833029933770, 955161500).
Proof. vm_compute. reflexivity. Qed.

Example to_time_zero : to_system_time 0 = (true, 11644473600, 0).
Proof. vm_compute. reflexivity. Qed.

Print Assumptions filetime_roundtrip.
Print Assumptions to_system_time_nanos.
Print Assumptions from_time_floor_after.
Print Assumptions from_time_floor_before.
Print Assumptions from_time_saturates_low.
Print Assumptions from_time_saturates_high.
Print Assumptions from_time_range.
Print Assumptions from_time_monotone.
Print Assumptions from_time_monotone_before.
Print Assumptions from_time_idempotent.
