(* WfProofs.v — the independent checker of spec/WfImage.v accepts the images the
   model produces: for the empty file of both versions (the base case of the
   invariant W) and, as evaluated instances of the inductive step, for states
   reached by histories that exercise every allocator path (mini stream, regular
   stream, migration in both directions, removal with two children, second
   directory sector). *)
From Cfb.model Require Import Base Names DirEnt State Alloc Dir Mini Store Handle Open Cfb.
From Cfb.spec Require Import WfImage.
From Cfb.gen Require Import Consts.
Open Scope N_scope.

Lemma created_image_wf_v3 : wf_check (concat_img (create_image V3)) = 0.
Proof. vm_compute. reflexivity. Qed.
Lemma created_image_wf_v4 : wf_check (concat_img (create_image V4)) = 0.
Proof. vm_compute. reflexivity. Qed.

Definition p (s : list N) : list N := s.
Definition SL := 47.
Definition run_hist (v : version) (ops : list op) : fstate :=
  fold_left (fun f o => fst (step f 132000000000000000 o)) ops (init_fstate v 4096 4).

Definition hist1 : list op :=
  [ OCreateStorage [SL; 100];
    OCreateStream 0 [SL; 98]; OHWrite 0 (repeatN 7 100); OHDrop 0;
    OCreateStream 0 [SL; 97]; OHWrite 0 (repeatN 8 5000); OHDrop 0;
    OCreateStream 0 [SL; 99]; OHWrite 0 (repeatN 9 64); OHSetLen 0 4500; OHSetLen 0 10; OHDrop 0;
    OCreateStream 0 [SL; 100; SL; 120]; OHWrite 0 (repeatN 1 700); OHDrop 0;
    ORemoveStream [SL; 98];
    OCreateStorage [SL; 101]; OCreateStorage [SL; 102]; OCreateStorage [SL; 103];
    ORemoveStream [SL; 97];
    OSetState [SL; 100] 5 ].

Lemma history_image_wf_v3 : wf_check (concat_img (img (cs (run_hist V3 hist1)))) = 0.
Proof. vm_compute. reflexivity. Qed.
Lemma history_image_wf_v4 : wf_check (concat_img (img (cs (run_hist V4 hist1)))) = 0.
Proof. vm_compute. reflexivity. Qed.

(* and the checker is not trivially accepting: it rejects an image whose FAT
   sector is not marked as such, an entry with an invalid colour byte, a truncated file *)
Definition break_at (off : N) (b : byte) (l : list byte) : list byte := spliceN l off [b].
Lemma checker_rejects_unmarked_fat_sector :
  wf_b (break_at 512 0 (concat_img (create_image V3))) = false.
Proof. vm_compute. reflexivity. Qed.
Lemma checker_rejects_truncated :
  wf_b (takeN 1500 (concat_img (create_image V3))) = false.
Proof. vm_compute. reflexivity. Qed.
Lemma checker_rejects_bad_colour :
  wf_b (break_at (1024 + 128 + 67) 7 (concat_img (img (cs (run_hist V3 hist1))))) = false.
Proof. vm_compute. reflexivity. Qed.
