(* DataFrame.v -- property C07 (and the content half of C01) in EVERY store
   case: an operation through a stream handle, or the removal of a stream,
   leaves the content of every OTHER stream exactly as it was, also when
   sectors or mini sectors are allocated or freed and when the stream moves
   across the 4096-byte cutoff.

   HandleFrame.v proves the table frame unconditionally and the content frame
   only for the store cases that allocate and free nothing ([covered_op]).
   DataPersist2.v has the run equations of all the other cases (the 11
   [ResizeCase]s, the 6 [WriteCase]s, the removals); each concludes
   [SA.others_kept].  This file collects them:

     1   [resize_case_frames], [write_case_frames]: one uniform statement per
         store call -- the call succeeds, CohTree is kept, every other stream
         keeps its content ([others_content_kept], over [stream_content], empty
         streams with a stale start sector included), the stream itself holds
         [resized V n] / [spliceN V off buf];
     2   [hop_run_frames_full], [handle_op_frames_others_full]: every handle
         operation in every case of [covered_op2];
     3   [handle_op_tree_full]: the abstract tree after the operation is the
         tree before with the one leaf replaced;
     4   [remove_stream_frames_full], [remove_stream_tree_full]: removal of a
         stream with data;
     5   [step_frames_full], [data_history_frames], [data_history_frames_prefix]:
         a stream that no operation of a covered history ([hist_ok2]) addresses
         keeps its content through the history, in the cache and on disk;
     6   [flush_changes_full], [flush_frames_full], [drop_frames_full],
         [setlen_frames_full] and the trees [setlen_tree_full], [flush_tree_full],
         [drop_tree_full]: the stream of the handle itself holds what the model
         predicts ([absV h V], [resized (absV h V) n]) in every case;
     7   [step_entry_frames], [data_history_entry_frames]: the entry of an
         unaddressed stream keeps name, type, start, length, CLSID, state bits,
         timestamps; [reopen_tree_full]; [data_history_tree_leaf];
     8   [handle_op_own_full] (the stream of the handle after ANY handle
         operation: [own_after]), [handle_op_refines_full], [step_refines_full],
         [data_history_refines]: the table represents, with the real content
         relation, the tree obtained by the model's predictions along any
         history of [hist_ok2] whose handles are live ([hist_live]);
     9   Examples on the histories of DataPersist2's Example4 (growth at the
         end of the file, release, removal, reopen) and Example6 (both
         migrations, first write to an empty stream, reopen).
   Stdlib only; no axioms; every proof is complete. *)
From Coq Require Import List NArith ZArith Lia Bool ZifyN ZifyBool Permutation.
From Cfb.model Require Import Base Names Time DirEnt State Alloc Dir Mini Store Handle Open Cfb.
From Cfb.gen Require Import Consts.
From Cfb.proofs Require Import DirProofs ChainProofs.
From Cfb.proofs Require CodecProofs WalkProofs ReuseProofs CoherenceProofs DirCoherence
                        ReopenProofs MutRefine PersistProofs StoreProofs StoreMiniProofs
                        MiniChainProofs HandleFrame TimeProofs QueryRefine StoreAlloc DataPersist
                        TreeProofs WalkSafe ReadonlyTotal.
From Cfb.proofs Require Import DataPersist2.
From Cfb.spec Require Tree.
Import ListNotations.
Open Scope N_scope.

Ltac Zify.zify_post_hook ::= Z.div_mod_to_equations.

Import ReopenProofs PersistProofs.
Import ReuseProofs StoreProofs MiniChainProofs StoreMiniProofs HandleFrame.
Import DataPersist.

(* ================================================================== *)
(* 0. small facts                                                      *)
(* ================================================================== *)

(* every stream other than [id], of any size, keeps its content *)
Definition others_content_kept (s s' : cstate) (id : N) : Prop :=
  forall j V, j <> id -> stream_content s j V -> stream_content s' j V.

Lemma ock_refl : forall id s, others_content_kept s s id.
Proof. intros id s j V _ H. exact H. Qed.

Lemma ock_trans : forall id a b c,
  others_content_kept a b id -> others_content_kept b c id -> others_content_kept a c id.
Proof. intros id a b c H1 H2 j V Hj H. apply H2; [exact Hj|]. apply H1; assumption. Qed.

Lemma cohdata'_root : forall s, CohData' s ->
  exists r, nthN (dirs s) ROOT_STREAM_ID = Some r /\ d_type r <> TStream.
Proof.
  intros s [_ (r & rids & mfids & dids & [SW _]) _ _].
  pose proof (SA.sw_m _ _ _ _ _ _ SW) as W. exists r.
  split; [exact (SA.mw_root _ _ _ _ _ W)|exact (SA.mw_rtype _ _ _ _ _ W)].
Qed.

(* [SA.others_kept] speaks of large, small and END_OF_CHAIN-empty streams;
   together with the unconditional table frame it gives every other
   [stream_content] (an empty stream is an entry of length 0 whatever its
   start sector says) *)
Lemma others_kept_content : forall s s' id,
  CohData' s -> SA.others_kept s s' id -> DF (PR id) (dirs s) (dirs s') ->
  others_content_kept s s' id.
Proof.
  intros s s' id HCD (K1 & K2 & K3) HDF j V Hj [HB|[HS|(e & He & Ht & Hl & ->)]].
  - left. exact (K2 j V Hj HB).
  - right; left. exact (K1 j V Hj HS).
  - right; right. exists e. split; [|auto].
    destruct (cohdata'_root s HCD) as (r & Hr & Hrt).
    assert (Hjr : j <> ROOT_STREAM_ID) by (intros ->; rewrite Hr in He; injection He as <-; congruence).
    rewrite (DF_other (PR id) (dirs s) (dirs s') j HDF); [exact He|].
    unfold PR. apply orb_false_iff. split; apply N.eqb_neq; assumption.
Qed.

Lemma empty_stream_content : forall s id, SA.empty_stream s id -> stream_content s id [].
Proof.
  intros s id (e & He & Ht & _ & Hl). right; right. exists e. auto.
Qed.

Lemma resized_grow : forall (V : list byte) n, lenN V <= n -> resized V n = V ++ repeatN 0 (n - lenN V).
Proof. intros V n H. unfold resized. rewrite ChainProofs.takeN_all by exact H. reflexivity. Qed.

Lemma resized_cut : forall (V : list byte) n, n <= lenN V -> resized V n = takeN n V.
Proof.
  intros V n H. unfold resized. replace (n - lenN V) with 0 by lia.
  rewrite CodecProofs.repeatN_0. apply app_nil_r.
Qed.

Lemma resized_nil : forall n, resized [] n = repeatN 0 n.
Proof.
  intros n. unfold resized. cbn [takeN app]. change (lenN (@nil byte)) with 0.
  f_equal. lia.
Qed.

Lemma resized_zero : forall V : list byte, resized V 0 = [].
Proof.
  intros V. unfold resized. rewrite ChainProofs.takeN_0. cbn [app].
  replace (0 - lenN V) with 0 by lia. apply CodecProofs.repeatN_0.
Qed.

Lemma splice_nil : forall buf : list byte, spliceN [] 0 buf = buf.
Proof.
  intros buf. unfold spliceN. cbv zeta. rewrite ChainProofs.takeN_0.
  change (lenN (@nil byte)) with 0. cbn [N.sub]. rewrite CodecProofs.repeatN_0.
  cbn [dropN app]. apply app_nil_r.
Qed.

Lemma big_len_cap : forall s id V ids, big_content s id V -> stream_ids s id ids ->
  lenN V <= slen s * lenN ids.
Proof.
  intros s id V ids HB (e' & He' & _ & Hc').
  pose proof HB as (e & ids0 & He & _ & _ & Hc & _ & Hcap & _).
  rewrite (big_content_len s id V e HB He).
  assert (e' = e) by congruence. subst e'. assert (ids0 = ids) by congruence. subst ids0. exact Hcap.
Qed.

(* ================================================================== *)
(* 1. one store call, every case                                       *)
(* ================================================================== *)

(* what one store call on stream [id] does, in one statement: the invariant,
   every other stream, the stream itself ([f V] = the new content when [V]
   was the old one) *)
Definition call_frames (s s' : cstate) (id : N) (f : list byte -> list byte) : Prop :=
  CohData' s' /\ (TreePart s -> TreePart s') /\
  SA.others_kept s s' id /\ others_content_kept s s' id /\
  (forall V, stream_content s id V -> stream_content s' id (f V)).

Theorem resize_case_frames_d : forall s id n,
  CohData' s -> ResizeCase s id n ->
  exists s', resize id n s = (s', Ok tt) /\ call_frames s s' id (fun V => resized V n).
Proof.
  intros s id n HCD HR.
  assert (Hfin : forall s' V0 W, resize id n s = (s', Ok tt) -> CohData' s' -> (TreePart s -> TreePart s') ->
            SA.others_kept s s' id -> stream_content s id V0 -> stream_content s' id W ->
            W = resized V0 n ->
            exists s', resize id n s = (s', Ok tt) /\ call_frames s s' id (fun V => resized V n)).
  { intros s' V0 W R C T K H0 H1 EW. exists s'. split; [exact R|].
    split; [exact C|]. split; [exact T|]. split; [exact K|]. split.
    - apply others_kept_content; [exact HCD|exact K|].
      pose proof (framesR_resize id n s) as D. rewrite R in D. exact D.
    - intros V HV. rewrite (stream_content_fun s id V V0 HV H0). rewrite <- EW. exact H1. }
  destruct HR as [(V & ids & HB & Hsi & H1 & H2 & H3 & H4)|
                 [(V & ids & base & nw & HB & Hsi & H1 & H2 & H3 & H4 & H5)|
                 [(V & ids & k & H0 & H1 & H2 & HB & Hsi & H3 & H4 & H5 & H6 & H7)|
                 [(V & ids & HB & Hsi & H1 & H2 & H3)|
                 [(V & k & Hsc & Hk & H1 & H2 & H3 & H4 & H5)|
                 [(He & H1 & H2 & H3 & H4)|
                 [(base & nw & He & H1 & H2 & H3 & H4 & H5)|
                 [(V & Hsc & H1 & H2 & H3 & H4)|
                 [(V & HB & H1 & H2 & H3 & H4)|
                 [(V & ids & HB & Hsi & ->)|
                  (V & Hsc & ->)]]]]]]]]]].
  - destruct (resize_big_same_cohdata' s id V ids n HCD HB Hsi H1 H2 H3 H4) as (s' & R & C & B' & _ & _ & _ & K & T).
    exact (Hfin s' V _ R C T K (or_introl HB) (or_introl B') eq_refl).
  - destruct (resize_big_reuse_cohdata' s id V ids n base nw HCD HB Hsi H1 H2 H3 H4 H5)
      as (s' & R & C & _ & _ & B' & _ & _ & _ & K & T).
    apply (Hfin s' V _ R C T K (or_introl HB) (or_introl B')).
    symmetry. apply resized_grow. pose proof (big_len_cap s id V ids HB Hsi). lia.
  - destruct (resize_big_append_cohdata' s id V ids n k HCD H0 H1 H2 HB Hsi H3 H4 H5 H6 H7)
      as (s' & R & C & _ & _ & B' & _ & _ & _ & K & T).
    apply (Hfin s' V _ R C T K (or_introl HB) (or_introl B')).
    symmetry. apply resized_grow. pose proof (big_len_cap s id V ids HB Hsi). lia.
  - destruct (resize_big_release_cohdata' s id V ids n HCD HB Hsi H1 H2 H3)
      as (s' & R & C & _ & _ & B' & _ & _ & _ & K & T).
    apply (Hfin s' V _ R C T K (or_introl HB) (or_introl B')).
    symmetry. apply resized_cut. exact H2.
  - destruct (resize_small_alloc_cohdata' s id V k n HCD Hsc Hk H1 H2 H3 H4 H5)
      as (s' & R & C & _ & _ & S' & _ & K & T).
    exact (Hfin s' V _ R C T K (or_intror (or_introl Hsc)) (or_intror (or_introl S')) eq_refl).
  - destruct (resize_empty_small_cohdata' s id n HCD He H1 H2 H3 H4)
      as (s' & R & C & _ & _ & S' & _ & K & T).
    apply (Hfin s' [] _ R C T K (empty_stream_content s id He) (or_intror (or_introl S'))).
    symmetry. apply resized_nil.
  - destruct (resize_empty_big_cohdata' s id n base nw HCD He H1 H2 H3 H4 H5)
      as (s' & R & C & _ & _ & B' & _ & _ & K & T).
    apply (Hfin s' [] _ R C T K (empty_stream_content s id He) (or_introl B')).
    symmetry. apply resized_nil.
  - destruct (resize_small_to_big_cohdata' s id V n HCD Hsc H1 H2 H3 H4)
      as (s' & R & C & _ & _ & B' & _ & K & T).
    apply (Hfin s' V _ R C T K (or_intror (or_introl Hsc)) (or_introl B')).
    symmetry. apply resized_grow.
    destruct Hsc as (e & rids & mids & Hsm). pose proof (small_at_lenV _ _ _ _ _ _ Hsm) as HL.
    destruct Hsm as (_ & _ & Hcut & _). lia.
  - destruct (resize_big_to_small_cohdata' s id V n HCD HB H1 H2 H3 H4)
      as (s' & R & C & _ & _ & S' & _ & K & T).
    apply (Hfin s' V _ R C T K (or_introl HB) (or_intror (or_introl S'))).
    symmetry. apply resized_cut. pose proof (SA.big_content_len_ge s id V HB). lia.
  - destruct (resize_big_to_zero_cohdata' s id V ids HCD HB Hsi)
      as (s' & R & C & _ & _ & E' & _ & _ & K & T).
    apply (Hfin s' V _ R C T K (or_introl HB) (empty_stream_content s' id E')).
    symmetry. apply resized_zero.
  - destruct (resize_small_to_zero_cohdata' s id V HCD Hsc)
      as (s' & R & C & _ & _ & E' & _ & _ & _ & K & T).
    apply (Hfin s' V _ R C T K (or_intror (or_introl Hsc)) (empty_stream_content s' id E')).
    symmetry. apply resized_zero.
Qed.

Theorem write_case_frames_d : forall s id off buf,
  CohData' s -> WriteCase s id off buf ->
  exists s', write_data id off buf s = (s', Ok tt) /\ call_frames s s' id (fun V => spliceN V off buf).
Proof.
  intros s id off buf HCD HW.
  assert (Hfin : forall s' V0 W, write_data id off buf s = (s', Ok tt) -> CohData' s' -> (TreePart s -> TreePart s') ->
            SA.others_kept s s' id -> stream_content s id V0 -> stream_content s' id W ->
            W = spliceN V0 off buf ->
            exists s', write_data id off buf s = (s', Ok tt) /\ call_frames s s' id (fun V => spliceN V off buf)).
  { intros s' V0 W R C T K H0 H1 EW. exists s'. split; [exact R|].
    split; [exact C|]. split; [exact T|]. split; [exact K|]. split.
    - apply others_kept_content; [exact HCD|exact K|].
      pose proof (framesR_write_data id off buf s) as D. rewrite R in D. exact D.
    - intros V HV. rewrite (stream_content_fun s id V V0 HV H0). rewrite <- EW. exact H1. }
  destruct HW as [(HC & HL)|
                 [(V & k & Hsc & Hk & H1 & H2 & H3 & H4)|
                 [(He & -> & H1 & H2 & H3 & H4)|
                 [(He & -> & H1 & H2 & H3)|
                 [(V & Hsc & H1 & H2 & H3 & H4)|
                  (V & ids & HB & Hsi & H1 & H2 & H3)]]]]].
  - destruct HC as [(V & ids & HB & Hsi & Hoff & Hfit & Hbounds)|(e & rids & mids & V & Hsm & Hoff & Hfit & Hcut)].
    + destruct (write_big_cohdata' s id V ids off buf HCD HB Hsi Hoff Hfit Hbounds) as (s' & R & C & B' & K & T).
      exact (Hfin s' V _ R C T K (or_introl HB) (or_introl B') eq_refl).
    + destruct (write_small_cohdata' s id e rids mids V off buf HCD Hsm Hoff Hfit Hcut) as (s' & R & C & S' & K & T).
      refine (Hfin s' V _ R C T K (or_intror (or_introl _)) (or_intror (or_introl S')) eq_refl).
      exists e, rids, mids. exact Hsm.
  - destruct (write_small_alloc_cohdata' s id V k off buf HCD Hsc Hk H1 H2 H3 H4)
      as (s' & R & C & _ & _ & S' & _ & K & T).
    exact (Hfin s' V _ R C T K (or_intror (or_introl Hsc)) (or_intror (or_introl S')) eq_refl).
  - destruct (write_empty_small_cohdata' s id buf HCD He H1 H2 H3 H4)
      as (s' & R & C & _ & _ & S' & _ & K & T).
    apply (Hfin s' [] _ R C T K (empty_stream_content s id He) (or_intror (or_introl S'))).
    symmetry. apply splice_nil.
  - destruct (write_empty_big_cohdata' s id buf HCD He H1 H2 H3)
      as (s' & R & C & _ & _ & B' & _ & K & T).
    apply (Hfin s' [] _ R C T K (empty_stream_content s id He) (or_introl B')).
    symmetry. apply splice_nil.
  - destruct (write_small_to_big_cohdata' s id V off buf HCD Hsc H1 H2 H3 H4)
      as (s' & R & C & _ & _ & B' & _ & K & T).
    exact (Hfin s' V _ R C T K (or_intror (or_introl Hsc)) (or_introl B') eq_refl).
  - destruct (write_big_alloc_cohdata' s id V ids off buf HCD HB Hsi H1 H2 H3)
      as (s' & R & C & _ & _ & B' & _ & K & T).
    exact (Hfin s' V _ R C T K (or_introl HB) (or_introl B') eq_refl).
Qed.

(* the same over CohTree *)
Theorem resize_case_frames : forall s id n,
  CohTree s -> ResizeCase s id n ->
  exists s', resize id n s = (s', Ok tt) /\ CohTree s' /\
    SA.others_kept s s' id /\ others_content_kept s s' id /\
    (forall V, stream_content s id V -> stream_content s' id (resized V n)).
Proof.
  intros s id n [HCD HTP] HR.
  destruct (resize_case_frames_d s id n HCD HR) as (s' & R & C & T & K & O & X).
  exists s'. split; [exact R|]. split; [split; [exact C|exact (T HTP)]|]. auto.
Qed.

Theorem write_case_frames : forall s id off buf,
  CohTree s -> WriteCase s id off buf ->
  exists s', write_data id off buf s = (s', Ok tt) /\ CohTree s' /\
    SA.others_kept s s' id /\ others_content_kept s s' id /\
    (forall V, stream_content s id V -> stream_content s' id (spliceN V off buf)).
Proof.
  intros s id off buf [HCD HTP] HW.
  destruct (write_case_frames_d s id off buf HCD HW) as (s' & R & C & T & K & O & X).
  exists s'. split; [exact R|]. split; [split; [exact C|exact (T HTP)]|]. auto.
Qed.

(* ================================================================== *)
(* 2. through the handle, every case of [covered_op2]                  *)
(* ================================================================== *)

(* the frame of the store calls made on stream [id]: every other stream, in
   both vocabularies *)
Definition FrameR (id : N) (s s' : cstate) : Prop :=
  SA.others_kept s s' id /\ others_content_kept s s' id.

Lemma others_kept_refl : forall id s, SA.others_kept s s id.
Proof. intros id s. split; [|split]; auto. Qed.

Lemma others_kept_trans : forall id a b c,
  SA.others_kept a b id -> SA.others_kept b c id -> SA.others_kept a c id.
Proof.
  intros id a b c (A1 & A2 & A3) (B1 & B2 & B3). split; [|split].
  - intros j V Hj H. apply B1; [exact Hj|]. apply A1; assumption.
  - intros j V Hj H. apply B2; [exact Hj|]. apply A2; assumption.
  - intros j Hj H. apply B3; [exact Hj|]. apply A3; assumption.
Qed.

Lemma FrameR_refl : forall id s, FrameR id s s.
Proof. intros id s. split; [apply others_kept_refl|apply ock_refl]. Qed.

Lemma FrameR_trans : forall id a b c, FrameR id a b -> FrameR id b c -> FrameR id a c.
Proof.
  intros id a b c [A1 A2] [B1 B2].
  split; [eapply others_kept_trans; eassumption|eapply ock_trans; eassumption].
Qed.

Lemma fr_rd : forall id off n s, CohTree s ->
  CohTree (fst (read_data id off n s)) /\ FrameR id s (fst (read_data id off n s)).
Proof. intros. rewrite read_data_pure. split; [assumption|apply FrameR_refl]. Qed.
Lemma fr_sl : forall id s, CohTree s ->
  CohTree (fst (stream_len_of id s)) /\ FrameR id s (fst (stream_len_of id s)).
Proof. intros. rewrite stream_len_of_pure. split; [assumption|apply FrameR_refl]. Qed.
Lemma fr_wr : forall id off bs s, CohTree s -> CWd2 id off bs s ->
  CohTree (fst (write_data id off bs s)) /\ FrameR id s (fst (write_data id off bs s)).
Proof.
  intros id off bs s HG HC. destruct (write_case_frames s id off bs HG HC) as (s' & E & H & K & O & _).
  rewrite E. split; [exact H|split; assumption].
Qed.
Lemma fr_rs : forall id n s, CohTree s -> CRd2 id n s ->
  CohTree (fst (resize id n s)) /\ FrameR id s (fst (resize id n s)).
Proof.
  intros id n s HG HC. destruct (resize_case_frames s id n HG HC) as (s' & E & H & K & O & _).
  rewrite E. split; [exact H|split; assumption].
Qed.

(* every handle operation, in every covered case (allocation of sectors and
   mini sectors, release, both migrations included): the invariant is kept and
   every stream other than the handle's keeps its content *)
Theorem hop_run_frameR : forall o h s,
  CohTree s -> covered_op2 o h s ->
  CohTree (fst (hop_run o h s)) /\ FrameR (h_id h) s (fst (hop_run o h s)).
Proof.
  intros o h s HA HC.
  pose proof (h_read_C cstate read_data write_data stream_len_of CohTree FrameR CWd2
                FrameR_refl FrameR_trans fr_rd fr_sl fr_wr) as Xread.
  pose proof (h_fill_buf_C cstate read_data write_data stream_len_of CohTree FrameR CWd2
                FrameR_refl FrameR_trans fr_rd fr_sl fr_wr) as Xfill.
  pose proof (h_write_C cstate write_data stream_len_of CohTree FrameR CWd2
                FrameR_refl FrameR_trans fr_sl fr_wr) as Xwrite.
  pose proof (h_seek_C cstate write_data stream_len_of CohTree FrameR CWd2
                FrameR_refl FrameR_trans fr_sl fr_wr) as Xseek.
  pose proof (h_set_len_C cstate write_data resize stream_len_of CohTree FrameR CWd2 CRd2
                FrameR_refl FrameR_trans fr_sl fr_wr fr_rs) as Xsetlen.
  pose proof (h_flush_C cstate write_data stream_len_of CohTree FrameR CWd2
                FrameR_refl FrameR_trans fr_sl fr_wr) as Xflush.
  pose proof (flush_changes_C cstate write_data stream_len_of CohTree FrameR CWd2
                FrameR_refl FrameR_trans fr_sl fr_wr) as Xfc.
  destruct o; cbn [hop_run covered_op2] in *; cbv zeta; cbn [fst snd];
    try (split; [exact HA|apply FrameR_refl]).
  - exact (proj1 (Xread h n s HA HC)).
  - exact (proj1 (Xfill h s HA HC)).
  - exact (proj1 (Xwrite h bs s HA HC)).
  - exact (proj1 (Xseek h w z s HA HC)).
  - destruct HC as [HC1 HC2]. exact (proj1 (Xsetlen h n s HA HC1 HC2)).
  - exact (proj1 (Xflush h s HA HC)).
  - exact (proj1 (Xfc h s HA HC)).
Qed.

Theorem hop_run_frames_full : forall o h s,
  CohTree s -> covered_op2 o h s ->
  let s' := fst (hop_run o h s) in
  forall j V, j <> h_id h -> stream_content s j V -> stream_content s' j V.
Proof.
  intros o h s HA HC s'. exact (proj2 (proj2 (hop_run_frameR o h s HA HC))).
Qed.

(* C07 at the level of [step], all cases.  An operation through the handle in
   slot [i] (stream [h_id h]) whose write-back / resize is any of the store
   cases of DataPersist2 (no allocation, allocation of sectors from the free
   stack or at the end of the file, allocation / release of mini sectors,
   release of sectors, small -> large, large -> small, to and from empty):
   - leaves every directory entry other than [h_id h] and the root exactly as
     it was, and in those two changes at most start sector and length;
   - leaves the content of every other stream, of any size, as it was;
   - leaves every other open handle untouched; the handle left in slot [i]
     is a handle on the same stream;
   - keeps CohTree (so the statement composes along a run). *)
Theorem handle_op_frames_others_full : forall f now o i h f' r,
  is_handle_op o i -> nthN (hs f) i = Some (Some h) ->
  CohTree (cs f) -> covered_op2 o h (cs f) ->
  step f now o = (f', r) ->
  (forall j, j <> h_id h -> j <> ROOT_STREAM_ID -> nthN (dirs (cs f')) j = nthN (dirs (cs f)) j) /\
  lenN (dirs (cs f')) = lenN (dirs (cs f)) /\
  (forall j e, nthN (dirs (cs f)) j = Some e ->
     exists e', nthN (dirs (cs f')) j = Some e' /\ same_meta_ent e e') /\
  (forall id' V', id' <> h_id h ->
     stream_content (cs f) id' V' -> stream_content (cs f') id' V') /\
  SA.others_kept (cs f) (cs f') (h_id h) /\
  (forall j, j <> i -> nthN (hs f') j = nthN (hs f) j) /\
  (nthN (hs f') i = Some None \/
   exists h', nthN (hs f') i = Some (Some h') /\ h_id h' = h_id h) /\
  maxbuf f' = maxbuf f /\
  CohTree (cs f').
Proof.
  intros f now o i h f' r Ho Hh HA HC H.
  destruct (handle_op_table_frame f now o i h f' r Ho Hh H) as (HDF & Hhs & Hslot & Hmb).
  destruct (handle_op_entries f now o i h f' r Ho Hh H) as (HL & Hoth & _).
  destruct (step_handle_shape f now o i h f' r Ho Hh H) as (E1 & _).
  destruct (hop_run_frameR o h (cs f) HA HC) as (HA' & K & O).
  rewrite <- E1 in HA', K, O.
  split; [exact Hoth|]. split; [exact HL|]. split.
  { intros j e He. destruct HDF as [_ D]. destruct (D j e He) as (e' & He' & Rel).
    exists e'. split; [exact He'|]. destruct (PR (h_id h) j); [exact Rel|].
    subst e'. apply same_meta_ent_refl. }
  split; [exact O|]. split; [exact K|]. split; [exact Hhs|]. split; [exact Hslot|].
  split; [exact Hmb|exact HA'].
Qed.

(* ================================================================== *)
(* 3. the abstract tree, every case                                    *)
(* ================================================================== *)
Section TreeFull.
Import QueryRefine MutRefine.

(* the tree after a handle operation in ANY covered store case: the content
   relation is the real one, [stream_content], before and after; only the
   leaf of the handle's stream is replaced *)
Theorem handle_op_tree_full : forall f now o i h f' r t names st bs bs',
  is_handle_op o i -> nthN (hs f) i = Some (Some h) ->
  CohTree (cs f) -> covered_op2 o h (cs f) ->
  step f now o = (f', r) ->
  TreeRep (dirs (cs f)) (stream_content (cs f)) t -> Unshared (dirs (cs f)) t ->
  lookup_chain (dirs (cs f)) names ROOT_STREAM_ID = Ok (Some (h_id h)) ->
  Tree.get t names = Some (Tree.Leaf st bs) ->
  stream_content (cs f') (h_id h) bs' ->
  TreeRep (dirs (cs f')) (stream_content (cs f')) (Tree.update t names (fun _ => Tree.Leaf st bs')) /\
  Unshared (dirs (cs f')) (Tree.update t names (fun _ => Tree.Leaf st bs')).
Proof.
  intros f now o i h f' r t names st bs bs' Ho Hh HA HC H HT HU Hlk G Hc'.
  destruct (handle_op_frames_others_full f now o i h f' r Ho Hh HA HC H) as (_ & _ & _ & F3 & _).
  apply (handle_op_tree_general f now o i h f' r (stream_content (cs f)) (stream_content (cs f'))
           t names st bs bs' Ho Hh H HT HU Hlk G); try assumption.
  intros e' He'. eapply stream_content_len; eassumption.
Qed.

End TreeFull.

(* ================================================================== *)
(* 4. removal of a stream that holds data                              *)
(* ================================================================== *)
Section Removal.
Import QueryRefine MutRefine.

(* what api_remove_stream does to the entries of the other streams: name,
   type, start sector, length, CLSID, state bits and timestamps are kept (the
   links and the colour may change: the tree is re-balanced) *)
Lemma remove_stream_payload : forall p s s' id,
  api_remove_stream p s = (s', Ok tt) -> id_of_path s p = Some id ->
  id <> ROOT_STREAM_ID ->
  nthN (dirs s') id = Some dirent_unallocated ->
  forall i e, i <> id -> i <> ROOT_STREAM_ID -> nthN (dirs s) i = Some e ->
    exists e', nthN (dirs s') i = Some e' /\ same_payload e e'.
Proof.
  intros p s s' id H Hidp Hidr Hun i ei Hi Hir Hei.
  unfold api_remove_stream, remove_stream_names in H.
  destruct (names_lookup_inv _ _ _ _ _ _ H) as (names & r & En & Hlk & HK).
  destruct r as [id0|]; [|discriminate HK].
  assert (id0 = id).
  { unfold id_of_path in Hidp. rewrite En, Hlk in Hidp. congruence. }
  subst id0.
  binv HK e s1 H1 H2. apply dir_entry_inv in H1. destruct H1 as [-> He].
  destruct (objtype_eqb (d_type e) TStream) eqn:T2; cbn [negb] in H2; [|discriminate H2].
  destruct (d_child e =? NO_STREAM) eqn:Ch; cbn [negb] in H2; [|discriminate H2].
  apply PersistProofs.objtype_eqb_true in T2.
  binv H2 u1 s1 H1 H2.
  assert (RootLen (dirs s) (dirs s1)) as (_ & HRo & _).
  { destruct (d_len e <? MINI_STREAM_CUTOFF).
    - eapply free_mini_chain_rootlen. exact H1.
    - apply RootLen_eq. eapply frames_run; [apply MutRefine.frames_free_chain|exact H1]. }
  destruct (lastN names) as [nm|] eqn:Hlast; [|discriminate H2].
  destruct (lookup_inv _ _ _ _ _ _ H2) as (pr & Hlkp & H3). clear H2.
  destruct pr as [pid|]; [|discriminate H3].
  destruct (remove_ids_stable_raw _ _ _ _ _ H3) as (x & ex & Hx & _ & _ & _ & Hx' & _ & Hst).
  assert (x = id).
  { destruct (N.eq_dec x id) as [E|Hne]; [exact E|exfalso].
    assert (He1 : nthN (dirs s1) id = Some e) by (rewrite HRo by exact Hidr; exact He).
    destruct (Hst id e ltac:(congruence) He1) as (e' & He' & (_ & Pt & _) & _).
    rewrite Hun in He'. injection He' as <-. rewrite T2 in Pt. discriminate Pt. }
  subst x.
  assert (Hei1 : nthN (dirs s1) i = Some ei) by (rewrite HRo by exact Hir; exact Hei).
  destruct (Hst i ei Hi Hei1) as (e' & He' & P & _). exists e'. auto.
Qed.

(* C07 / C01 for the removal of a stream WITH data (large, small, or empty with
   END_OF_CHAIN start): the call frees the chain of the stream, clears its slot
   and leaves the content of every other stream, of any size, as it was *)
Theorem remove_stream_frames_full : forall p s s' id e,
  CohTree s -> api_remove_stream p s = (s', Ok tt) ->
  id_of_path s p = Some id -> nthN (dirs s) id = Some e ->
  (0 < d_len e \/ SA.empty_at s id e) ->
  CohTree s' /\
  (forall strict, open_model strict (concat_img (img s')) = Ok (reopened s')) /\
  nthN (dirs s') id = Some dirent_unallocated /\
  SA.others_kept s s' id /\ others_content_kept s s' id.
Proof.
  intros p s s' id e HG H Hidp He Hpos.
  assert (X : CohTree s' /\
    (forall strict, open_model strict (concat_img (img s')) = Ok (reopened s')) /\
    nthN (dirs s') id = Some dirent_unallocated /\ SA.others_kept s s' id).
  { destruct Hpos as [Hpos|Hem].
    - destruct (N.lt_ge_cases (d_len e) MINI_STREAM_CUTOFF) as [Hsm|Hbg].
      + destruct (remove_small_stream_cohtree p s s' id e HG H Hidp He Hpos Hsm) as (A & B & C & D & _). auto.
      + destruct (remove_big_stream_cohtree p s s' id e HG H Hidp He Hbg) as (A & B & C & D & _). auto.
    - destruct (remove_empty_stream_cohtree p s s' id e HG H Hidp Hem) as (A & B & C & D & _). auto. }
  destruct X as (HG' & Hre & Hun & K).
  split; [exact HG'|]. split; [exact Hre|]. split; [exact Hun|]. split; [exact K|].
  destruct K as (K1 & K2 & K3).
  destruct (cohdata'_root s (proj1 HG)) as (r & Hr & Hrt).
  assert (Hty : d_type e = TStream).
  { unfold api_remove_stream, remove_stream_names in H.
    destruct (names_lookup_inv _ _ _ _ _ _ H) as (names & r0 & En & Hlk & HK).
    destruct r0 as [id0|]; [|discriminate HK].
    assert (id0 = id) by (unfold id_of_path in Hidp; rewrite En, Hlk in Hidp; congruence). subst id0.
    binv HK e1 s0 H1 H2. apply dir_entry_inv in H1. destruct H1 as [-> He1].
    assert (e1 = e) by congruence. subst e1.
    destruct (objtype_eqb (d_type e) TStream) eqn:T1; cbn [negb] in H2; [|discriminate H2].
    apply PersistProofs.objtype_eqb_true in T1. exact T1. }
  assert (Hidr : id <> ROOT_STREAM_ID) by (intros ->; rewrite Hr in He; injection He as <-; congruence).
  intros j V Hj [HB|[HS|(ej & Hej & Ht & Hl & ->)]].
  - left. exact (K2 j V Hj HB).
  - right; left. exact (K1 j V Hj HS).
  - right; right.
    assert (Hjr : j <> ROOT_STREAM_ID) by (intros ->; rewrite Hr in Hej; injection Hej as <-; congruence).
    destruct (remove_stream_payload p s s' id H Hidp Hidr Hun j ej Hj Hjr Hej) as (e' & He' & (_ & Pt & _ & Pl & _)).
    exists e'. split; [exact He'|]. split; [congruence|]. split; [congruence|reflexivity].
Qed.

(* ... and the table represents the tree with the leaf removed.  MutRefine's
   [remove_stream_refines] is parametric in the content relation and asks only
   that the other streams keep their content: it applies to files with data
   (no EmptyStreams hypothesis). *)
Theorem remove_stream_tree_full : forall p now s s' id e t,
  CohTree s -> api_remove_stream p s = (s', Ok tt) ->
  id_of_path s p = Some id -> nthN (dirs s) id = Some e ->
  (0 < d_len e \/ SA.empty_at s id e) ->
  TreeRep (dirs s) (stream_content s) t -> Unshared (dirs s) t ->
  exists names st bs,
    name_chain_from_path p = Ok names /\ Tree.get t names = Some (Tree.Leaf st bs) /\
    Tree.spec_step t now (Tree.SRemoveStream p) = (Tree.remove_at t names, Ok Tree.SVUnit) /\
    TreeRep (dirs s') (stream_content s') (Tree.remove_at t names) /\
    Unshared (dirs s') (Tree.remove_at t names).
Proof.
  intros p now s s' id e t HG H Hidp He Hpos HT HU.
  destruct (remove_stream_frames_full p s s' id e HG H Hidp He Hpos) as (_ & _ & _ & _ & O).
  destruct (remove_stream_refines (stream_content s) (stream_content s') p now s s' t HT HU) as (t' & Hsp & HT' & HU').
  { intros i bs Hi. apply O. intros ->. apply Hi. exact Hidp. }
  { exact H. }
  cbn [Tree.spec_step] in Hsp. unfold Tree.with_names in Hsp.
  destruct (name_chain_from_path p) as [names| | |] eqn:En; try discriminate Hsp.
  destruct (Tree.get t names) as [[st bs|m ks]|] eqn:G; try discriminate Hsp.
  injection Hsp as <-.
  exists names, st, bs. split; [reflexivity|]. split; [exact G|].
  split; [cbn [Tree.spec_step]; unfold Tree.with_names; rewrite En, G; reflexivity|]. split; assumption.
Qed.

End Removal.

(* ================================================================== *)
(* 5. one step of a covered history, and whole histories               *)
(* ================================================================== *)

(* the stream an operation addresses in the state it runs in: the stream of
   the handle it goes through, or the stream it removes *)
Definition touched (f : fstate) (o : op) (j : N) : Prop :=
  match handle_slot o with
  | Some i => exists h, nthN (hs f) i = Some (Some h) /\ h_id h = j
  | None =>
    match o with
    | ORemoveStream p => MutRefine.id_of_path (cs f) p = Some j
    | _ => False
    end
  end.

Fixpoint untouched (f : fstate) (l : list (N * op)) (j : N) : Prop :=
  match l with
  | [] => True
  | (now, o) :: t => ~ touched f o j /\ untouched (fst (step f now o)) t j
  end.

(* one step of [step_ok2] (handle operations in every store case, removal of
   streams with data, reopen, queries): a stream the step does not address
   keeps its content *)
Theorem step_frames_full : forall f now o j V,
  CohTree (cs f) -> step_ok2 f o -> ~ touched f o j ->
  stream_content (cs f) j V -> stream_content (cs (fst (step f now o))) j V.
Proof.
  intros f now o j V HG Hok Hnt HV. unfold step_ok2 in Hok. unfold touched in Hnt.
  destruct (handle_slot o) as [i|] eqn:Eslot.
  - destruct (nthN (hs f) i) as [[h|]|] eqn:Eh.
    + destruct (step f now o) as [f' r] eqn:Es. cbn [fst].
      destruct (step_handle_shape f now o i h f' r Eslot Eh Es) as (E1 & _).
      rewrite E1. apply (hop_run_frames_full o h (cs f) HG (Hok h eq_refl)); [|exact HV].
      intros ->. apply Hnt. exists h. auto.
    + rewrite (step_no_handle f now o i Eslot); [exact HV|]. intros h E. rewrite Eh in E. discriminate E.
    + rewrite (step_no_handle f now o i Eslot); [exact HV|]. intros h E. rewrite Eh in E. discriminate E.
  - assert (Hsame : cs (fst (step f now o)) = cs f -> stream_content (cs (fst (step f now o))) j V).
    { intros ->. exact HV. }
    destruct o; cbn [handle_slot] in Eslot; try discriminate Eslot; cbn [query_op] in Hok;
      try contradiction; cbn [step].
    + apply Hsame, with_new_handle_pure, pure_api_open_stream.
    + (* remove *)
      destruct Hok as (id & e & Hid & He & Hpos & Hres).
      unfold with_cs. destruct (api_remove_stream p (cs f)) as [s' r] eqn:E. cbn [snd] in Hres. subst r.
      cbn [fst cs].
      destruct (remove_stream_frames_full p (cs f) s' id e HG E Hid He Hpos) as (_ & _ & _ & _ & O).
      apply O; [|exact HV]. intros ->. apply Hnt. exact Hid.
    + apply Hsame, PersistProofs.with_cs_pure, PersistProofs.pure_api_exists.
    + apply Hsame, PersistProofs.with_cs_pure, PersistProofs.pure_api_is_stream.
    + apply Hsame, PersistProofs.with_cs_pure, PersistProofs.pure_api_is_storage.
    + apply Hsame, PersistProofs.with_cs_pure, PersistProofs.pure_api_entry.
    + apply Hsame, PersistProofs.with_cs_pure, PersistProofs.pure_api_root_entry.
    + apply Hsame, PersistProofs.with_cs_pure, PersistProofs.pure_api_read_storage.
    + apply Hsame, PersistProofs.with_cs_pure, PersistProofs.pure_api_read_root.
    + apply Hsame, PersistProofs.with_cs_pure, PersistProofs.pure_api_walk.
    + apply Hsame, PersistProofs.with_cs_pure, PersistProofs.pure_api_walk_storage.
    + apply Hsame. reflexivity.
    + apply Hsame. reflexivity.
    + (* reopen *)
      cbv zeta. rewrite (drop_all_clean _ f 0 Hok).
      rewrite (cohdata'_reopens (cs f) (proj1 HG) strict). cbn [fst cs].
      apply stream_content_reopened. exact HV.
Qed.

(* C07 / C01 along histories: through ANY history of [hist_ok2] (handle
   operations with allocation, release and migrations of other streams,
   removals of other streams, reopen), a stream that no operation of the
   history addresses holds at the end the bytes it held at the start *)
Theorem data_history_frames : forall l f,
  CohTree (cs f) -> hist_ok2 f l ->
  forall j V, untouched f l j ->
  stream_content (cs f) j V -> stream_content (cs (fst (ReadonlyTotal.run_ops f l))) j V.
Proof.
  induction l as [|[now o] t IH]; intros f HG Hrun j V Hun HV; [exact HV|].
  cbn [hist_ok2] in Hrun. destruct Hrun as [Hok Hrun].
  cbn [untouched] in Hun. destruct Hun as [Hnt Hun].
  rewrite PersistProofs.run_ops_cons. apply IH.
  - apply step_cohtree; assumption.
  - exact Hrun.
  - exact Hun.
  - apply step_frames_full; assumption.
Qed.

(* at every point of the history, and after reopening the bytes written so far *)
Theorem data_history_frames_prefix : forall l1 l2 f,
  CohTree (cs f) -> hist_ok2 f (l1 ++ l2) ->
  forall j V, untouched f l1 j -> stream_content (cs f) j V ->
  let f1 := fst (ReadonlyTotal.run_ops f l1) in
  stream_content (cs f1) j V /\
  forall strict, exists s2, open_model strict (concat_img (img (cs f1))) = Ok s2 /\ stream_content s2 j V.
Proof.
  intros l1 l2 f HG Hrun j V Hun HV f1.
  pose proof (hist_ok2_app l1 l2 f Hrun) as Hrun1.
  assert (H1 : stream_content (cs f1) j V) by (apply data_history_frames; assumption).
  split; [exact H1|]. intros strict. exists (reopened (cs f1)). split.
  - apply cohdata'_reopens. apply (history_cohtree l1 f HG Hrun1).
  - apply stream_content_reopened. exact H1.
Qed.

(* ================================================================== *)
(* 6. the handle's own stream, every case: the model's prediction      *)
(* ================================================================== *)

(* the write-back of the dirty window, in any of the six write cases: the
   stream of the handle holds what the handle showed ([absV]), every other
   stream is kept *)
Theorem flush_changes_full : forall h s V,
  CohTree s -> cov_flush2 h s -> stream_content s (h_id h) V ->
  exists s' h',
    flush_changes' h s = (s', Ok h') /\ h_dirty h' = false /\ h_id h' = h_id h /\
    h_buf h' = h_buf h /\ h_off h' = h_off h /\
    CohTree s' /\ stream_content s' (h_id h) (absV h V) /\
    SA.others_kept s s' (h_id h) /\ others_content_kept s s' (h_id h).
Proof.
  intros h s V HG HC HV. unfold flush_changes', flush_changes, VecSpec.absV.
  destruct (h_dirty h) eqn:Ed.
  - destruct (write_case_frames s _ _ _ HG (HC Ed)) as (s' & Hrun & HG' & K & O & X).
    rewrite Hrun.
    destruct (stream_content_entry _ _ _ (X V HV)) as (e' & He').
    rewrite (stream_len_of_exec s' (h_id h) e' He').
    eexists s', _. split; [reflexivity|]. cbn [h_dirty h_id h_buf h_off].
    repeat (split; [reflexivity|]). split; [exact HG'|]. split; [exact (X V HV)|]. split; assumption.
  - exists s, h. split; [reflexivity|]. split; [exact Ed|]. repeat (split; [reflexivity|]).
    split; [exact HG|]. split; [exact HV|]. split; [apply others_kept_refl|apply ock_refl].
Qed.

(* OHFlush, every write case *)
Theorem flush_frames_full : forall f now i h V f' r,
  nthN (hs f) i = Some (Some h) ->
  CohTree (cs f) -> covered_op2 (OHFlush i) h (cs f) -> stream_content (cs f) (h_id h) V ->
  step f now (OHFlush i) = (f', r) ->
  r = Ok VUnit /\
  (exists h', nthN (hs f') i = Some (Some h') /\ h_dirty h' = false /\ h_id h' = h_id h) /\
  CohTree (cs f') /\
  stream_content (cs f') (h_id h) (absV h V) /\
  others_content_kept (cs f) (cs f') (h_id h) /\
  (forall strict, open_model strict (concat_img (img (cs f'))) = Ok (reopened (cs f'))) /\
  stream_content (reopened (cs f')) (h_id h) (absV h V).
Proof.
  intros f now i h V f' r Hh HG HC HV H. cbn [covered_op2] in HC.
  destruct (flush_changes_full h (cs f) V HG HC HV) as (s' & h' & E & Hd & Hid & _ & _ & HG' & HV' & _ & O).
  cbn [step] in H. unfold with_handle in H. rewrite Hh in H.
  unfold h_flush', h_flush in H. unfold flush_changes' in E. rewrite E in H.
  injection H as <- <-. cbn [cs hs rmap rbind].
  split; [reflexivity|]. split.
  - exists h'. split; [|split; assumption].
    apply nthN_updN_same. eapply nthN_Some_lt. exact Hh.
  - split; [exact HG'|]. split; [exact HV'|]. split; [exact O|].
    split; [exact (cohdata'_reopens _ (proj1 HG'))|apply stream_content_reopened; exact HV'].
Qed.

(* OHDrop, every write case *)
Theorem drop_frames_full : forall f now i h V f' r,
  nthN (hs f) i = Some (Some h) ->
  CohTree (cs f) -> covered_op2 (OHDrop i) h (cs f) -> stream_content (cs f) (h_id h) V ->
  step f now (OHDrop i) = (f', r) ->
  r = Ok VUnit /\ nthN (hs f') i = Some None /\
  CohTree (cs f') /\
  stream_content (cs f') (h_id h) (absV h V) /\
  others_content_kept (cs f) (cs f') (h_id h) /\
  (forall strict, open_model strict (concat_img (img (cs f'))) = Ok (reopened (cs f'))) /\
  stream_content (reopened (cs f')) (h_id h) (absV h V).
Proof.
  intros f now i h V f' r Hh HG HC HV H. cbn [covered_op2] in HC.
  destruct (flush_changes_full h (cs f) V HG HC HV) as (s' & h' & E & Hd & Hid & _ & _ & HG' & HV' & _ & O).
  cbn [step] in H. unfold drop_handle, drop_result in H. rewrite Hh, E in H.
  injection H as <- <-. cbn [cs hs snd].
  split; [reflexivity|]. split; [apply nthN_updN_same; eapply nthN_Some_lt; exact Hh|].
  split; [exact HG'|]. split; [exact HV'|]. split; [exact O|].
  split; [exact (cohdata'_reopens _ (proj1 HG'))|apply stream_content_reopened; exact HV'].
Qed.

(* OHSetLen, every write case for the write-back and every resize case for
   the resize: the stream holds [resized (absV h V) n] *)
Theorem setlen_frames_full : forall f now i n h V f' r,
  nthN (hs f) i = Some (Some h) ->
  CohTree (cs f) -> covered_op2 (OHSetLen i n) h (cs f) -> stream_content (cs f) (h_id h) V ->
  n <> h_total h ->
  step f now (OHSetLen i n) = (f', r) ->
  r = Ok VUnit /\
  (exists h', nthN (hs f') i = Some (Some h') /\ h_dirty h' = false /\ h_id h' = h_id h /\ h_total h' = n) /\
  CohTree (cs f') /\
  stream_content (cs f') (h_id h) (resized (absV h V) n) /\
  others_content_kept (cs f) (cs f') (h_id h) /\
  (forall strict, open_model strict (concat_img (img (cs f'))) = Ok (reopened (cs f'))) /\
  stream_content (reopened (cs f')) (h_id h) (resized (absV h V) n).
Proof.
  intros f now i n h V f' r Hh HG HC HV Hn H. cbn [covered_op2] in HC. destruct HC as [HC1 HC2].
  specialize (HC2 Hn).
  destruct (flush_changes_full h (cs f) V HG HC1 HV) as (s1 & h1 & E & Hd & Hid & _ & _ & HG1 & HV1 & _ & O1).
  rewrite E in HC2. cbn [fst] in HC2.
  destruct (resize_case_frames s1 (h_id h) n HG1 HC2) as (s2 & R & HG2 & _ & O2 & X).
  cbn [step] in H. unfold with_handle in H. rewrite Hh in H.
  unfold h_set_len', h_set_len in H. apply N.eqb_neq in Hn. rewrite Hn in H.
  unfold flush_changes' in E. cbv zeta in H. rewrite E in H. rewrite Hid, R in H.
  injection H as <- <-. cbn [cs hs rmap rbind].
  split; [reflexivity|]. split.
  - eexists. split; [apply nthN_updN_same; eapply nthN_Some_lt; exact Hh|].
    cbn [h_dirty h_id h_total]. split; [exact Hd|]. split; reflexivity.
  - split; [exact HG2|]. split; [exact (X _ HV1)|]. split; [eapply ock_trans; eassumption|].
    split; [exact (cohdata'_reopens _ (proj1 HG2))|apply stream_content_reopened; exact (X _ HV1)].
Qed.

Section TreeOwn.
Import QueryRefine MutRefine.

(* the bytes the tree records for a leaf are the content of its stream *)
Lemma tree_leaf_content : forall ds (c : N -> list byte -> Prop) t names id st bs,
  TreeRep ds c t -> lookup_chain ds names ROOT_STREAM_ID = Ok (Some id) ->
  Tree.get t names = Some (Tree.Leaf st bs) -> c id bs.
Proof.
  intros ds c t names id st bs HT Hlk G.
  pose proof (lookup_get _ _ _ _ _ HT Hlk) as Hg. rewrite G in Hg. destruct Hg as (nm & HNR).
  apply NodeRep_leaf in HNR. destruct HNR as (_ & e & _ & _ & _ & _ & _ & _ & _ & Hc & _). exact Hc.
Qed.

(* C07 / C01, the tree after SetLen in any case: the leaf of the handle's
   stream holds [resized (absV h bs) n], everything else is the same tree *)
Theorem setlen_tree_full : forall f now i n h f' r t names st bs,
  nthN (hs f) i = Some (Some h) ->
  CohTree (cs f) -> covered_op2 (OHSetLen i n) h (cs f) ->
  n <> h_total h ->
  step f now (OHSetLen i n) = (f', r) ->
  TreeRep (dirs (cs f)) (stream_content (cs f)) t -> Unshared (dirs (cs f)) t ->
  lookup_chain (dirs (cs f)) names ROOT_STREAM_ID = Ok (Some (h_id h)) ->
  Tree.get t names = Some (Tree.Leaf st bs) ->
  r = Ok VUnit /\
  TreeRep (dirs (cs f')) (stream_content (cs f'))
    (Tree.update t names (fun _ => Tree.Leaf st (resized (absV h bs) n))) /\
  Unshared (dirs (cs f')) (Tree.update t names (fun _ => Tree.Leaf st (resized (absV h bs) n))).
Proof.
  intros f now i n h f' r t names st bs Hh HG HC Hn H HT HU Hlk G.
  pose proof (tree_leaf_content _ _ _ _ _ _ _ HT Hlk G) as HV.
  destruct (setlen_frames_full f now i n h bs f' r Hh HG HC HV Hn H) as (Er & _ & _ & HV' & _).
  split; [exact Er|].
  exact (handle_op_tree_full f now (OHSetLen i n) i h f' r t names st bs _ eq_refl Hh HG HC H HT HU Hlk G HV').
Qed.

(* ... after Flush: the leaf holds what the handle showed *)
Theorem flush_tree_full : forall f now i h f' r t names st bs,
  nthN (hs f) i = Some (Some h) ->
  CohTree (cs f) -> covered_op2 (OHFlush i) h (cs f) ->
  step f now (OHFlush i) = (f', r) ->
  TreeRep (dirs (cs f)) (stream_content (cs f)) t -> Unshared (dirs (cs f)) t ->
  lookup_chain (dirs (cs f)) names ROOT_STREAM_ID = Ok (Some (h_id h)) ->
  Tree.get t names = Some (Tree.Leaf st bs) ->
  r = Ok VUnit /\
  TreeRep (dirs (cs f')) (stream_content (cs f')) (Tree.update t names (fun _ => Tree.Leaf st (absV h bs))) /\
  Unshared (dirs (cs f')) (Tree.update t names (fun _ => Tree.Leaf st (absV h bs))).
Proof.
  intros f now i h f' r t names st bs Hh HG HC H HT HU Hlk G.
  pose proof (tree_leaf_content _ _ _ _ _ _ _ HT Hlk G) as HV.
  destruct (flush_frames_full f now i h bs f' r Hh HG HC HV H) as (Er & _ & _ & HV' & _).
  split; [exact Er|].
  exact (handle_op_tree_full f now (OHFlush i) i h f' r t names st bs _ eq_refl Hh HG HC H HT HU Hlk G HV').
Qed.

(* ... after Drop *)
Theorem drop_tree_full : forall f now i h f' r t names st bs,
  nthN (hs f) i = Some (Some h) ->
  CohTree (cs f) -> covered_op2 (OHDrop i) h (cs f) ->
  step f now (OHDrop i) = (f', r) ->
  TreeRep (dirs (cs f)) (stream_content (cs f)) t -> Unshared (dirs (cs f)) t ->
  lookup_chain (dirs (cs f)) names ROOT_STREAM_ID = Ok (Some (h_id h)) ->
  Tree.get t names = Some (Tree.Leaf st bs) ->
  r = Ok VUnit /\
  TreeRep (dirs (cs f')) (stream_content (cs f')) (Tree.update t names (fun _ => Tree.Leaf st (absV h bs))) /\
  Unshared (dirs (cs f')) (Tree.update t names (fun _ => Tree.Leaf st (absV h bs))).
Proof.
  intros f now i h f' r t names st bs Hh HG HC H HT HU Hlk G.
  pose proof (tree_leaf_content _ _ _ _ _ _ _ HT Hlk G) as HV.
  destruct (drop_frames_full f now i h bs f' r Hh HG HC HV H) as (Er & _ & _ & HV' & _).
  split; [exact Er|].
  exact (handle_op_tree_full f now (OHDrop i) i h f' r t names st bs _ eq_refl Hh HG HC H HT HU Hlk G HV').
Qed.

End TreeOwn.

(* ================================================================== *)
(* 7. entries and trees along histories                                *)
(* ================================================================== *)

Lemma same_payload_refl : forall e, same_payload e e.
Proof. intros e. unfold same_payload. repeat split. Qed.

Lemma same_payload_trans : forall a b c, same_payload a b -> same_payload b c -> same_payload a c.
Proof.
  intros a b c (A1 & A2 & A3 & A4 & A5 & A6 & A7 & A8) (B1 & B2 & B3 & B4 & B5 & B6 & B7 & B8).
  unfold same_payload. repeat split; congruence.
Qed.

(* one step: the entry of a stream (or storage) the step does not address
   keeps its name, type, start sector, length, CLSID, state bits and
   timestamps (a removal may re-link and re-colour it: the tree of its
   siblings is re-balanced; a handle operation or a reopen leaves it as it is) *)
Theorem step_entry_frames : forall f now o j e,
  CohTree (cs f) -> step_ok2 f o -> ~ touched f o j -> j <> ROOT_STREAM_ID ->
  nthN (dirs (cs f)) j = Some e ->
  exists e', nthN (dirs (cs (fst (step f now o)))) j = Some e' /\ same_payload e e'.
Proof.
  intros f now o j e HG Hok Hnt Hjr He. unfold step_ok2 in Hok. unfold touched in Hnt.
  assert (Hsame : cs (fst (step f now o)) = cs f ->
            exists e', nthN (dirs (cs (fst (step f now o)))) j = Some e' /\ same_payload e e').
  { intros ->. exists e. split; [exact He|apply same_payload_refl]. }
  destruct (handle_slot o) as [i|] eqn:Eslot.
  - destruct (nthN (hs f) i) as [[h|]|] eqn:Eh.
    + destruct (step f now o) as [f' r] eqn:Es. cbn [fst].
      destruct (handle_op_entries f now o i h f' r Eslot Eh Es) as (_ & Hoth & _).
      exists e. split; [|apply same_payload_refl]. rewrite Hoth; [exact He| |exact Hjr].
      intros ->. apply Hnt. exists h. auto.
    + apply Hsame. rewrite (step_no_handle f now o i Eslot); [reflexivity|].
      intros h E. rewrite Eh in E. discriminate E.
    + apply Hsame. rewrite (step_no_handle f now o i Eslot); [reflexivity|].
      intros h E. rewrite Eh in E. discriminate E.
  - destruct o; cbn [handle_slot] in Eslot; try discriminate Eslot; cbn [query_op] in Hok;
      try contradiction; cbn [step].
    + apply Hsame, with_new_handle_pure, pure_api_open_stream.
    + (* remove *)
      destruct Hok as (id & e0 & Hid & He0 & Hpos & Hres).
      unfold with_cs. destruct (api_remove_stream p (cs f)) as [s' r] eqn:E. cbn [snd] in Hres. subst r.
      cbn [fst cs].
      destruct (remove_stream_frames_full p (cs f) s' id e0 HG E Hid He0 Hpos) as (_ & _ & Hun & _ & _).
      destruct (cohdata'_root (cs f) (proj1 HG)) as (r & Hr & Hrt).
      assert (Hty : d_type e0 = TStream).
      { destruct Hpos as [Hpos|(_ & Ht & _)]; [|exact Ht].
        unfold api_remove_stream, remove_stream_names in E.
        destruct (MutRefine.names_lookup_inv _ _ _ _ _ _ E) as (names & r0 & En & Hlk & HK).
        destruct r0 as [id0|]; [|discriminate HK].
        assert (id0 = id) by (unfold MutRefine.id_of_path in Hid; rewrite En, Hlk in Hid; congruence). subst id0.
        binv HK e1 s0 H1 H2. apply dir_entry_inv in H1. destruct H1 as [-> He1].
        assert (e1 = e0) by congruence. subst e1.
        destruct (objtype_eqb (d_type e0) TStream) eqn:T1; cbn [negb] in H2; [|discriminate H2].
        apply PersistProofs.objtype_eqb_true in T1. exact T1. }
      assert (Hidr : id <> ROOT_STREAM_ID) by (intros ->; rewrite Hr in He0; injection He0 as <-; congruence).
      apply (remove_stream_payload p (cs f) s' id E Hid Hidr Hun j e); [|exact Hjr|exact He].
      intros ->. apply Hnt. exact Hid.
    + apply Hsame, PersistProofs.with_cs_pure, PersistProofs.pure_api_exists.
    + apply Hsame, PersistProofs.with_cs_pure, PersistProofs.pure_api_is_stream.
    + apply Hsame, PersistProofs.with_cs_pure, PersistProofs.pure_api_is_storage.
    + apply Hsame, PersistProofs.with_cs_pure, PersistProofs.pure_api_entry.
    + apply Hsame, PersistProofs.with_cs_pure, PersistProofs.pure_api_root_entry.
    + apply Hsame, PersistProofs.with_cs_pure, PersistProofs.pure_api_read_storage.
    + apply Hsame, PersistProofs.with_cs_pure, PersistProofs.pure_api_read_root.
    + apply Hsame, PersistProofs.with_cs_pure, PersistProofs.pure_api_walk.
    + apply Hsame, PersistProofs.with_cs_pure, PersistProofs.pure_api_walk_storage.
    + apply Hsame. reflexivity.
    + apply Hsame. reflexivity.
    + (* reopen *)
      cbv zeta. rewrite (drop_all_clean _ f 0 Hok).
      rewrite (cohdata'_reopens (cs f) (proj1 HG) strict). cbn [fst cs].
      exists e. split; [apply reopened_nth_old; exact He|apply same_payload_refl].
Qed.

(* along a covered history: the entry of an unaddressed stream keeps name,
   type, start sector, length, CLSID, state bits and timestamps *)
Theorem data_history_entry_frames : forall l f,
  CohTree (cs f) -> hist_ok2 f l ->
  forall j e, untouched f l j -> j <> ROOT_STREAM_ID -> nthN (dirs (cs f)) j = Some e ->
  exists e', nthN (dirs (cs (fst (ReadonlyTotal.run_ops f l)))) j = Some e' /\ same_payload e e'.
Proof.
  induction l as [|[now o] t IH]; intros f HG Hrun j e Hun Hjr He.
  { exists e. split; [exact He|apply same_payload_refl]. }
  cbn [hist_ok2] in Hrun. destruct Hrun as [Hok Hrun].
  cbn [untouched] in Hun. destruct Hun as [Hnt Hun].
  destruct (step_entry_frames f now o j e HG Hok Hnt Hjr He) as (e1 & He1 & P1).
  rewrite PersistProofs.run_ops_cons.
  destruct (IH (fst (step f now o)) (step_cohtree f now o HG Hok) Hrun j e1 Hun Hjr He1) as (e' & He' & P2).
  exists e'. split; [exact He'|eapply same_payload_trans; eassumption].
Qed.

Section TreeHist.
Import QueryRefine MutRefine.

(* the tree a table represents is the tree the reopened table represents *)
Theorem reopen_tree_full : forall s t,
  TreeRep (dirs s) (stream_content s) t -> Unshared (dirs s) t ->
  TreeRep (dirs (reopened s)) (stream_content (reopened s)) t /\ Unshared (dirs (reopened s)) t.
Proof.
  intros s t HT HU. destruct (tree_NRU _ _ _ HT HU) as (U & HN & ND).
  apply (NRU_tree _ _ _ U); [|exact ND].
  eapply NRU_transfer; [exact HN| |].
  - intros j Hj. unfold reopened. cbn [dirs]. apply nthN_app_l.
    exact (AllIds_bound _ _ _ _ (proj2 HN) j Hj).
  - intros j bs _ H. apply stream_content_reopened. exact H.
Qed.

(* whatever trees the table represents before and after a covered history,
   the leaf of a stream no operation addressed shows the same bytes *)
Theorem data_history_tree_leaf : forall l f t t' j names names' st bs st' bs',
  CohTree (cs f) -> hist_ok2 f l -> untouched f l j ->
  let f' := fst (ReadonlyTotal.run_ops f l) in
  TreeRep (dirs (cs f)) (stream_content (cs f)) t ->
  lookup_chain (dirs (cs f)) names ROOT_STREAM_ID = Ok (Some j) ->
  Tree.get t names = Some (Tree.Leaf st bs) ->
  TreeRep (dirs (cs f')) (stream_content (cs f')) t' ->
  lookup_chain (dirs (cs f')) names' ROOT_STREAM_ID = Ok (Some j) ->
  Tree.get t' names' = Some (Tree.Leaf st' bs') ->
  bs' = bs /\ st' = st.
Proof.
  intros l f t t' j names names' st bs st' bs' HG Hrun Hun f' HT Hlk G HT' Hlk' G'.
  pose proof (tree_leaf_content _ _ _ _ _ _ _ HT Hlk G) as HV.
  pose proof (tree_leaf_content _ _ _ _ _ _ _ HT' Hlk' G') as HV'.
  pose proof (data_history_frames l f HG Hrun j bs Hun HV) as HV2.
  split; [exact (stream_content_fun _ _ _ _ HV' HV2)|].
  pose proof (lookup_get _ _ _ _ _ HT Hlk) as Hg. rewrite G in Hg. destruct Hg as (nm & HNR).
  apply NodeRep_leaf in HNR. destruct HNR as (_ & e & He & _ & Hr & Hty & _ & Hs & _).
  pose proof (lookup_get _ _ _ _ _ HT' Hlk') as Hg'. rewrite G' in Hg'. destruct Hg' as (nm' & HNR').
  apply NodeRep_leaf in HNR'. destruct HNR' as (_ & e' & He' & _ & _ & _ & _ & Hs' & _).
  assert (Hjr : j <> ROOT_STREAM_ID).
  { intros ->. destruct (cohdata'_root (cs f) (proj1 HG)) as (r0 & Hr0 & Hrt). congruence. }
  destruct (data_history_entry_frames l f HG Hrun j e Hun Hjr He) as (e2 & He2 & (_ & _ & _ & _ & _ & Ps & _)).
  fold f' in He2. assert (e2 = e') by congruence. subst e2. congruence.
Qed.

End TreeHist.

(* ================================================================== *)
(* 8. the handle's own stream after ANY handle operation, and the tree  *)
(*    along histories                                                   *)
(* ================================================================== *)

(* Read / Fill / Seek / Write reach the file only through the write-back of
   the dirty window (the read that may follow is pure) *)
Lemma fill_file : forall h s,
  fst (h_fill_buf' h s) = s \/ fst (h_fill_buf' h s) = fst (flush_changes' h s).
Proof.
  intros h s. unfold h_fill_buf', h_fill_buf, flush_changes'.
  destruct (negb (b_pos (h_buf h) <? b_cap (h_buf h)) && (h_position h <? h_total h)); [right|left; reflexivity].
  destruct (flush_changes cstate write_data stream_len_of h s) as [s1 r].
  destruct r as [h1| | |]; cbn [fst snd]; try reflexivity.
  cbv zeta.
  match goal with |- context [read_data ?i ?o ?n ?st] =>
    pose proof (read_data_pure i o n st) as Hrd; destruct (read_data i o n st) as [s2 r2] end.
  cbn [fst] in Hrd. subst s2.
  destruct r2 as [got| | |]; cbn [fst snd]; try reflexivity.
  match goal with |- context [if ?c then _ else _] => destruct c end; reflexivity.
Qed.

Lemma read_file : forall h n s,
  fst (h_read' h n s) = s \/ fst (h_read' h n s) = fst (flush_changes' h s).
Proof.
  intros h n s. unfold h_read', h_read. pose proof (fill_file h s) as H. unfold h_fill_buf' in H.
  destruct (h_fill_buf cstate read_data write_data stream_len_of h s) as [s1 [h1 r]]. cbn [fst] in H.
  destruct r as [avail| | |]; cbn [fst snd]; try exact H.
  destruct (h_consume h1 (lenN (takeN n avail))) as [h2 c]. cbn [fst]. exact H.
Qed.

Lemma seek_file : forall h w z s,
  fst (h_seek' h w z s) = s \/ fst (h_seek' h w z s) = fst (flush_changes' h s).
Proof.
  intros h w z s. unfold h_seek', h_seek, flush_changes'.
  destruct (seek_target h w z) as [np| | |]; cbn [fst snd]; try (left; reflexivity).
  destruct ((np <? h_off h) || (h_off h + b_cap (h_buf h) <? np)).
  - right. destruct (flush_changes cstate write_data stream_len_of h s) as [s1 r].
    destruct r; reflexivity.
  - left. cbv zeta. destruct (lenN (b_data (h_buf h)) <? np - h_off h); reflexivity.
Qed.

Lemma write_file : forall h inp s,
  fst (h_write' h inp s) = s \/ fst (h_write' h inp s) = fst (flush_changes' h s).
Proof.
  intros h inp s. unfold h_write', h_write, flush_changes'. cbv zeta.
  destruct (buf_write_bytes (h_buf h) inp) as [[[bf k]|]| | |]; cbn [fst snd]; try (left; reflexivity).
  - left. destruct (0 <? k); reflexivity.
  - right. destruct (flush_changes cstate write_data stream_len_of h s) as [s1 r].
    destruct r as [h1| | |]; cbn [fst snd]; try reflexivity.
    match goal with |- context [buf_write_bytes ?b inp] =>
      destruct (buf_write_bytes b inp) as [[[bf k]|]| | |] end; cbn [fst snd]; try reflexivity.
    destruct (0 <? k); reflexivity.
Qed.

(* what the model predicts for the stream of the handle *)
Definition own_after (o : op) (h : handle) (bs bs' : list byte) : Prop :=
  match o with
  | OHFlush _ | OHDrop _ => bs' = absV h bs
  | OHSetLen _ n => bs' = if n =? h_total h then bs else resized (absV h bs) n
  | OHConsume _ _ | OHLen _ | OHPos _ => bs' = bs
  | _ => bs' = bs \/ bs' = absV h bs
  end.

Theorem handle_op_own_full : forall f now o i h V f' r,
  is_handle_op o i -> nthN (hs f) i = Some (Some h) ->
  CohTree (cs f) -> covered_op2 o h (cs f) ->
  stream_content (cs f) (h_id h) V ->
  step f now o = (f', r) ->
  exists V', own_after o h V V' /\ stream_content (cs f') (h_id h) V'.
Proof.
  intros f now o i h V f' r Ho Hh HG HC HV H.
  destruct (step_handle_shape f now o i h f' r Ho Hh H) as (E1 & _).
  assert (Hbuf : cov_flush2 h (cs f) ->
            (cs f' = cs f \/ cs f' = fst (flush_changes' h (cs f))) ->
            exists V', (V' = V \/ V' = absV h V) /\ stream_content (cs f') (h_id h) V').
  { intros HCf [E|E]; rewrite E.
    - exists V. split; [left; reflexivity|exact HV].
    - destruct (flush_changes_full h (cs f) V HG HCf HV) as (s' & h' & Ef & _ & _ & _ & _ & _ & HV' & _).
      rewrite Ef. cbn [fst]. exists (absV h V). split; [right; reflexivity|exact HV']. }
  unfold is_handle_op in Ho.
  destruct o; cbn [handle_slot] in Ho; try discriminate Ho; injection Ho as ->;
    cbn [hop_run] in E1; cbv zeta in E1; cbn [fst] in E1; cbn [own_after covered_op2] in *.
  - (* read *) apply Hbuf; [exact HC|]. rewrite E1. apply read_file.
  - (* fill *) apply Hbuf; [exact HC|]. rewrite E1. apply fill_file.
  - (* consume *) exists V. split; [reflexivity|]. rewrite E1. exact HV.
  - (* write *) apply Hbuf; [exact HC|]. rewrite E1. apply write_file.
  - (* seek *) apply Hbuf; [exact HC|]. rewrite E1. apply seek_file.
  - (* set_len *)
    destruct (N.eq_dec n (h_total h)) as [En|En].
    + exists V. apply N.eqb_eq in En. rewrite En. split; [reflexivity|].
      rewrite E1. unfold h_set_len', h_set_len. rewrite En. cbn [fst]. exact HV.
    + destruct (setlen_frames_full f now i n h V f' r Hh HG HC HV En H) as (_ & _ & _ & HV' & _).
      exists (resized (absV h V) n). apply N.eqb_neq in En. rewrite En. split; [reflexivity|exact HV'].
  - (* flush *)
    destruct (flush_frames_full f now i h V f' r Hh HG HC HV H) as (_ & _ & _ & HV' & _).
    exists (absV h V). split; [reflexivity|exact HV'].
  - (* len *) exists V. split; [reflexivity|]. rewrite E1. exact HV.
  - (* pos *) exists V. split; [reflexivity|]. rewrite E1. exact HV.
  - (* drop *)
    destruct (drop_frames_full f now i h V f' r Hh HG HC HV H) as (_ & _ & _ & HV' & _).
    exists (absV h V). split; [reflexivity|exact HV'].
Qed.

Section TreeRun.
Import QueryRefine MutRefine.

(* the tree after ANY handle operation in any covered case *)
Theorem handle_op_refines_full : forall f now o i h f' r t names st bs,
  is_handle_op o i -> nthN (hs f) i = Some (Some h) ->
  CohTree (cs f) -> covered_op2 o h (cs f) ->
  step f now o = (f', r) ->
  TreeRep (dirs (cs f)) (stream_content (cs f)) t -> Unshared (dirs (cs f)) t ->
  lookup_chain (dirs (cs f)) names ROOT_STREAM_ID = Ok (Some (h_id h)) ->
  Tree.get t names = Some (Tree.Leaf st bs) ->
  exists bs', own_after o h bs bs' /\
    TreeRep (dirs (cs f')) (stream_content (cs f')) (Tree.update t names (fun _ => Tree.Leaf st bs')) /\
    Unshared (dirs (cs f')) (Tree.update t names (fun _ => Tree.Leaf st bs')).
Proof.
  intros f now o i h f' r t names st bs Ho Hh HG HC H HT HU Hlk G.
  pose proof (tree_leaf_content _ _ _ _ _ _ _ HT Hlk G) as HV.
  destruct (handle_op_own_full f now o i h bs f' r Ho Hh HG HC HV H) as (bs' & Hown & HV').
  exists bs'. split; [exact Hown|].
  exact (handle_op_tree_full f now o i h f' r t names st bs bs' Ho Hh HG HC H HT HU Hlk G HV').
Qed.

(* the stream of the handle is a stream of the file, reachable by a path *)
Definition live (s : cstate) (id : N) : Prop :=
  exists names e, lookup_chain (dirs s) names ROOT_STREAM_ID = Ok (Some id) /\
                  nthN (dirs s) id = Some e /\ d_type e = TStream.

Definition step_live (f : fstate) (o : op) : Prop :=
  forall i h, handle_slot o = Some i -> nthN (hs f) i = Some (Some h) -> live (cs f) (h_id h).

Fixpoint hist_live (f : fstate) (l : list (N * op)) : Prop :=
  match l with
  | [] => True
  | (now, o) :: t => step_live f o /\ hist_live (fst (step f now o)) t
  end.

(* one step on trees: what the model predicts *)
Definition tree_step (f : fstate) (o : op) (t t' : Tree.node) : Prop :=
  match handle_slot o with
  | Some i =>
    match nthN (hs f) i with
    | Some (Some h) =>
        exists names st bs bs',
          lookup_chain (dirs (cs f)) names ROOT_STREAM_ID = Ok (Some (h_id h)) /\
          Tree.get t names = Some (Tree.Leaf st bs) /\ own_after o h bs bs' /\
          t' = Tree.update t names (fun _ => Tree.Leaf st bs')
    | _ => t' = t
    end
  | None =>
    match o with
    | ORemoveStream p =>
        exists names st bs, name_chain_from_path p = Ok names /\
          Tree.get t names = Some (Tree.Leaf st bs) /\ t' = Tree.remove_at t names
    | _ => t' = t
    end
  end.

Fixpoint tree_hist (f : fstate) (l : list (N * op)) (t t' : Tree.node) : Prop :=
  match l with
  | [] => t' = t
  | (now, o) :: r => exists t1, tree_step f o t t1 /\ tree_hist (fst (step f now o)) r t1 t'
  end.

Theorem step_refines_full : forall f now o t,
  CohTree (cs f) -> step_ok2 f o -> step_live f o ->
  TreeRep (dirs (cs f)) (stream_content (cs f)) t -> Unshared (dirs (cs f)) t ->
  let f' := fst (step f now o) in
  exists t', tree_step f o t t' /\
    TreeRep (dirs (cs f')) (stream_content (cs f')) t' /\ Unshared (dirs (cs f')) t'.
Proof.
  intros f now o t HG Hok Hlive HT HU f'. subst f'. unfold step_ok2 in Hok. unfold tree_step, step_live in *.
  assert (Hsame : cs (fst (step f now o)) = cs f ->
            exists t', t' = t /\
              TreeRep (dirs (cs (fst (step f now o)))) (stream_content (cs (fst (step f now o)))) t' /\
              Unshared (dirs (cs (fst (step f now o)))) t').
  { intros ->. exists t. auto. }
  destruct (handle_slot o) as [i|] eqn:Eslot.
  - destruct (nthN (hs f) i) as [[h|]|] eqn:Eh.
    + destruct (step f now o) as [f' r] eqn:Es. cbn [fst].
      destruct (Hlive i h eq_refl Eh) as (names & e & Hlk & He & Hty).
      pose proof (lookup_get _ _ _ _ _ HT Hlk) as Hg.
      destruct (Tree.get t names) as [[st bs|m ks]|] eqn:G; [| |contradiction].
      * destruct (handle_op_refines_full f now o i h f' r t names st bs Eslot Eh HG (Hok h eq_refl) Es HT HU Hlk G)
          as (bs' & Hown & HT' & HU').
        eexists. split; [|split; [exact HT'|exact HU']].
        exists names, st, bs, bs'. auto.
      * exfalso. destruct Hg as (nm & HNR). apply NodeRep_dir in HNR.
        destruct HNR as (_ & e0 & He0 & _ & Ht0 & _). assert (e0 = e) by congruence. subst e0.
        rewrite Hty in Ht0. destruct (is_nil names); discriminate Ht0.
    + apply Hsame. rewrite (step_no_handle f now o i Eslot); [reflexivity|].
      intros h E. rewrite Eh in E. discriminate E.
    + apply Hsame. rewrite (step_no_handle f now o i Eslot); [reflexivity|].
      intros h E. rewrite Eh in E. discriminate E.
  - destruct o; cbn [handle_slot] in Eslot; try discriminate Eslot; cbn [query_op] in Hok;
      try contradiction; cbn [step].
    + apply Hsame, with_new_handle_pure, pure_api_open_stream.
    + (* remove *)
      destruct Hok as (id & e & Hid & He & Hpos & Hres).
      unfold with_cs. destruct (api_remove_stream p (cs f)) as [s' r] eqn:E. cbn [snd] in Hres. subst r.
      cbn [fst cs].
      destruct (remove_stream_tree_full p now (cs f) s' id e t HG E Hid He Hpos HT HU)
        as (names & st & bs & En & G & _ & HT' & HU').
      eexists. split; [|split; [exact HT'|exact HU']]. exists names, st, bs. auto.
    + apply Hsame, PersistProofs.with_cs_pure, PersistProofs.pure_api_exists.
    + apply Hsame, PersistProofs.with_cs_pure, PersistProofs.pure_api_is_stream.
    + apply Hsame, PersistProofs.with_cs_pure, PersistProofs.pure_api_is_storage.
    + apply Hsame, PersistProofs.with_cs_pure, PersistProofs.pure_api_entry.
    + apply Hsame, PersistProofs.with_cs_pure, PersistProofs.pure_api_root_entry.
    + apply Hsame, PersistProofs.with_cs_pure, PersistProofs.pure_api_read_storage.
    + apply Hsame, PersistProofs.with_cs_pure, PersistProofs.pure_api_read_root.
    + apply Hsame, PersistProofs.with_cs_pure, PersistProofs.pure_api_walk.
    + apply Hsame, PersistProofs.with_cs_pure, PersistProofs.pure_api_walk_storage.
    + apply Hsame. reflexivity.
    + apply Hsame. reflexivity.
    + (* reopen *)
      cbv zeta. rewrite (drop_all_clean _ f 0 Hok).
      rewrite (cohdata'_reopens (cs f) (proj1 HG) strict). cbn [fst cs].
      exists t. split; [reflexivity|]. apply reopen_tree_full; assumption.
Qed.

(* C01, the content half, along histories with data: the table represents at
   the end the tree obtained from the tree at the start by the model's
   predictions (a leaf replaced per handle operation, a leaf removed per
   removal, nothing for queries and reopen), with the real content relation
   [stream_content] throughout *)
Theorem data_history_refines : forall l f t,
  CohTree (cs f) -> hist_ok2 f l -> hist_live f l ->
  TreeRep (dirs (cs f)) (stream_content (cs f)) t -> Unshared (dirs (cs f)) t ->
  let f' := fst (ReadonlyTotal.run_ops f l) in
  exists t', tree_hist f l t t' /\
    TreeRep (dirs (cs f')) (stream_content (cs f')) t' /\ Unshared (dirs (cs f')) t'.
Proof.
  induction l as [|[now o] r IH]; intros f t HG Hrun Hlive HT HU f'; subst f'.
  { exists t. split; [reflexivity|split; assumption]. }
  cbn [hist_ok2] in Hrun. destruct Hrun as [Hok Hrun].
  cbn [hist_live] in Hlive. destruct Hlive as [Hl Hlive].
  destruct (step_refines_full f now o t HG Hok Hl HT HU) as (t1 & Hs & HT1 & HU1).
  rewrite PersistProofs.run_ops_cons.
  destruct (IH (fst (step f now o)) t1 (step_cohtree f now o HG Hok) Hrun Hlive HT1 HU1) as (t' & Hh & HT' & HU').
  exists t'. split; [|split; assumption]. cbn [tree_hist]. exists t1. split; assumption.
Qed.

End TreeRun.

(* ================================================================== *)
(* 9. non-vacuity, on states built by running the model                *)
(* ================================================================== *)

(* ---- A. DataPersist2.Example4's history on fA ("/a" 100 bytes in two mini
        sectors, "/b" 5000 bytes in sectors 4..13, free stack empty): "/b"
        grows to 6000 bytes (two sectors appended at the end of the file),
        then shrinks to 4200 (three sectors released).  "/a" is never
        addressed: it keeps its 100 bytes, in the cache and on disk ---- *)
Module ExampleA.
  Import HandleFrame.Example DataPersist.Example Example1 Example3 Example4.

  Definition l1 : list (N * op) := [(0, OHSetLen 1 6000); (0, OHSetLen 1 4200)].
  Definition l2 : list (N * op) :=
    [(0, ORemoveStream [47; 97]); (0, OReopen true);
     (0, OOpenStream 1 [47; 98]); (0, OHSetLen 1 5000); (0, OHWrite 1 [5; 5]); (0, OHFlush 1)].
  Lemma hist2_split : hist2 = l1 ++ l2.
  Proof. reflexivity. Qed.

  Lemma a_content : stream_content (cs fA) 1 bytes100.
  Proof.
    assert (E : cs fA = cs fB) by (vm_compute; reflexivity). rewrite E. right; left. exact a_small.
  Qed.

  Lemma a_untouched : untouched fA l1 1.
  Proof.
    unfold l1. cbn [untouched]. change (fst (step fA 0 (OHSetLen 1 6000))) with g1.
    unfold touched; cbn [handle_slot].
    split; [|split; [|exact I]].
    - intros (h & E & Hid). vm_compute in E. injection E as <-. vm_compute in Hid. discriminate Hid.
    - intros (h & E & Hid). vm_compute in E. injection E as <-. vm_compute in Hid. discriminate Hid.
  Qed.

  Example a_kept_through_growth_and_release :
    stream_content (cs g2) 1 bytes100 /\
    (forall strict, exists s2,
       open_model strict (concat_img (img (cs g2))) = Ok s2 /\ stream_content s2 1 bytes100).
  Proof.
    assert (E : fst (run_ops fA l1) = g2) by (vm_compute; reflexivity).
    pose proof (data_history_frames_prefix l1 l2 fA fA_ct) as X. rewrite <- hist2_split in X.
    specialize (X hist2_ok 1 bytes100 a_untouched a_content). cbv zeta in X. rewrite E in X. exact X.
  Qed.

  (* by evaluation: sectors were appended, then released; "/a" reads the same *)
  Example a_kept_evaluated :
    nsect (cs fA) = 14 /\ nsect (cs g1) = 16 /\ free (cs g1) = [] /\ free (cs g2) = [13; 14; 15] /\
    snd (read_data 1 0 200 (cs fA)) = Ok bytes100 /\
    snd (read_data 1 0 200 (cs g1)) = Ok bytes100 /\
    snd (read_data 1 0 200 (cs g2)) = Ok bytes100 /\
    snd (read_data 1 0 200 (reopened (cs g2))) = Ok bytes100.
  Proof. repeat split; vm_compute; reflexivity. Qed.

  (* the step-level statement for the first operation (allocation at the end
     of the file: outside HandleFrame's [covered_op]) *)
  Lemma A1 : nthN (hs fA) 1 = Some (Some (slot fA 1)).
  Proof. vm_compute. reflexivity. Qed.
  Lemma B1 : nthN (hs g1) 1 = Some (Some (slot g1 1)).
  Proof. vm_compute. reflexivity. Qed.
  Lemma cov1 : covered_op2 (OHSetLen 1 6000) (slot fA 1) (cs fA).
  Proof.
    pose proof hist2_ok as H. unfold hist2 in H. cbn [hist_ok2] in H. destruct H as [H _].
    unfold step_ok2 in H. cbn [handle_slot] in H. exact (H _ A1).
  Qed.
  Lemma cov2 : covered_op2 (OHSetLen 1 4200) (slot g1 1) (cs g1).
  Proof.
    pose proof hist2_ok as H. unfold hist2 in H. cbn [hist_ok2] in H. destruct H as [_ [H _]].
    change (fst (step fA 0 (OHSetLen 1 6000))) with g1 in H.
    unfold step_ok2 in H. cbn [handle_slot] in H. exact (H _ B1).
  Qed.
  Lemma step1 : step fA 0 (OHSetLen 1 6000) = (g1, Ok VUnit).
  Proof. vm_compute. reflexivity. Qed.
  Lemma step2 : step g1 0 (OHSetLen 1 4200) = (g2, Ok VUnit).
  Proof. vm_compute. reflexivity. Qed.
  Lemma g1_ct : CohTree (cs g1).
  Proof. pose proof (step_cohtree fA 0 (OHSetLen 1 6000) fA_ct) as X. rewrite step1 in X. apply X.
    unfold step_ok2. cbn [handle_slot]. intros h E. rewrite A1 in E. injection E as <-. exact cov1. Qed.
  Lemma g2_ct : CohTree (cs g2).
  Proof. pose proof (step_cohtree g1 0 (OHSetLen 1 4200) g1_ct) as X. rewrite step2 in X. apply X.
    unfold step_ok2. cbn [handle_slot]. intros h E. rewrite B1 in E. injection E as <-. exact cov2. Qed.

  Example growth_frames_a :
    nthN (dirs (cs g1)) 1 = nthN (dirs (cs fA)) 1 /\
    stream_content (cs g1) 1 bytes100 /\
    nthN (hs g1) 0 = nthN (hs fA) 0 /\ CohTree (cs g1).
  Proof.
    assert (Hid : h_id (slot fA 1) = 2) by (vm_compute; reflexivity).
    destruct (handle_op_frames_others_full fA 0 (OHSetLen 1 6000) 1 (slot fA 1) g1 (Ok VUnit)
                eq_refl A1 fA_ct cov1 step1) as (F1 & _ & _ & F4 & _ & F6 & _ & _ & F9).
    rewrite Hid in F1, F4.
    split; [apply F1; discriminate|]. split; [apply F4; [discriminate|exact a_content]|].
    split; [apply F6; discriminate|exact F9].
  Qed.

  (* ---- the abstract tree through allocation, release and removal ---- *)
  Lemma fA_tree_c : QueryRefine.TreeRep (dirs (cs fA)) (stream_content (cs fA)) (tree_with bytes100 Vb) /\
                    QueryRefine.Unshared (dirs (cs fA)) (tree_with bytes100 Vb).
  Proof.
    assert (E : cs fA = cs fB) by (vm_compute; reflexivity). rewrite E. split; [exact fB_tree|exact fB_unshared].
  Qed.

  Lemma g1_b : stream_content (cs g1) 2 V1.
  Proof.
    assert (Hwf : AllStreamsWf (cs g1)) by (apply allwf_b_sound; vm_compute; reflexivity).
    left. apply (big_check (cs g1) V1 ids1 Hwf). vm_compute. reflexivity.
  Qed.
  Lemma g2_b : stream_content (cs g2) 2 V2.
  Proof.
    assert (Hwf : AllStreamsWf (cs g2)) by (apply allwf_b_sound; vm_compute; reflexivity).
    left. apply (big_check (cs g2) V2 ids2 Hwf). vm_compute. reflexivity.
  Qed.

  Example growth_tree :
    QueryRefine.TreeRep (dirs (cs g1)) (stream_content (cs g1)) (tree_with bytes100 V1) /\
    QueryRefine.Unshared (dirs (cs g1)) (tree_with bytes100 V1).
  Proof.
    assert (Hid : h_id (slot fA 1) = 2) by (vm_compute; reflexivity).
    pose proof (handle_op_tree_full fA 0 (OHSetLen 1 6000) 1 (slot fA 1) g1 (Ok VUnit) (tree_with bytes100 Vb)
                  [[98]] 0 Vb V1 eq_refl A1 fA_ct cov1 step1 (proj1 fA_tree_c) (proj2 fA_tree_c)) as X.
    rewrite Hid in X. apply X.
    - vm_compute. reflexivity.
    - vm_compute. reflexivity.
    - exact g1_b.
  Qed.

  Example release_tree :
    QueryRefine.TreeRep (dirs (cs g2)) (stream_content (cs g2)) (tree_with bytes100 V2) /\
    QueryRefine.Unshared (dirs (cs g2)) (tree_with bytes100 V2).
  Proof.
    assert (Hid : h_id (slot g1 1) = 2) by (vm_compute; reflexivity).
    pose proof (handle_op_tree_full g1 0 (OHSetLen 1 4200) 1 (slot g1 1) g2 (Ok VUnit) (tree_with bytes100 V1)
                  [[98]] 0 V1 V2 eq_refl B1 g1_ct cov2 step2 (proj1 growth_tree) (proj2 growth_tree)) as X.
    rewrite Hid in X. apply X.
    - vm_compute. reflexivity.
    - vm_compute. reflexivity.
    - exact g2_b.
  Qed.

  (* the removal of the small "/a" (its two mini sectors are freed, the
     MiniFAT is truncated): "/b" keeps its 4200 bytes, the table represents
     the tree without the leaf *)
  Example removal_frames_b :
    CohTree (cs g3) /\ nthN (dirs (cs g3)) 1 = Some dirent_unallocated /\
    stream_content (cs g3) 2 V2 /\
    QueryRefine.TreeRep (dirs (cs g3)) (stream_content (cs g3)) (Tree.remove_at (tree_with bytes100 V2) [[97]]) /\
    QueryRefine.Unshared (dirs (cs g3)) (Tree.remove_at (tree_with bytes100 V2) [[97]]).
  Proof.
    assert (Hrun : api_remove_stream [47; 97] (cs g2) = (cs g3, Ok tt)) by (vm_compute; reflexivity).
    assert (Hid : MutRefine.id_of_path (cs g2) [47; 97] = Some 1) by (vm_compute; reflexivity).
    assert (He : nthN (dirs (cs g2)) 1 = Some (ent_at (dirs (cs g2)) 1)) by (vm_compute; reflexivity).
    assert (Hpos : 0 < d_len (ent_at (dirs (cs g2)) 1) \/ SA.empty_at (cs g2) 1 (ent_at (dirs (cs g2)) 1))
      by (left; vm_compute; reflexivity).
    destruct (remove_stream_frames_full [47; 97] (cs g2) (cs g3) 1 _ g2_ct Hrun Hid He Hpos)
      as (C & _ & Hun & _ & O).
    split; [exact C|]. split; [exact Hun|]. split; [apply O; [discriminate|exact g2_b]|].
    destruct (remove_stream_tree_full [47; 97] 0 (cs g2) (cs g3) 1 _ (tree_with bytes100 V2) g2_ct Hrun Hid He Hpos
                (proj1 release_tree) (proj2 release_tree)) as (names & st & bs & En & _ & _ & HT' & HU').
    vm_compute in En. injection En as <-. split; [exact HT'|exact HU'].
  Qed.

  Example removal_evaluated :
    Tree.remove_at (tree_with bytes100 V2) [[97]] = Tree.Dir (Tree.mkMeta 0 0 0 0) [([98], Tree.Leaf 0 V2)] /\
    minifat (cs g2) = [1; END_OF_CHAIN] /\ minifat (cs g3) = [] /\
    snd (read_data 2 0 5000 (cs g3)) = Ok V2 /\
    snd (read_data 2 0 5000 (reopened (cs g3))) = Ok V2.
  Proof. repeat split; vm_compute; reflexivity. Qed.
End ExampleA.

(* ---- B. DataPersist2.Example6's history on fH ("/b" 5000 bytes large, "/c"
        70 bytes small, "/d" empty; FAT free stack empty, mini free list
        [0; 1]): "/b" migrates large -> small (its ten sectors are freed, its
        bytes move into mini sectors 1 and 0), "/c" migrates small -> large
        (its mini sectors 2 and 3 are freed and the MiniFAT is truncated, nine
        of the sectors "/b" freed are popped), "/d" receives its first 100
        bytes (two mini sectors appended), the file is reopened ---- *)
Module ExampleB.
  Import HandleFrame.Example DataPersist.Example Example1 Example3 Example4 Example5 Example6.

  Lemma A1 : nthN (hs fH) 1 = Some (Some (slot fH 1)).
  Proof. vm_compute. reflexivity. Qed.
  Lemma step1 : step fH 0 (OHSetLen 1 100) = (k1, Ok VUnit).
  Proof. vm_compute. reflexivity. Qed.
  Lemma ok1 : step_ok2 fH (OHSetLen 1 100).
  Proof. pose proof hist3_ok as H. unfold hist3 in H. cbn [hist_ok2] in H. exact (proj1 H). Qed.
  Lemma cov1 : covered_op2 (OHSetLen 1 100) (slot fH 1) (cs fH).
  Proof. pose proof ok1 as H. unfold step_ok2 in H. cbn [handle_slot] in H. exact (H _ A1). Qed.
  Lemma k1_ct : CohTree (cs k1).
  Proof. pose proof (step_cohtree fH 0 (OHSetLen 1 100) fH_ct ok1) as X. rewrite step1 in X. exact X. Qed.

  (* item 1 on the store call of the first step: the uniform statement gives
     the new content of "/b" in the cached state *)
  Example b_after_migration : stream_content s3b 2 (takeN 100 Vb).
  Proof.
    assert (HR : ResizeCase (cs fH) 2 100).
    { do 8 right. left. exists Vb. split; [exact b_big|]. split; [arith|]. split; [arith|].
      split; [apply SA.mini_room_b_sound; vm_compute; reflexivity|unfold RootFits; arith]. }
    destruct (resize_case_frames (cs fH) 2 100 fH_ct HR) as (s' & R & _ & _ & _ & X).
    assert (s' = s3b) by (pose proof s3b_run; congruence). subst s'.
    replace (takeN 100 Vb) with (resized Vb 100) by (apply resized_cut; arith).
    apply X. left. exact b_big.
  Qed.

  (* while "/b" migrates large -> small: "/c" keeps its 70 bytes, "/d" stays
     empty, their entries and the other handles are untouched *)
  Example migration_3b_frames_others :
    stream_content (cs k1) 3 (repeatN 7 70) /\ stream_content (cs k1) 4 [] /\
    nthN (dirs (cs k1)) 3 = nthN (dirs (cs fH)) 3 /\ nthN (dirs (cs k1)) 4 = nthN (dirs (cs fH)) 4 /\
    nthN (hs k1) 2 = nthN (hs fH) 2 /\ nthN (hs k1) 3 = nthN (hs fH) 3.
  Proof.
    assert (Hid : h_id (slot fH 1) = 2) by (vm_compute; reflexivity).
    destruct (handle_op_frames_others_full fH 0 (OHSetLen 1 100) 1 (slot fH 1) k1 (Ok VUnit)
                eq_refl A1 fH_ct cov1 step1) as (F1 & _ & _ & F4 & _ & F6 & _).
    rewrite Hid in F1, F4.
    split; [apply F4; [discriminate|right; left; exact c_small]|].
    split; [apply F4; [discriminate|apply empty_stream_content; exact d_empty]|].
    split; [apply F1; discriminate|]. split; [apply F1; discriminate|].
    split; apply F6; discriminate.
  Qed.

  (* from then on "/b" (now two mini sectors) is not addressed: it keeps its
     100 bytes while "/c" migrates small -> large, "/d" is written and the file
     is reopened *)
  Definition tail3 : list (N * op) :=
    [(0, OHSetLen 2 4200); (0, OHWrite 3 (repeatN 8 100)); (0, OHFlush 3); (0, OReopen true)].

  Lemma tail3_ok : hist_ok2 k1 tail3.
  Proof.
    pose proof hist3_ok as H. unfold hist3 in H. cbn [hist_ok2] in H. destruct H as [_ H].
    change (fst (step fH 0 (OHSetLen 1 100))) with k1 in H. exact H.
  Qed.

  Lemma b_untouched : untouched k1 tail3 2.
  Proof.
    unfold tail3. cbn [untouched].
    change (fst (step k1 0 (OHSetLen 2 4200))) with k2.
    change (fst (step k2 0 (OHWrite 3 (repeatN 8 100)))) with k3.
    change (fst (step k3 0 (OHFlush 3))) with k4.
    unfold touched; cbn [handle_slot].
    split; [|split; [|split; [|split; [|exact I]]]].
    - intros (h & E & Hid). vm_compute in E. injection E as <-. vm_compute in Hid. discriminate Hid.
    - intros (h & E & Hid). vm_compute in E. injection E as <-. vm_compute in Hid. discriminate Hid.
    - intros (h & E & Hid). vm_compute in E. injection E as <-. vm_compute in Hid. discriminate Hid.
    - intros [].
  Qed.

  Example b_kept_through_the_other_migration :
    stream_content (cs kEnd) 2 (takeN 100 Vb).
  Proof.
    assert (E : fst (run_ops k1 tail3) = kEnd) by (vm_compute; reflexivity).
    assert (Ecs : cs k1 = s3b) by (vm_compute; reflexivity).
    rewrite <- E. apply (data_history_frames tail3 k1 k1_ct tail3_ok 2 (takeN 100 Vb) b_untouched).
    rewrite Ecs. exact b_after_migration.
  Qed.

  (* by evaluation: what was freed and allocated on the way, and the bytes *)
  Example migrations_evaluated :
    free (cs fH) = [] /\ free (cs k1) = [4; 5; 6; 7; 8; 9; 10; 11; 12; 13] /\ free (cs k2) = [4] /\
    minifat (cs fH) = [FREE_SECTOR; FREE_SECTOR; 3; END_OF_CHAIN] /\
    minifat (cs k1) = [END_OF_CHAIN; 0; 3; END_OF_CHAIN] /\
    minifat (cs k2) = [END_OF_CHAIN; 0] /\
    minifat (cs k4) = [END_OF_CHAIN; 0; 3; END_OF_CHAIN] /\
    snd (read_data 3 0 400 (cs k1)) = Ok (repeatN 7 70) /\
    snd (read_data 2 0 400 (cs k1)) = Ok (takeN 100 Vb) /\
    snd (read_data 2 0 400 (cs k2)) = Ok (takeN 100 Vb) /\
    snd (read_data 2 0 400 (cs k4)) = Ok (takeN 100 Vb) /\
    snd (read_data 2 0 400 (cs kEnd)) = Ok (takeN 100 Vb).
  Proof. repeat split; vm_compute; reflexivity. Qed.
End ExampleB.

(* ---- C. the whole history of Example4 at the level of trees: growth at the
        end of the file, release, removal of "/a", reopen, open, growth from
        the rebuilt free list, a buffered write and its flush ---- *)
Module ExampleC.
  Import HandleFrame.Example DataPersist.Example Example1 Example3 Example4 ExampleA.

  Ltac live_step :=
    let i := fresh "i" in let h := fresh "h" in let E := fresh "E" in let Hh := fresh "Hh" in
    intros i h E Hh; cbn [handle_slot] in E;
    first [ discriminate E
          | injection E as <-; vm_compute in Hh; injection Hh as <-;
            exists [[98]]; eexists; split; [vm_compute; reflexivity|split; vm_compute; reflexivity] ].

  Lemma hist2_live : hist_live fA hist2.
  Proof.
    unfold hist2. cbn [hist_live].
    change (fst (step fA 0 (OHSetLen 1 6000))) with g1.
    change (fst (step g1 0 (OHSetLen 1 4200))) with g2.
    change (fst (step g2 0 (ORemoveStream [47; 97]))) with g3.
    change (fst (step g3 0 (OReopen true))) with g4.
    change (fst (step g4 0 (OOpenStream 1 [47; 98]))) with g5.
    change (fst (step g5 0 (OHSetLen 1 5000))) with g6.
    change (fst (step g6 0 (OHWrite 1 [5; 5]))) with g7.
    unfold step_live.
    repeat (split; [live_step|]). exact I.
  Qed.

  Example hist2_refines :
    exists t', tree_hist fA hist2 (tree_with bytes100 Vb) t' /\
      QueryRefine.TreeRep (dirs (cs gEnd)) (stream_content (cs gEnd)) t' /\
      QueryRefine.Unshared (dirs (cs gEnd)) t'.
  Proof.
    pose proof (data_history_refines hist2 fA (tree_with bytes100 Vb) fA_ct hist2_ok hist2_live
                  (proj1 fA_tree_c) (proj2 fA_tree_c)) as X.
    cbv zeta in X. rewrite hist2_end in X. exact X.
  Qed.

  Example hist2_end_bytes :
    snd (read_data 2 0 6000 (cs gEnd)) = Ok (spliceN V6 0 [5; 5]) /\
    snd (api_exists [47; 97] (cs gEnd)) = Ok false.
  Proof. split; vm_compute; reflexivity. Qed.
End ExampleC.

(* ------------------------------------------------------------------ *)
Check resize_case_frames_d.
Check write_case_frames_d.
Check resize_case_frames.
Check write_case_frames.
Check hop_run_frameR.
Check hop_run_frames_full.
Check handle_op_frames_others_full.
Check handle_op_tree_full.
Check remove_stream_frames_full.
Check remove_stream_tree_full.
Check step_frames_full.
Check data_history_frames.
Check data_history_frames_prefix.
Check flush_changes_full.
Check flush_frames_full.
Check drop_frames_full.
Check setlen_frames_full.
Check setlen_tree_full.
Check flush_tree_full.
Check drop_tree_full.
Check step_entry_frames.
Check data_history_entry_frames.
Check reopen_tree_full.
Check data_history_tree_leaf.
Check handle_op_own_full.
Check handle_op_refines_full.
Check step_refines_full.
Check data_history_refines.

Print Assumptions resize_case_frames_d.
Print Assumptions write_case_frames_d.
Print Assumptions resize_case_frames.
Print Assumptions write_case_frames.
Print Assumptions hop_run_frameR.
Print Assumptions hop_run_frames_full.
Print Assumptions handle_op_frames_others_full.
Print Assumptions handle_op_tree_full.
Print Assumptions remove_stream_frames_full.
Print Assumptions remove_stream_tree_full.
Print Assumptions step_frames_full.
Print Assumptions data_history_frames.
Print Assumptions data_history_frames_prefix.
Print Assumptions flush_changes_full.
Print Assumptions flush_frames_full.
Print Assumptions drop_frames_full.
Print Assumptions setlen_frames_full.
Print Assumptions setlen_tree_full.
Print Assumptions flush_tree_full.
Print Assumptions drop_tree_full.
Print Assumptions step_entry_frames.
Print Assumptions data_history_entry_frames.
Print Assumptions reopen_tree_full.
Print Assumptions data_history_tree_leaf.
Print Assumptions handle_op_own_full.
Print Assumptions handle_op_refines_full.
Print Assumptions step_refines_full.
Print Assumptions data_history_refines.
Print Assumptions ExampleA.a_kept_through_growth_and_release.
Print Assumptions ExampleA.removal_frames_b.
Print Assumptions ExampleB.b_kept_through_the_other_migration.
Print Assumptions ExampleB.migration_3b_frames_others.
Print Assumptions ExampleC.hist2_refines.
