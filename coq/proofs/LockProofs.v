(* LockProofs.v — theorems about model/Lock.v.

   1. non_nested_progress      : well bracketed + depth <= 1 (+ guarded accesses)
                                 => no reachable configuration is stuck,
                                 for any number of threads, any admissible
                                 policy, any schedule.
   2. measure_decreases,
      all_runs_terminate       : every step decreases `measure`; every
                                 execution is finite and ends final.
   3. nested_read_deadlocks    : reader re-requesting the read lock + writer
                                 + writer preference reach a stuck state.
   4. reads_see_whole_sections : every observed value is the shared state at
                                 the end of a completed write section (or the
                                 initial one); at observation time no write
                                 section is in progress. *)
From Coq Require Import List Arith Bool Lia.
Import ListNotations.
From Cfb.model Require Import Lock.

(* ================================================================== *)
(* Lists                                                              *)

Lemma nth_error_upd_same : forall (A : Type) (l : list A) i x y,
  nth_error l i = Some y -> nth_error (upd i x l) i = Some x.
Proof.
  induction l as [|a l IH]; intros [|i] x y H; simpl in *;
    try discriminate; eauto.
Qed.

Lemma nth_error_upd_other : forall (A : Type) (l : list A) i j x,
  i <> j -> nth_error (upd i x l) j = nth_error l j.
Proof.
  induction l as [|a l IH]; intros [|i] [|j] x H; simpl; auto;
    try congruence.
Qed.

Lemma upd_same : forall (A : Type) (l : list A) i x,
  nth_error l i = Some x -> upd i x l = l.
Proof.
  induction l as [|a l IH]; intros [|i] x H; simpl in *;
    try discriminate; try congruence.
  f_equal; auto.
Qed.

Lemma In_upd : forall (A : Type) (l : list A) i x y,
  In y (upd i x l) -> y = x \/ In y l.
Proof.
  induction l as [|a l IH]; intros [|i] x y H; simpl in *; auto.
  - destruct H; auto.
  - destruct H as [H|H]; auto. apply IH in H. tauto.
Qed.

Lemma In_upd_rev : forall (A : Type) (l : list A) i x old y,
  nth_error l i = Some old -> In y l -> y = old \/ In y (upd i x l).
Proof.
  intros A l i x old y Hold Hin.
  apply In_nth_error in Hin. destruct Hin as [j Hj].
  destruct (Nat.eq_dec i j) as [->|Hne].
  - left. congruence.
  - right. apply nth_error_In with j. rewrite nth_error_upd_other; auto.
Qed.

Lemma In_upd_new : forall (A : Type) (l : list A) i x old,
  nth_error l i = Some old -> In x (upd i x l).
Proof.
  intros. apply nth_error_In with i. eapply nth_error_upd_same; eauto.
Qed.

(* ================================================================== *)
(* Boolean reflections                                                *)

Lemma act_mode_acq : forall a m, act_mode a = Some m -> a = acq m.
Proof. intros [] [] H; simpl in *; congruence. Qed.

Lemma mode_eqb_eq : forall a b, mode_eqb a b = true -> a = b.
Proof. intros [] []; simpl; congruence. Qed.

Lemma in_waiting_In : forall w i m, in_waiting w i m = true -> In (i, m) w.
Proof.
  unfold in_waiting. intros w i m H. apply existsb_exists in H.
  destruct H as [[j m'] [Hin Hb]]. simpl in Hb.
  apply andb_true_iff in Hb. destruct Hb as [Hj Hm].
  apply Nat.eqb_eq in Hj. apply mode_eqb_eq in Hm. subst. exact Hin.
Qed.

Lemma existsb_isW : forall hs, existsb isW hs = true <-> In W hs.
Proof.
  intros hs. rewrite existsb_exists. split.
  - intros [[] [Hin Hb]]; simpl in Hb; congruence.
  - intros H. exists W. auto.
Qed.

Lemma existsb_isR : forall hs, existsb isR hs = true <-> In R hs.
Proof.
  intros hs. rewrite existsb_exists. split.
  - intros [[] [Hin Hb]]; simpl in Hb; congruence.
  - intros H. exists R. auto.
Qed.

Lemma compatb_compat : forall ts m, compatb ts m = true -> compat ts m.
Proof.
  intros ts [] H; simpl in *; rewrite forallb_forall in H; intros t Ht.
  - intro HW. apply H in Ht. apply existsb_isW in HW. rewrite HW in Ht.
    discriminate.
  - apply H in Ht. unfold holds_none in Ht. destruct (held t); congruence.
Qed.

Lemma is_waiting_In : forall w i m, In (i, m) w -> is_waiting w i = true.
Proof.
  intros w i m H. unfold is_waiting. apply existsb_exists.
  exists (i, m). split; auto. simpl. apply Nat.eqb_refl.
Qed.

Lemma is_waiting_app : forall w i m j,
  is_waiting (w ++ [(i, m)]) j = is_waiting w j || (i =? j).
Proof.
  intros. unfold is_waiting. rewrite existsb_app. simpl.
  rewrite orb_false_r. reflexivity.
Qed.

Lemma is_waiting_unwait : forall w i j,
  is_waiting (unwait i w) j = if j =? i then false else is_waiting w j.
Proof.
  induction w as [|[k m] w IH]; intros i j; simpl.
  - destruct (j =? i); reflexivity.
  - destruct (Nat.eqb_spec k i) as [->|Hki]; simpl.
    + rewrite IH. destruct (Nat.eqb_spec j i) as [->|Hji]; auto.
      destruct (Nat.eqb_spec i j); try congruence. reflexivity.
    + rewrite IH. destruct (Nat.eqb_spec j i) as [->|Hji]; auto.
      destruct (Nat.eqb_spec k i); try congruence. reflexivity.
Qed.

Lemma In_unwait : forall w i j m,
  In (j, m) (unwait i w) -> In (j, m) w /\ j <> i.
Proof.
  unfold unwait. intros w i j m H. apply filter_In in H.
  destruct H as [Hin Hb]. split; auto. simpl in Hb.
  intros ->. rewrite Nat.eqb_refl in Hb. discriminate.
Qed.

Lemma compat_W_any : forall ts m, compat ts W -> compat ts m.
Proof.
  intros ts [] H; auto. simpl in *. intros t Ht HW.
  rewrite (H t Ht) in HW. destruct HW.
Qed.

(* ================================================================== *)
(* exec is sound for step                                             *)

Lemma exec_sound : forall policy c l c',
  exec policy c l = Some c' -> step policy c l c'.
Proof.
  intros policy c l c' H. destruct l as [i|i|i|i|i]; simpl in H;
    destruct (nth_error (threads c) i) as [t|] eqn:Ht; try discriminate.
  - destruct (prog t) as [|a rest] eqn:Hp; try discriminate.
    destruct (act_mode a) as [m|] eqn:Ha; try discriminate.
    destruct (is_waiting (waiting c) i) eqn:Hw; try discriminate.
    inversion H; subst. apply act_mode_acq in Ha. subst a.
    eapply S_Req; eauto.
  - destruct (prog t) as [|a rest] eqn:Hp; try discriminate.
    destruct (act_mode a) as [m|] eqn:Ha; try discriminate.
    destruct (in_waiting (waiting c) i m && compatb (threads c) m
              && policy c i) eqn:Hb; try discriminate.
    inversion H; subst. apply act_mode_acq in Ha. subst a.
    apply andb_true_iff in Hb. destruct Hb as [Hb Hpol].
    apply andb_true_iff in Hb. destruct Hb as [Hin Hc].
    eapply S_Grant; eauto using in_waiting_In, compatb_compat.
  - destruct (prog t) as [|a rest] eqn:Hp; try discriminate.
    destruct a; try discriminate.
    destruct (held t) as [|m hs] eqn:Hh; try discriminate.
    inversion H; subst. eapply S_Rel; eauto.
  - destruct (prog t) as [|a rest] eqn:Hp; try discriminate.
    destruct a; try discriminate.
    destruct (existsb isR (held t)) eqn:Hh; try discriminate.
    inversion H; subst. eapply S_Read; eauto. apply existsb_isR; auto.
  - destruct (prog t) as [|a rest] eqn:Hp; try discriminate.
    destruct a; try discriminate.
    destruct (existsb isW (held t)) eqn:Hh; try discriminate.
    inversion H; subst. eapply S_Write; eauto. apply existsb_isW; auto.
Qed.

Lemma exec_all_sound : forall policy ls c c',
  exec_all policy c ls = Some c' -> run policy c ls c'.
Proof.
  induction ls as [|l ls IH]; intros c c' H; simpl in H.
  - inversion H; subst. constructor.
  - destruct (exec policy c l) as [c1|] eqn:He; try discriminate.
    econstructor; eauto using exec_sound.
Qed.

(* ================================================================== *)
(* Runs                                                               *)

Lemma run_app : forall policy c1 ls1 c2 ls2 c3,
  run policy c1 ls1 c2 -> run policy c2 ls2 c3 -> run policy c1 (ls1 ++ ls2) c3.
Proof.
  induction 1; intros; simpl; auto. econstructor; eauto.
Qed.

Lemma reachable_refl : forall policy c, reachable policy c c.
Proof. intros. exists []. constructor. Qed.

Lemma reachable_step : forall policy c0 c l c',
  reachable policy c0 c -> step policy c l c' -> reachable policy c0 c'.
Proof.
  intros policy c0 c l c' [ls Hr] Hs. exists (ls ++ [l]).
  eapply run_app; eauto. econstructor; eauto. constructor.
Qed.

Lemma reachable_run : forall policy c0 c ls c',
  reachable policy c0 c -> run policy c ls c' -> reachable policy c0 c'.
Proof.
  intros policy c0 c ls c' [ls0 Hr] Hs. exists (ls0 ++ ls).
  eapply run_app; eauto.
Qed.

Lemma run_invariant : forall policy (P : config -> Prop),
  (forall c l c', P c -> step policy c l c' -> P c') ->
  forall c ls c', run policy c ls c' -> P c -> P c'.
Proof.
  intros policy P Hstep c ls c' Hr. induction Hr; eauto.
Qed.

Lemma reachable_invariant : forall policy (P : config -> Prop) c0,
  P c0 ->
  (forall c l c', P c -> step policy c l c' -> P c') ->
  forall c, reachable policy c0 c -> P c.
Proof.
  intros policy P c0 H0 Hstep c [ls Hr]. eapply run_invariant; eauto.
Qed.

(* ================================================================== *)
(* Theorem 1: progress for non-nested programs                        *)

(* A pending request belongs to an existing thread whose next act is that
   very acquire (so a waiting thread can do nothing but be granted).
   Holds for arbitrary programs. *)
Definition wait_ok (c : config) : Prop :=
  forall i m, In (i, m) (waiting c) ->
    exists t rest, nth_error (threads c) i = Some t /\ prog t = acq m :: rest.

(* Per thread: the remaining program is well bracketed, of depth <= 1 and
   guarded, all relative to the guards currently held. *)
Definition tinv (t : thread) : Prop :=
  wb_from (length (held t)) (prog t) /\
  depth_from (length (held t)) (prog t) /\
  guarded_from (held t) (prog t).

Definition threads_ok (c : config) : Prop :=
  forall t, In t (threads c) -> tinv t.

Definition inv_live (c : config) : Prop := wait_ok c /\ threads_ok c.

(* consequences of tinv *)
Lemma depth_from_le : forall d p, depth_from d p -> d <= 1.
Proof. intros d p H. destruct p; simpl in H; tauto. Qed.

Lemma tinv_depth : forall t, tinv t -> length (held t) <= 1.
Proof. intros t [_ [Hd _]]. eapply depth_from_le; eauto. Qed.

Lemma tinv_acq_holds_nothing : forall t m rest,
  tinv t -> prog t = acq m :: rest -> held t = [].
Proof.
  intros t m rest [_ [Hd _]] Hp. rewrite Hp in Hd.
  destruct (held t) as [|x hs]; auto.
  destruct m; simpl in Hd; destruct Hd as [_ Hd];
    apply depth_from_le in Hd; lia.
Qed.

(* thread-level preservation *)
Lemma tinv_grant : forall t m rest,
  tinv t -> prog t = acq m :: rest ->
  tinv (mkThread rest (m :: held t) (log t)).
Proof.
  unfold tinv. intros t m rest H Hp. rewrite Hp in H.
  destruct m; simpl in *; tauto.
Qed.

Lemma tinv_rel : forall t m hs rest,
  tinv t -> prog t = Rel :: rest -> held t = m :: hs ->
  tinv (mkThread rest hs (log t)).
Proof.
  unfold tinv. intros t m hs rest H Hp Hh. rewrite Hp, Hh in H.
  simpl in *. tauto.
Qed.

Lemma tinv_read : forall t v rest,
  tinv t -> prog t = Read :: rest ->
  tinv (mkThread rest (held t) (v :: log t)).
Proof.
  unfold tinv. intros t v rest H Hp. rewrite Hp in H. simpl in *. tauto.
Qed.

Lemma tinv_write : forall t f rest,
  tinv t -> prog t = Write f :: rest ->
  tinv (mkThread rest (held t) (log t)).
Proof.
  unfold tinv. intros t f rest H Hp. rewrite Hp in H. simpl in *. tauto.
Qed.

(* updating a thread whose next act was not an acquire keeps wait_ok *)
Lemma wait_ok_upd_nonacq : forall ts w i t t',
  (forall j m, In (j, m) w ->
     exists t0 rest, nth_error ts j = Some t0 /\ prog t0 = acq m :: rest) ->
  nth_error ts i = Some t ->
  (forall m rest, prog t <> acq m :: rest) ->
  forall j m, In (j, m) w ->
    exists t0 rest, nth_error (upd i t' ts) j = Some t0 /\ prog t0 = acq m :: rest.
Proof.
  intros ts w i t t' Hw Ht Hna j m Hin.
  destruct (Hw j m Hin) as [t0 [rest [Hj Hp]]].
  destruct (Nat.eq_dec i j) as [->|Hne].
  - assert (t0 = t) by congruence. subst t0. exfalso. eapply Hna; eauto.
  - exists t0, rest. rewrite nth_error_upd_other; auto.
Qed.

Lemma threads_ok_upd : forall ts i t',
  (forall t, In t ts -> tinv t) -> tinv t' ->
  forall t, In t (upd i t' ts) -> tinv t.
Proof.
  intros ts i t' H Ht' t Hin. apply In_upd in Hin. destruct Hin; subst; auto.
Qed.

(* one preservation lemma per step constructor *)
Lemma live_req : forall c i t m rest,
  nth_error (threads c) i = Some t ->
  prog t = acq m :: rest ->
  inv_live c ->
  inv_live (mkConfig (threads c) (waiting c ++ [(i, m)]) (st c) (commits c)).
Proof.
  intros c i t m rest Ht Hp [Hw Hts]. split; auto.
  unfold wait_ok in *; simpl. intros j m' Hin.
  apply in_app_or in Hin. destruct Hin as [Hin|[Heq|[]]]; auto.
  inversion Heq; subst. eauto.
Qed.

Lemma live_grant : forall c i t m rest,
  nth_error (threads c) i = Some t ->
  prog t = acq m :: rest ->
  inv_live c ->
  inv_live (mkConfig (upd i (mkThread rest (m :: held t) (log t)) (threads c))
                     (unwait i (waiting c)) (st c) (commits c)).
Proof.
  intros c i t m rest Ht Hp [Hw Hts]. split.
  - unfold wait_ok in *; simpl. intros j m' Hin.
    apply In_unwait in Hin. destruct Hin as [Hin Hne].
    destruct (Hw j m' Hin) as [t0 [rest0 [Hj Hp0]]].
    exists t0, rest0. rewrite nth_error_upd_other; auto.
  - unfold threads_ok in *; simpl. apply threads_ok_upd; auto.
    apply tinv_grant; auto. apply Hts. eapply nth_error_In; eauto.
Qed.

Lemma live_rel : forall c i t m hs rest cs,
  nth_error (threads c) i = Some t ->
  prog t = Rel :: rest ->
  held t = m :: hs ->
  inv_live c ->
  inv_live (mkConfig (upd i (mkThread rest hs (log t)) (threads c))
                     (waiting c) (st c) cs).
Proof.
  intros c i t m hs rest cs Ht Hp Hh [Hw Hts]. split.
  - unfold wait_ok in *; simpl. eapply wait_ok_upd_nonacq; eauto.
    intros [] r; rewrite Hp; discriminate.
  - unfold threads_ok in *; simpl. apply threads_ok_upd; auto.
    eapply tinv_rel; eauto. apply Hts. eapply nth_error_In; eauto.
Qed.

Lemma live_read : forall c i t rest,
  nth_error (threads c) i = Some t ->
  prog t = Read :: rest ->
  inv_live c ->
  inv_live (mkConfig (upd i (mkThread rest (held t) (st c :: log t)) (threads c))
                     (waiting c) (st c) (commits c)).
Proof.
  intros c i t rest Ht Hp [Hw Hts]. split.
  - unfold wait_ok in *; simpl. eapply wait_ok_upd_nonacq; eauto.
    intros [] r; rewrite Hp; discriminate.
  - unfold threads_ok in *; simpl. apply threads_ok_upd; auto.
    eapply tinv_read; eauto. apply Hts. eapply nth_error_In; eauto.
Qed.

Lemma live_write : forall c i t f rest,
  nth_error (threads c) i = Some t ->
  prog t = Write f :: rest ->
  inv_live c ->
  inv_live (mkConfig (upd i (mkThread rest (held t) (log t)) (threads c))
                     (waiting c) (f (st c)) (commits c)).
Proof.
  intros c i t f rest Ht Hp [Hw Hts]. split.
  - unfold wait_ok in *; simpl. eapply wait_ok_upd_nonacq; eauto.
    intros [] r; rewrite Hp; discriminate.
  - unfold threads_ok in *; simpl. apply threads_ok_upd; auto.
    eapply tinv_write; eauto. apply Hts. eapply nth_error_In; eauto.
Qed.

Lemma live_step : forall policy c l c',
  inv_live c -> step policy c l c' -> inv_live c'.
Proof.
  intros policy c l c' Hinv Hs. destruct Hs.
  - eapply live_req; eauto.
  - eapply live_grant; eauto.
  - eapply live_rel; eauto.
  - eapply live_read; eauto.
  - eapply live_write; eauto.
Qed.

Lemma live_init : forall progs s0,
  Forall well_bracketed progs -> Forall depth_le1 progs -> Forall guarded progs ->
  inv_live (init progs s0).
Proof.
  intros progs s0 Hwb Hd Hg. split.
  - intros i m []. 
  - intros t Hin. simpl in Hin. apply in_map_iff in Hin.
    destruct Hin as [p [<- Hp]]. rewrite Forall_forall in *.
    unfold tinv; simpl. repeat split.
    + apply Hwb; auto.
    + apply Hd; auto.
    + apply Hg; auto.
Qed.

Lemma live_reachable : forall policy progs s0 c,
  Forall well_bracketed progs -> Forall depth_le1 progs -> Forall guarded progs ->
  reachable policy (init progs s0) c -> inv_live c.
Proof.
  intros policy progs s0 c Hwb Hd Hg Hr.
  eapply reachable_invariant with (P := inv_live); eauto using live_init.
  intros; eapply live_step; eauto.
Qed.

(* decidable case splits used by progress *)
Lemma holder_dec : forall ts,
  compat ts W \/ exists t, In t ts /\ held t <> [].
Proof.
  induction ts as [|a ts IH]; simpl.
  - left. intros t [].
  - destruct (held a) eqn:Ha.
    + destruct IH as [IH|[t [Hin Hh]]].
      * left. intros t [<-|Hin]; auto.
      * right. exists t. auto.
    + right. exists a. split; auto. rewrite Ha. discriminate.
Qed.

Lemma prog_dec : forall ts : list thread,
  (forall t, In t ts -> prog t = []) \/ exists t, In t ts /\ prog t <> [].
Proof.
  induction ts as [|a ts IH]; simpl.
  - left. intros t [].
  - destruct (prog a) eqn:Ha.
    + destruct IH as [IH|[t [Hin Hh]]].
      * left. intros t [<-|Hin]; auto.
      * right. exists t. auto.
    + right. exists a. split; auto. rewrite Ha. discriminate.
Qed.

(* a thread holding a guard can always move: sections are not nested, so its
   next act is an access it is entitled to, or the release *)
Lemma holder_can_step : forall policy c t,
  inv_live c -> In t (threads c) -> held t <> [] -> enabled policy c.
Proof.
  intros policy c t [Hw Hts] Hin Hh.
  pose proof (Hts t Hin) as [Hwb [Hd Hg]].
  apply In_nth_error in Hin. destruct Hin as [i Hi].
  destruct (held t) as [|m hs] eqn:Hheld; [congruence|].
  destruct (prog t) as [|a rest] eqn:Hp; simpl in *.
  - discriminate.
  - destruct a; simpl in *.
    + destruct Hd as [_ Hd]. apply depth_from_le in Hd. lia.
    + destruct Hd as [_ Hd]. apply depth_from_le in Hd. lia.
    + eexists. eexists. eapply S_Rel; eauto.
    + eexists. eexists. eapply S_Read; eauto. rewrite Hheld. simpl. tauto.
    + eexists. eexists. eapply S_Write; eauto. rewrite Hheld. simpl. tauto.
Qed.

(* lock free, someone waits: admissibility lets a request through *)
Lemma free_waiting_can_grant : forall policy c,
  admissible policy -> inv_live c -> lock_free c -> waiting c <> [] ->
  enabled policy c.
Proof.
  intros policy c Hadm [Hw Hts] Hfree Hne.
  destruct (Hadm c Hfree Hne) as [i [m [Hin Hpol]]].
  destruct (Hw i m Hin) as [t [rest [Hi Hp]]].
  eexists. eexists. eapply S_Grant; eauto. apply compat_W_any; auto.
Qed.

(* lock free, nobody waits, some program not exhausted: it can request *)
Lemma idle_can_request : forall policy c t,
  inv_live c -> lock_free c -> waiting c = [] ->
  In t (threads c) -> prog t <> [] -> enabled policy c.
Proof.
  intros policy c t [Hw Hts] Hfree Hnw Hin Hp.
  pose proof (Hts t Hin) as [Hwb [Hd Hg]].
  pose proof (Hfree t Hin) as Hh. rewrite Hh in *.
  apply In_nth_error in Hin. destruct Hin as [i Hi].
  destruct (prog t) as [|a rest] eqn:Hpt; [congruence|].
  destruct a; simpl in *; try tauto.
  - eexists. eexists. eapply S_Req with (m := R); eauto. rewrite Hnw. reflexivity.
  - eexists. eexists. eapply S_Req with (m := W); eauto. rewrite Hnw. reflexivity.
Qed.

Theorem progress : forall policy c,
  admissible policy -> inv_live c -> final c \/ enabled policy c.
Proof.
  intros policy c Hadm Hinv.
  destruct (holder_dec (threads c)) as [Hfree|[t [Hin Hh]]].
  - destruct (waiting c) eqn:Hw.
    + destruct (prog_dec (threads c)) as [Hall|[t [Hin Hp]]].
      * left. intros t Hin. split; auto. 
      * right. eapply idle_can_request; eauto.
    + right. eapply free_waiting_can_grant; eauto. rewrite Hw. discriminate.
  - right. eapply holder_can_step; eauto.
Qed.

Theorem non_nested_progress_strong : forall policy progs s0 cfg,
  admissible policy ->
  Forall well_bracketed progs -> Forall depth_le1 progs -> Forall guarded progs ->
  reachable policy (init progs s0) cfg ->
  final cfg \/ exists l cfg', step policy cfg l cfg'.
Proof.
  intros. apply progress; auto. eapply live_reachable; eauto.
Qed.

Theorem non_nested_progress : forall policy progs s0 cfg,
  admissible policy ->
  Forall well_bracketed progs -> Forall depth_le1 progs -> Forall guarded progs ->
  reachable policy (init progs s0) cfg ->
  ~ stuck policy cfg.
Proof.
  intros policy progs s0 cfg Hadm Hwb Hd Hg Hr [Hnf Hne].
  destruct (non_nested_progress_strong policy progs s0 cfg) as [Hf|He]; auto.
Qed.

(* programs made of lock acts only are trivially guarded, so for them
   Theorem 1 needs exactly "well bracketed with depth <= 1" *)
Definition lock_only (p : list act) : Prop :=
  forall a, In a p -> a = AcqR \/ a = AcqW \/ a = Rel.

Lemma lock_only_guarded_from : forall p hs, lock_only p -> guarded_from hs p.
Proof.
  induction p as [|a p IH]; intros hs H; simpl; auto.
  assert (Hp : lock_only p) by (intros b Hb; apply H; simpl; auto).
  destruct (H a (or_introl eq_refl)) as [Ha | [Ha | Ha]]; subst a; simpl; auto.
Qed.

Corollary non_nested_progress_lock_only : forall policy progs s0 cfg,
  admissible policy ->
  Forall lock_only progs ->
  Forall well_bracketed progs -> Forall depth_le1 progs ->
  reachable policy (init progs s0) cfg ->
  ~ stuck policy cfg.
Proof.
  intros policy progs s0 cfg Hadm Hlo Hwb Hd Hr.
  eapply non_nested_progress; eauto.
  rewrite Forall_forall in *. intros p Hp. apply lock_only_guarded_from; auto.
Qed.

(* The facts quoted in the informal argument, for the record. *)
Lemma reachable_depth_le1 : forall policy progs s0 cfg t,
  Forall well_bracketed progs -> Forall depth_le1 progs -> Forall guarded progs ->
  reachable policy (init progs s0) cfg ->
  In t (threads cfg) -> length (held t) <= 1.
Proof.
  intros policy progs s0 cfg t Hwb Hd Hg Hr Hin.
  destruct (live_reachable policy progs s0 cfg Hwb Hd Hg Hr) as [_ Hts].
  apply tinv_depth; auto.
Qed.

Lemma reachable_waiter_holds_nothing : forall policy progs s0 cfg i m,
  Forall well_bracketed progs -> Forall depth_le1 progs -> Forall guarded progs ->
  reachable policy (init progs s0) cfg ->
  In (i, m) (waiting cfg) ->
  exists t rest, nth_error (threads cfg) i = Some t /\
                 prog t = acq m :: rest /\ held t = [].
Proof.
  intros policy progs s0 cfg i m Hwb Hd Hg Hr Hin.
  destruct (live_reachable policy progs s0 cfg Hwb Hd Hg Hr) as [Hw Hts].
  destruct (Hw i m Hin) as [t [rest [Hi Hp]]].
  exists t, rest. repeat split; auto.
  eapply tinv_acq_holds_nothing; eauto. apply Hts. eapply nth_error_In; eauto.
Qed.

(* ================================================================== *)
(* Theorem 2: every step decreases the measure; all runs terminate    *)

Lemma msum_ext : forall w w' ts k,
  (forall j, k <= j -> is_waiting w' j = is_waiting w j) ->
  msum w' k ts = msum w k ts.
Proof.
  induction ts as [|t ts IH]; intros k H; simpl; auto.
  unfold tmeasure. rewrite H by lia. rewrite (IH (S k)); auto.
  intros j Hj. apply H. lia.
Qed.

(* replacing thread i (absolute index k + i) and changing the wait list
   only at that index changes the sum by the local difference *)
Lemma msum_upd : forall w w' ts k i t t',
  nth_error ts i = Some t ->
  (forall j, j <> k + i -> is_waiting w' j = is_waiting w j) ->
  msum w' k (upd i t' ts) + tmeasure w (k + i) t
  = msum w k ts + tmeasure w' (k + i) t'.
Proof.
  induction ts as [|a ts IH]; intros k i t t' Hi Hw.
  - destruct i; discriminate.
  - destruct i as [|i]; simpl in Hi |- *.
    + inversion Hi; subst a. rewrite Nat.add_0_r in *.
      rewrite (msum_ext w w' ts (S k)).
      * lia.
      * intros j Hj. apply Hw. lia.
    + assert (Ha : tmeasure w' k a = tmeasure w k a).
      { unfold tmeasure. rewrite Hw by lia. reflexivity. }
      rewrite Ha.
      specialize (IH (S k) i t t' Hi).
      replace (S k + i) with (k + S i) in IH by lia.
      specialize (IH Hw). lia.
Qed.

Lemma measure_req : forall c i t m,
  nth_error (threads c) i = Some t ->
  is_waiting (waiting c) i = false ->
  measure (mkConfig (threads c) (waiting c ++ [(i, m)]) (st c) (commits c))
  < measure c.
Proof.
  intros c i t m Ht Hnw. unfold measure; simpl.
  pose proof (msum_upd (waiting c) (waiting c ++ [(i, m)]) (threads c) 0 i t t Ht)
    as H.
  simpl in H. rewrite (upd_same _ _ _ _ Ht) in H.
  assert (Hw : forall j, j <> i ->
            is_waiting (waiting c ++ [(i, m)]) j = is_waiting (waiting c) j).
  { intros j Hj. rewrite is_waiting_app.
    destruct (Nat.eqb_spec i j); try congruence. apply orb_false_r. }
  specialize (H Hw). unfold tmeasure in H.
  rewrite is_waiting_app, Hnw, Nat.eqb_refl in H. simpl in H. lia.
Qed.

Lemma measure_grant : forall c i t a rest t',
  nth_error (threads c) i = Some t ->
  prog t = a :: rest ->
  prog t' = rest ->
  measure (mkConfig (upd i t' (threads c)) (unwait i (waiting c)) (st c) (commits c))
  < measure c.
Proof.
  intros c i t a rest t' Ht Hp Hp'. unfold measure; simpl.
  pose proof (msum_upd (waiting c) (unwait i (waiting c)) (threads c) 0 i t t' Ht)
    as H.
  simpl in H.
  assert (Hw : forall j, j <> i ->
            is_waiting (unwait i (waiting c)) j = is_waiting (waiting c) j).
  { intros j Hj. rewrite is_waiting_unwait.
    destruct (Nat.eqb_spec j i); congruence. }
  specialize (H Hw). unfold tmeasure in H.
  rewrite is_waiting_unwait, Nat.eqb_refl, Hp, Hp' in H. simpl in H.
  destruct (is_waiting (waiting c) i); lia.
Qed.

Lemma measure_advance : forall c i t a rest t' s cs,
  nth_error (threads c) i = Some t ->
  prog t = a :: rest ->
  prog t' = rest ->
  measure (mkConfig (upd i t' (threads c)) (waiting c) s cs) < measure c.
Proof.
  intros c i t a rest t' s cs Ht Hp Hp'. unfold measure; simpl.
  pose proof (msum_upd (waiting c) (waiting c) (threads c) 0 i t t' Ht) as H.
  simpl in H. specialize (H (fun _ _ => eq_refl)). unfold tmeasure in H.
  rewrite Hp, Hp' in H. simpl in H. lia.
Qed.

Theorem measure_decreases : forall policy cfg l cfg',
  step policy cfg l cfg' -> measure cfg' < measure cfg.
Proof.
  intros policy cfg l cfg' Hs. destruct Hs.
  - eapply measure_req; eauto.
  - eapply measure_grant; eauto.
  - eapply measure_advance; eauto.
  - eapply measure_advance; eauto.
  - eapply measure_advance; eauto.
Qed.

(* a schedule of n steps needs measure >= n: runs longer than the measure
   of their starting point do not exist *)
Theorem run_length_bounded : forall policy cfg ls cfg',
  run policy cfg ls cfg' -> length ls + measure cfg' <= measure cfg.
Proof.
  intros policy cfg ls cfg' Hr. induction Hr; simpl; auto.
  apply measure_decreases in H. lia.
Qed.

Corollary no_long_run : forall policy cfg ls cfg',
  measure cfg < length ls -> ~ run policy cfg ls cfg'.
Proof.
  intros policy cfg ls cfg' Hlt Hr. apply run_length_bounded in Hr. lia.
Qed.

Theorem no_infinite_run : forall policy (cs : nat -> config) (ls : nat -> label),
  ~ (forall n, step policy (cs n) (ls n) (cs (S n))).
Proof.
  intros policy cs ls H.
  assert (Hb : forall n, n + measure (cs n) <= measure (cs 0)).
  { induction n; simpl; auto. specialize (H n).
    apply measure_decreases in H. lia. }
  specialize (Hb (S (measure (cs 0)))). lia.
Qed.

Theorem step_well_founded : forall policy,
  well_founded (fun c' c => exists l, step policy c l c').
Proof.
  intros policy.
  apply well_founded_lt_compat with (f := measure).
  intros c' c [l Hs]. eapply measure_decreases; eauto.
Qed.

Lemma final_no_step : forall policy c, final c -> ~ enabled policy c.
Proof.
  intros policy c Hf [l [c' Hs]].
  destruct Hs;
    match goal with
    | Hn : nth_error _ _ = Some ?t, Hp : prog ?t = _ |- _ =>
        apply nth_error_In in Hn; apply Hf in Hn; destruct Hn as [Hn _];
        rewrite Hn in Hp; discriminate
    end.
Qed.

Theorem all_runs_terminate : forall policy progs s0 cfg,
  admissible policy ->
  Forall well_bracketed progs -> Forall depth_le1 progs -> Forall guarded progs ->
  reachable policy (init progs s0) cfg ->
  inevitably_final policy cfg.
Proof.
  intros policy progs s0 cfg Hadm Hwb Hd Hg.
  induction cfg as [cfg IH] using (well_founded_induction (step_well_founded policy)).
  intros Hr.
  destruct (non_nested_progress_strong policy progs s0 cfg) as [Hf|He]; auto.
  - apply IF_final; auto.
  - apply IF_step; auto.
    intros l c' Hs. apply IH; eauto using reachable_step.
Qed.

(* the same, phrased over schedules: a run that cannot be extended has
   reached a final configuration, and has at most `measure` steps *)
Corollary maximal_run_final : forall policy progs s0 cfg ls cfg',
  admissible policy ->
  Forall well_bracketed progs -> Forall depth_le1 progs -> Forall guarded progs ->
  reachable policy (init progs s0) cfg ->
  run policy cfg ls cfg' ->
  ~ enabled policy cfg' ->
  final cfg' /\ length ls <= measure cfg.
Proof.
  intros policy progs s0 cfg ls cfg' Hadm Hwb Hd Hg Hr Hrun Hmax. split.
  - destruct (non_nested_progress_strong policy progs s0 cfg') as [Hf|He];
      eauto using reachable_run. contradiction.
  - apply run_length_bounded in Hrun. lia.
Qed.

(* and a final configuration is reachable from every reachable one *)
Corollary can_finish : forall policy progs s0 cfg,
  admissible policy ->
  Forall well_bracketed progs -> Forall depth_le1 progs -> Forall guarded progs ->
  reachable policy (init progs s0) cfg ->
  exists ls cfg', run policy cfg ls cfg' /\ final cfg'.
Proof.
  intros policy progs s0 cfg Hadm Hwb Hd Hg Hr.
  pose proof (all_runs_terminate policy progs s0 cfg Hadm Hwb Hd Hg Hr) as Hif.
  clear Hr. induction Hif as [c Hf|c [l [c' Hs]] _ IH].
  - exists [], c. split; auto. constructor.
  - destruct (IH l c' Hs) as [ls [c'' [Hrun Hf]]].
    exists (l :: ls), c''. split; auto. econstructor; eauto.
Qed.

(* ================================================================== *)
(* The policy class is inhabited by the usual disciplines             *)

Lemma writer_waiting_ex : forall w,
  writer_waiting w = true -> exists i, In (i, W) w.
Proof.
  unfold writer_waiting. intros w H. apply existsb_exists in H.
  destruct H as [[i []] [Hin Hb]]; simpl in Hb; try discriminate. eauto.
Qed.

Lemma wants_write_In : forall w i, In (i, W) w -> wants_write w i = true.
Proof.
  intros w i H. unfold wants_write. apply existsb_exists.
  exists (i, W). split; auto. simpl. rewrite Nat.eqb_refl. reflexivity.
Qed.

Theorem writer_pref_admissible : admissible writer_pref.
Proof.
  intros c _ Hne. unfold writer_pref.
  destruct (writer_waiting (waiting c)) eqn:Hww.
  - apply writer_waiting_ex in Hww. destruct Hww as [i Hin].
    exists i, W. split; auto. rewrite (wants_write_In _ _ Hin). reflexivity.
  - destruct (waiting c) as [|[i m] w] eqn:Hw; [congruence|].
    exists i, m. split; simpl; auto. apply orb_true_r.
Qed.

Theorem writer_pref_readers_share : readers_share writer_pref.
Proof.
  intros c _ Hnw i _. unfold writer_pref.
  destruct (writer_waiting (waiting c)) eqn:Hww.
  - apply writer_waiting_ex in Hww. destruct Hww as [j Hin].
    exfalso. eapply Hnw; eauto.
  - apply orb_true_r.
Qed.

Theorem reader_pref_admissible : admissible reader_pref.
Proof.
  intros c _ Hne. destruct (waiting c) as [|[i m] w]; [congruence|].
  exists i, m. split; simpl; auto.
Qed.

Theorem fifo_admissible : admissible fifo.
Proof.
  intros c _ Hne. unfold fifo. destruct (waiting c) as [|[i m] w]; [congruence|].
  exists i, m. split; simpl; auto. apply Nat.eqb_refl.
Qed.

(* ================================================================== *)
(* Theorem 3: a nested read section can deadlock                      *)

Lemma dl_reachable : run writer_pref (init dl_progs 0) dl_sched dl_config.
Proof. apply exec_all_sound. reflexivity. Qed.

Lemma dl_not_final : ~ final dl_config.
Proof.
  intros Hf. specialize (Hf (mkThread [AcqR; Rel; Rel] [R] [])).
  destruct Hf as [Hp _]; simpl; auto. discriminate.
Qed.

Lemma dl_no_step : ~ enabled writer_pref dl_config.
Proof.
  intros [l [c' Hs]].
  inversion Hs as
    [c i t m rest Hn Hp Hw
    |c i t m rest Hn Hp Hin Hc Hpol
    |c i t m hs rest Hn Hp Hh
    |c i t rest Hn Hp Hh
    |c i t f rest Hn Hp Hh]; subst; cbn in *.
  - (* request: both threads are already waiting *)
    destruct i as [|[|i]]; cbn in *; try discriminate.
    destruct i; discriminate.
  - (* grant *)
    destruct i as [|[|i]]; cbn in *.
    + (* the reader: refused by writer preference *) discriminate.
    + (* the writer: the reader still holds its first guard *)
      inversion Hn; subst t. cbn in Hp. destruct m; try discriminate.
      cbn in Hc. specialize (Hc (mkThread [AcqR; Rel; Rel] [R] []) (or_introl eq_refl)).
      discriminate.
    + destruct i; discriminate.
  - (* release: nobody is at a Rel *)
    destruct i as [|[|i]]; cbn in *; try (destruct i; discriminate);
      inversion Hn; subst t; discriminate.
  - destruct i as [|[|i]]; cbn in *; try (destruct i; discriminate);
      inversion Hn; subst t; discriminate.
  - destruct i as [|[|i]]; cbn in *; try (destruct i; discriminate);
      inversion Hn; subst t; discriminate.
Qed.

Theorem nested_read_deadlocks :
  admissible writer_pref /\
  Forall well_bracketed dl_progs /\ Forall guarded dl_progs /\
  ~ Forall depth_le1 dl_progs /\
  run writer_pref (init dl_progs 0) dl_sched dl_config /\
  stuck writer_pref dl_config.
Proof.
  split; [exact writer_pref_admissible|].
  split; [repeat constructor|].
  split; [repeat constructor|].
  split.
  - intros H. inversion H as [|p ps Hp _]; subst.
    unfold depth_le1, nested_reader in Hp. simpl in Hp. lia.
  - split; [exact dl_reachable|].
    split; [exact dl_not_final | exact dl_no_step].
Qed.

(* ================================================================== *)
(* Theorem 4: reads see whole write sections                          *)
(* No hypothesis on programs or on the policy is needed: compatibility *)
(* is enforced by the grant rule, accesses by the Read / Write rules.  *)

(* mutual exclusion: a write guard excludes every other guard *)
Definition excl (c : config) : Prop :=
  forall i t, nth_error (threads c) i = Some t -> In W (held t) ->
    held t = [W] /\
    forall j t', nth_error (threads c) j = Some t' -> j <> i -> held t' = [].

(* when no write section is in progress the shared state is the latest commit *)
Definition commit_ok (c : config) : Prop :=
  compat (threads c) R -> exists cs, commits c = st c :: cs.

(* every observed value is a committed one *)
Definition logs_ok (c : config) : Prop :=
  forall t v, In t (threads c) -> In v (log t) -> In v (commits c).

Definition inv_safe (c : config) : Prop := excl c /\ commit_ok c /\ logs_ok c.

(* replacing a thread without touching its guards *)
Lemma compat_upd_same_held : forall ts i t t' m,
  nth_error ts i = Some t -> held t' = held t ->
  (compat (upd i t' ts) m <-> compat ts m).
Proof.
  intros ts i t t' m Ht Hh. split; intros H.
  - destruct m; simpl in *; intros t0 Hin;
      destruct (In_upd_rev _ ts i t' t t0 Ht Hin) as [->|Hin']; auto;
      rewrite <- Hh; apply H; eapply In_upd_new; eauto.
  - destruct m; simpl in *; intros t0 Hin;
      apply In_upd in Hin; destruct Hin as [->|Hin]; auto;
      rewrite Hh; apply H; eapply nth_error_In; eauto.
Qed.

Lemma excl_upd_same_held : forall ts i t t',
  nth_error ts i = Some t -> held t' = held t ->
  (forall k tk, nth_error ts k = Some tk -> In W (held tk) ->
     held tk = [W] /\
     forall j tj, nth_error ts j = Some tj -> j <> k -> held tj = []) ->
  forall k tk, nth_error (upd i t' ts) k = Some tk -> In W (held tk) ->
     held tk = [W] /\
     forall j tj, nth_error (upd i t' ts) j = Some tj -> j <> k -> held tj = [].
Proof.
  intros ts i t t' Ht Hh Hex k tk Hk HW.
  (* every thread of the new list has the guards of the old one at that index *)
  assert (Hold : forall j tj, nth_error (upd i t' ts) j = Some tj ->
            exists tj0, nth_error ts j = Some tj0 /\ held tj = held tj0).
  { intros j tj Hj. destruct (Nat.eq_dec i j) as [<-|Hne].
    - rewrite (nth_error_upd_same _ ts i t' t Ht) in Hj. inversion Hj; subst.
      exists t. auto.
    - rewrite nth_error_upd_other in Hj by auto. exists tj. auto. }
  destruct (Hold k tk Hk) as [tk0 [Hk0 Hhk]].
  rewrite Hhk in HW |- *.
  destruct (Hex k tk0 Hk0 HW) as [H1 H2]. split; auto.
  intros j tj Hj Hne. destruct (Hold j tj Hj) as [tj0 [Hj0 Hhj]].
  rewrite Hhj. eauto.
Qed.

(* under mutual exclusion, a thread holding a read guard proves that no
   write section is in progress *)
Lemma read_guard_no_writer : forall c i t,
  excl c -> nth_error (threads c) i = Some t -> In R (held t) ->
  compat (threads c) R.
Proof.
  intros c i t Hex Ht HR. simpl. intros t0 Hin HW.
  apply In_nth_error in Hin. destruct Hin as [k Hk].
  destruct (Hex k t0 Hk HW) as [H1 H2].
  destruct (Nat.eq_dec i k) as [->|Hne].
  - assert (t0 = t) by congruence. subst. rewrite H1 in HR.
    simpl in HR. destruct HR as [HR|[]]. discriminate.
  - rewrite (H2 i t Ht Hne) in HR. destruct HR.
Qed.

(* one preservation lemma per step constructor *)
Lemma safe_req : forall c w,
  inv_safe c -> inv_safe (mkConfig (threads c) w (st c) (commits c)).
Proof. intros c w H. exact H. Qed.

Lemma safe_grant : forall c i t m rest w,
  nth_error (threads c) i = Some t ->
  compat (threads c) m ->
  inv_safe c ->
  inv_safe (mkConfig (upd i (mkThread rest (m :: held t) (log t)) (threads c))
                     w (st c) (commits c)).
Proof.
  intros c i t m rest w Ht Hc [Hex [Hco Hlo]].
  assert (Hin : In t (threads c)) by (eapply nth_error_In; eauto).
  split; [|split].
  - unfold excl; simpl. intros k tk Hk HW.
    destruct (Nat.eq_dec i k) as [<-|Hne].
    + rewrite (nth_error_upd_same _ _ i _ t Ht) in Hk. inversion Hk; subst tk.
      simpl in *. destruct m.
      * destruct HW as [HW|HW]; [discriminate|]. exfalso. eapply Hc; eauto.
      * rewrite (Hc t Hin). split; auto.
        intros j tj Hj Hne. rewrite nth_error_upd_other in Hj by auto.
        apply Hc. eapply nth_error_In; eauto.
    + rewrite nth_error_upd_other in Hk by auto.
      apply nth_error_In in Hk. exfalso. destruct m; simpl in Hc.
      * eapply Hc; eauto.
      * rewrite (Hc tk Hk) in HW. destruct HW.
  - unfold commit_ok in *; simpl. intros Hnew. destruct m.
    + apply Hco. exact Hc.
    + exfalso. eapply Hnew.
      * eapply In_upd_new; eauto.
      * simpl. auto.
  - unfold logs_ok in *; simpl. intros t0 v Hin0 Hv.
    apply In_upd in Hin0. destruct Hin0 as [->|Hin0]; eauto.
Qed.

Lemma safe_rel : forall c i t m hs rest w,
  nth_error (threads c) i = Some t ->
  held t = m :: hs ->
  inv_safe c ->
  inv_safe (mkConfig (upd i (mkThread rest hs (log t)) (threads c)) w (st c)
                     (match m with W => st c :: commits c | R => commits c end)).
Proof.
  intros c i t m hs rest w Ht Hh [Hex [Hco Hlo]].
  assert (Hin : In t (threads c)) by (eapply nth_error_In; eauto).
  split; [|split].
  - unfold excl; simpl. intros k tk Hk HW. exfalso.
    destruct (Nat.eq_dec i k) as [<-|Hne].
    + rewrite (nth_error_upd_same _ _ i _ t Ht) in Hk. inversion Hk; subst tk.
      simpl in HW.
      assert (HW' : In W (held t)) by (rewrite Hh; simpl; auto).
      destruct (Hex i t Ht HW') as [H1 _]. rewrite Hh in H1.
      inversion H1; subst. destruct HW.
    + rewrite nth_error_upd_other in Hk by auto.
      destruct (Hex k tk Hk HW) as [_ H2].
      rewrite (H2 i t Ht) in Hh by auto. discriminate.
  - unfold commit_ok in *; simpl. intros Hnew. destruct m.
    + apply Hco. simpl. intros t0 Hin0 HW.
      destruct (In_upd_rev _ (threads c) i (mkThread rest hs (log t)) t t0 Ht Hin0)
        as [->|Hin1].
      * rewrite Hh in HW. destruct HW as [HW|HW]; [discriminate|].
        eapply Hnew; [eapply In_upd_new; eauto|]. exact HW.
      * eapply Hnew; eauto.
    + eauto.
  - unfold logs_ok in *; simpl. intros t0 v Hin0 Hv.
    assert (Hv' : In v (commits c)).
    { apply In_upd in Hin0. destruct Hin0 as [->|Hin0]; eauto. }
    destruct m; simpl; auto.
Qed.

Lemma safe_read : forall c i t rest w,
  nth_error (threads c) i = Some t ->
  In R (held t) ->
  inv_safe c ->
  inv_safe (mkConfig (upd i (mkThread rest (held t) (st c :: log t)) (threads c))
                     w (st c) (commits c)).
Proof.
  intros c i t rest w Ht HR [Hex [Hco Hlo]].
  assert (Hin : In t (threads c)) by (eapply nth_error_In; eauto).
  split; [|split].
  - unfold excl; simpl. eapply excl_upd_same_held; eauto.
  - unfold commit_ok in *; simpl. intros Hnew. apply Hco.
    apply (proj1 (compat_upd_same_held (threads c) i t
                    (mkThread rest (held t) (st c :: log t)) R Ht eq_refl) Hnew).
  - unfold logs_ok in *; simpl. intros t0 v Hin0 Hv.
    apply In_upd in Hin0. destruct Hin0 as [->|Hin0]; eauto.
    simpl in Hv. destruct Hv as [<-|Hv]; eauto.
    destruct Hco as [cs Hcs]; [eapply read_guard_no_writer; eauto|].
    rewrite Hcs. simpl. auto.
Qed.

Lemma safe_write : forall c i t rest w s,
  nth_error (threads c) i = Some t ->
  In W (held t) ->
  inv_safe c ->
  inv_safe (mkConfig (upd i (mkThread rest (held t) (log t)) (threads c))
                     w s (commits c)).
Proof.
  intros c i t rest w s Ht HW [Hex [Hco Hlo]].
  assert (Hin : In t (threads c)) by (eapply nth_error_In; eauto).
  split; [|split].
  - unfold excl; simpl. eapply excl_upd_same_held; eauto.
  - unfold commit_ok in *; simpl. intros Hnew. exfalso.
    eapply Hnew; [eapply In_upd_new; eauto|]. exact HW.
  - unfold logs_ok in *; simpl. intros t0 v Hin0 Hv.
    apply In_upd in Hin0. destruct Hin0 as [->|Hin0]; eauto.
Qed.

Lemma safe_step : forall policy c l c',
  inv_safe c -> step policy c l c' -> inv_safe c'.
Proof.
  intros policy c l c' Hinv Hs. destruct Hs.
  - apply safe_req; auto.
  - eapply safe_grant; eauto.
  - eapply safe_rel; eauto.
  - eapply safe_read; eauto.
  - eapply safe_write; eauto.
Qed.

Lemma safe_init : forall progs s0, inv_safe (init progs s0).
Proof.
  intros progs s0.
  assert (Hh : forall t, In t (threads (init progs s0)) -> held t = [] /\ log t = []).
  { simpl. intros t Hin. apply in_map_iff in Hin. destruct Hin as [p [<- _]]. auto. }
  split; [|split].
  - intros i t Hi HW. apply nth_error_In in Hi. apply Hh in Hi.
    destruct Hi as [Hi _]. rewrite Hi in HW. destruct HW.
  - intros _. simpl. eauto.
  - intros t v Hin Hv. apply Hh in Hin. destruct Hin as [_ Hl].
    rewrite Hl in Hv. destruct Hv.
Qed.

Lemma safe_reachable : forall policy progs s0 c,
  reachable policy (init progs s0) c -> inv_safe c.
Proof.
  intros policy progs s0 c Hr.
  eapply reachable_invariant with (P := inv_safe); eauto using safe_init.
  intros; eapply safe_step; eauto.
Qed.

(* the lock is a lock *)
Theorem mutual_exclusion : forall policy progs s0 cfg i t,
  reachable policy (init progs s0) cfg ->
  nth_error (threads cfg) i = Some t -> In W (held t) ->
  held t = [W] /\
  forall j t', nth_error (threads cfg) j = Some t' -> j <> i -> held t' = [].
Proof.
  intros policy progs s0 cfg i t Hr. destruct (safe_reachable _ _ _ _ Hr) as [Hex _].
  apply Hex.
Qed.

(* `commits` really is the history of the shared state at section ends:
   it starts as [s0], is only ever extended, and is extended exactly by a
   release of a write guard, with the shared state at that moment *)
Lemma commits_history : forall policy c l c',
  step policy c l c' ->
  (exists i t hs, l = LRel i /\ nth_error (threads c) i = Some t /\
                  held t = W :: hs /\ commits c' = st c :: commits c)
  \/ commits c' = commits c.
Proof.
  intros policy c l c' Hs. destruct Hs; simpl; auto.
  destruct m; auto. left. eauto 10.
Qed.

Theorem reads_see_whole_sections : forall policy progs s0 cfg,
  reachable policy (init progs s0) cfg ->
  (* every value in every log is the shared state as it was at the end of a
     completed write section, or the initial state *)
  (forall t v, In t (threads cfg) -> In v (log t) -> In v (commits cfg)) /\
  (* and every observation made from cfg happens while no write guard is
     held by anyone, and records the most recent commit *)
  (forall i cfg', step policy cfg (LRead i) cfg' ->
     compat (threads cfg) R /\
     exists t rest cs,
       nth_error (threads cfg) i = Some t /\
       nth_error (threads cfg') i = Some (mkThread rest (held t) (st cfg :: log t)) /\
       commits cfg = st cfg :: cs).
Proof.
  intros policy progs s0 cfg Hr.
  destruct (safe_reachable _ _ _ _ Hr) as [Hex [Hco Hlo]]. split.
  - exact Hlo.
  - intros i cfg' Hs.
    inversion Hs as [| | |c j t rest Hn Hp HR|]; subst.
    assert (Hc : compat (threads cfg) R) by (eapply read_guard_no_writer; eauto).
    split; auto. destruct (Hco Hc) as [cs Hcs].
    exists t, rest, cs. simpl. repeat split; auto.
    eapply nth_error_upd_same; eauto.
Qed.

(* ================================================================== *)
(* Model sanity, for arbitrary programs and policies                  *)

(* A thread with a pending request is blocked: its next act is the pending
   acquire, so the only step it can take is to be granted.  (This is why the
   Rel / Read / Write rules need no "not waiting" premise.) *)
Lemma wait_ok_step : forall policy c l c',
  wait_ok c -> step policy c l c' -> wait_ok c'.
Proof.
  intros policy c l c' Hw Hs.
  destruct Hs as
    [c i t m rest Hn Hp Hnw
    |c i t m rest Hn Hp Hq Hc Hpol
    |c i t m hs rest Hn Hp Hh
    |c i t rest Hn Hp Hh
    |c i t f rest Hn Hp Hh]; unfold wait_ok in *; simpl.
  - intros j m' Hin. apply in_app_or in Hin. destruct Hin as [Hin|[Heq|[]]]; auto.
    inversion Heq; subst. eauto.
  - intros j m' Hin. apply In_unwait in Hin. destruct Hin as [Hin Hne].
    destruct (Hw j m' Hin) as [t0 [rest0 [Hj Hp0]]].
    exists t0, rest0. rewrite nth_error_upd_other; auto.
  - eapply wait_ok_upd_nonacq; eauto. intros [] r; rewrite Hp; discriminate.
  - eapply wait_ok_upd_nonacq; eauto. intros [] r; rewrite Hp; discriminate.
  - eapply wait_ok_upd_nonacq; eauto. intros [] r; rewrite Hp; discriminate.
Qed.

Theorem waiting_thread_blocked : forall policy progs s0 cfg i m,
  reachable policy (init progs s0) cfg ->
  In (i, m) (waiting cfg) ->
  exists t rest, nth_error (threads cfg) i = Some t /\ prog t = acq m :: rest.
Proof.
  intros policy progs s0 cfg i m Hr.
  revert i m. change (wait_ok cfg).
  eapply reachable_invariant with (P := wait_ok); eauto using wait_ok_step.
  intros j m' [].
Qed.

(* Admissibility cannot be dropped from Theorem 1: under the policy that
   never grants, a single thread with a single section gets stuck. *)
Definition never : policy_t := fun _ _ => false.

Example never_not_admissible : ~ admissible never.
Proof.
  intros H.
  destruct (H (mkConfig [mkThread [AcqR; Rel] [] []] [(0, R)] 0 [0]))
    as [i [m [_ Hp]]]; simpl.
  - intros t [<-|[]]; reflexivity.
  - discriminate.
  - discriminate.
Qed.

Definition one_section : list (list act) := [[AcqR; Rel]].

Example never_gets_stuck :
  Forall well_bracketed one_section /\ Forall depth_le1 one_section /\
  Forall guarded one_section /\
  exists cfg, run never (init one_section 0) [LReq 0] cfg /\ stuck never cfg.
Proof.
  split; [repeat constructor|].
  split; [repeat constructor; unfold depth_le1; simpl; lia|].
  split; [repeat constructor|].
  eexists. split.
  - apply exec_all_sound. vm_compute. reflexivity.
  - split.
    + intros Hf. specialize (Hf (mkThread [AcqR; Rel] [] []) (or_introl eq_refl)).
      destruct Hf as [Hp _]. discriminate.
    + intros [l [c' Hs]].
      inversion Hs as
        [c i t m rest Hn Hp Hw
        |c i t m rest Hn Hp Hin Hc Hpol
        |c i t m hs rest Hn Hp Hh
        |c i t rest Hn Hp Hh
        |c i t f rest Hn Hp Hh]; subst; cbn in *;
      try discriminate;
      destruct i as [|i]; cbn in *; try (destruct i; discriminate);
        try discriminate; inversion Hn; subst t; discriminate.
Qed.

(* ================================================================== *)
(* Non-vacuity: a system of the post-repair shape                     *)
(* two readers with two read sections each, one writer-ish thread with *)
(* a read section, a write section of two writes, and a read section   *)

Example ex_well_bracketed : Forall well_bracketed ex_progs.
Proof. repeat constructor. Qed.

Example ex_depth_le1 : Forall depth_le1 ex_progs.
Proof.
  repeat (apply Forall_cons; [unfold depth_le1; cbn; repeat split; lia|]).
  apply Forall_nil.
Qed.

Example ex_guarded : Forall guarded ex_progs.
Proof.
  repeat (apply Forall_cons; [unfold guarded; cbn; tauto|]).
  apply Forall_nil.
Qed.

(* Theorems 1, 2 and 4 instantiated *)
Example ex_never_stuck : forall policy cfg,
  admissible policy -> reachable policy (init ex_progs 0) cfg ->
  ~ stuck policy cfg.
Proof.
  intros. eapply non_nested_progress;
    eauto using ex_well_bracketed, ex_depth_le1, ex_guarded.
Qed.

Example ex_terminates : forall policy cfg,
  admissible policy -> reachable policy (init ex_progs 0) cfg ->
  inevitably_final policy cfg.
Proof.
  intros. eapply all_runs_terminate;
    eauto using ex_well_bracketed, ex_depth_le1, ex_guarded.
Qed.

Example ex_measure : measure (init ex_progs 0) = 47.
Proof. reflexivity. Qed.

(* a complete schedule under writer preference: the readers overlap with the
   writer thread's read section, reader 1 queues during the write section;
   the intermediate state 1 (between the two writes) is never observed *)
Example ex_run :
  exists cfg,
    run writer_pref (init ex_progs 0) ex_sched cfg /\
    final cfg /\
    map log (threads cfg) = [[2; 0]; [2; 2]; [2; 0]] /\
    st cfg = 2 /\ commits cfg = [2; 0].
Proof.
  eexists. split.
  - apply exec_all_sound. vm_compute. reflexivity.
  - split.
    + intros t Hin. cbn in Hin.
      destruct Hin as [<-|[<-|[<-|[]]]]; split; reflexivity.
    + repeat split; reflexivity.
Qed.

(* the same schedule is accepted by reader preference, and by FIFO *)
Example ex_run_reader_pref :
  exists cfg, run reader_pref (init ex_progs 0) ex_sched cfg /\ final cfg.
Proof.
  eexists. split.
  - apply exec_all_sound. vm_compute. reflexivity.
  - intros t Hin. cbn in Hin.
    destruct Hin as [<-|[<-|[<-|[]]]]; split; reflexivity.
Qed.

Example ex_run_fifo :
  exists cfg, run fifo (init ex_progs 0) ex_sched cfg /\ final cfg.
Proof.
  eexists. split.
  - apply exec_all_sound. vm_compute. reflexivity.
  - intros t Hin. cbn in Hin.
    destruct Hin as [<-|[<-|[<-|[]]]]; split; reflexivity.
Qed.

(* the deadlocking reader is excluded by depth_le1 and by nothing else *)
Example nested_reader_shape :
  well_bracketed nested_reader /\ guarded nested_reader /\ ~ depth_le1 nested_reader.
Proof.
  repeat split. unfold depth_le1, nested_reader. simpl. lia.
Qed.

(* ================================================================== *)

Check non_nested_progress.
Check non_nested_progress_strong.
Check measure_decreases.
Check run_length_bounded.
Check no_infinite_run.
Check all_runs_terminate.
Check maximal_run_final.
Check can_finish.
Check writer_pref_admissible.
Check nested_read_deadlocks.
Check mutual_exclusion.
Check waiting_thread_blocked.
Check reads_see_whole_sections.

Print Assumptions non_nested_progress.
Print Assumptions non_nested_progress_strong.
Print Assumptions measure_decreases.
Print Assumptions no_infinite_run.
Print Assumptions all_runs_terminate.
Print Assumptions maximal_run_final.
Print Assumptions nested_read_deadlocks.
Print Assumptions reads_see_whole_sections.
Print Assumptions ex_run.
