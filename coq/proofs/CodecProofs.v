(* CodecProofs.v — little-endian codecs, CLSID, directory entry and header
   encode/decode round trips (model/Base.v, model/DirEnt.v). *)
From Coq Require Import List NArith ZArith Bool Lia ZifyN ZifyBool.
From Cfb.model Require Import Base Names DirEnt.
From Cfb.gen Require Import Consts.
Import ListNotations.
Open Scope N_scope.

Ltac Zify.zify_post_hook ::= Z.div_mod_to_equations.

(* ================================================================== *)
(* lists measured by N                                                 *)
(* ================================================================== *)

Lemma lenN_length : forall A (l : list A), lenN l = N.of_nat (length l).
Proof.
  induction l as [|x t IH]; [reflexivity|].
  cbn [lenN length]. rewrite IH. lia.
Qed.

Lemma lenN_app : forall A (a b : list A), lenN (a ++ b) = lenN a + lenN b.
Proof. intros. rewrite !lenN_length, app_length. lia. Qed.

Lemma lenN_rev : forall A (l : list A), lenN (rev l) = lenN l.
Proof. intros. rewrite !lenN_length, rev_length. reflexivity. Qed.

Lemma lenN_cons : forall A (x : A) l, lenN (x :: l) = 1 + lenN l.
Proof. intros. cbn [lenN]. lia. Qed.

Lemma repeatN_succ : forall A (x : A) n, repeatN x (N.succ n) = x :: repeatN x n.
Proof. intros. unfold repeatN. rewrite N.iter_succ. reflexivity. Qed.

Lemma repeatN_0 : forall A (x : A), repeatN x 0 = [].
Proof. reflexivity. Qed.

Lemma lenN_repeatN : forall A (x : A) n, lenN (repeatN x n) = n.
Proof.
  intros A x n. induction n as [|n IH] using N.peano_ind; [reflexivity|].
  rewrite repeatN_succ. cbn [lenN]. rewrite IH. reflexivity.
Qed.

Lemma repeatN_lenN : forall A (x : A) l, Forall (eq x) l -> repeatN x (lenN l) = l.
Proof.
  intros A x l H. induction H as [|y t Hy Ht IH]; [reflexivity|].
  cbn [lenN]. rewrite repeatN_succ, IH, Hy. reflexivity.
Qed.

Lemma Forall_repeatN : forall A (P : A -> Prop) x n, P x -> Forall P (repeatN x n).
Proof.
  intros A P x n Hx. induction n as [|n IH] using N.peano_ind.
  - constructor.
  - rewrite repeatN_succ. constructor; assumption.
Qed.

Lemma takeN_0 : forall A (l : list A), takeN 0 l = [].
Proof. destruct l; reflexivity. Qed.

Lemma dropN_0 : forall A (l : list A), dropN 0 l = l.
Proof. destruct l; reflexivity. Qed.

Lemma takeN_succ_cons : forall A n (x : A) t, takeN (N.succ n) (x :: t) = x :: takeN n t.
Proof.
  intros. cbn [takeN]. destruct (N.eqb_spec (N.succ n) 0) as [H|H]; [lia|].
  rewrite N.pred_succ. reflexivity.
Qed.

Lemma dropN_succ_cons : forall A n (x : A) t, dropN (N.succ n) (x :: t) = dropN n t.
Proof.
  intros. cbn [dropN]. destruct (N.eqb_spec (N.succ n) 0) as [H|H]; [lia|].
  rewrite N.pred_succ. reflexivity.
Qed.

Lemma nthN_succ_cons : forall A n (x : A) t, nthN (x :: t) (N.succ n) = nthN t n.
Proof.
  intros. cbn [nthN]. destruct (N.eqb_spec (N.succ n) 0) as [H|H]; [lia|].
  rewrite N.pred_succ. reflexivity.
Qed.

Lemma takeN_app_exact : forall A (a b : list A), takeN (lenN a) (a ++ b) = a.
Proof.
  induction a as [|x t IH]; intros b.
  - apply takeN_0.
  - cbn [lenN app]. rewrite takeN_succ_cons, IH. reflexivity.
Qed.

Lemma dropN_app_exact : forall A (a b : list A), dropN (lenN a) (a ++ b) = b.
Proof.
  induction a as [|x t IH]; intros b.
  - apply dropN_0.
  - cbn [lenN app]. rewrite dropN_succ_cons, IH. reflexivity.
Qed.

Lemma takeN_all : forall A (l : list A), takeN (lenN l) l = l.
Proof. intros. rewrite <- (app_nil_r l) at 2. rewrite takeN_app_exact. reflexivity. Qed.

Lemma nthN_app_exact : forall A (a : list A) x r, nthN (a ++ x :: r) (lenN a) = Some x.
Proof.
  induction a as [|y t IH]; intros x r.
  - reflexivity.
  - cbn [lenN app]. rewrite nthN_succ_cons. apply IH.
Qed.

Lemma dropN_add : forall A (l : list A) n m, dropN (n + m) l = dropN m (dropN n l).
Proof.
  induction l as [|x t IH]; intros n m.
  - destruct m; reflexivity.
  - destruct (N.eq_dec n 0) as [->|Hn].
    + rewrite N.add_0_l, dropN_0. reflexivity.
    + replace n with (N.succ (N.pred n)) by lia.
      rewrite N.add_succ_l, !dropN_succ_cons. apply IH.
Qed.

Lemma nthN_dropN : forall A (l : list A) n x r, dropN n l = x :: r -> nthN l n = Some x.
Proof.
  induction l as [|y t IH]; intros n x r H.
  - destruct n; discriminate H.
  - destruct (N.eq_dec n 0) as [->|Hn].
    + rewrite dropN_0 in H. injection H as -> _. reflexivity.
    + replace n with (N.succ (N.pred n)) in * by lia.
      rewrite dropN_succ_cons in H. rewrite nthN_succ_cons. eapply IH; eassumption.
Qed.

(* walking a concatenation field by field *)
Lemma dropN_step : forall A (bs a r : list A) n k,
  dropN n bs = a ++ r -> lenN a = k -> dropN (n + k) bs = r.
Proof. intros A bs a r n k H <-. rewrite dropN_add, H. apply dropN_app_exact. Qed.

Lemma takeN_field : forall A (bs a r : list A) n k,
  dropN n bs = a ++ r -> lenN a = k -> takeN k (dropN n bs) = a.
Proof. intros A bs a r n k H <-. rewrite H. apply takeN_app_exact. Qed.

(* ================================================================== *)
(* little-endian numbers                                               *)
(* ================================================================== *)

Theorem le_bytes_length : forall w v, length (le_bytes w v) = w.
Proof.
  induction w as [|w IH]; intros v; [reflexivity|].
  cbn [le_bytes length]. rewrite IH. reflexivity.
Qed.

Theorem le_bytes_lenN : forall w v, lenN (le_bytes w v) = N.of_nat w.
Proof. intros. rewrite lenN_length, le_bytes_length. reflexivity. Qed.

Theorem le_bytes_lt256 : forall w v, Forall (fun b => b < 256) (le_bytes w v).
Proof.
  induction w as [|w IH]; intros v; cbn [le_bytes]; constructor.
  - apply N.mod_upper_bound. lia.
  - apply IH.
Qed.

Theorem le_val_le_bytes : forall w v, v < 256 ^ (N.of_nat w) -> le_val (le_bytes w v) = v.
Proof.
  induction w as [|w IH]; intros v Hv.
  - change (256 ^ N.of_nat 0) with 1 in Hv. cbn [le_bytes le_val]. lia.
  - cbn [le_bytes le_val].
    rewrite Nnat.Nat2N.inj_succ, N.pow_succ_r' in Hv.
    rewrite IH.
    + pose proof (N.div_mod v 256 ltac:(lia)). lia.
    + apply N.div_lt_upper_bound; lia.
Qed.

Theorem le_bytes_le_val : forall bs, Forall (fun b => b < 256) bs ->
  le_bytes (length bs) (le_val bs) = bs.
Proof.
  intros bs H. induction H as [|b t Hb Ht IH]; [reflexivity|].
  cbn [length le_bytes le_val].
  replace ((b + 256 * le_val t) mod 256) with b.
  - replace ((b + 256 * le_val t) / 256) with (le_val t); [rewrite IH; reflexivity|].
    symmetry. rewrite N.mul_comm, N.div_add by lia. rewrite N.div_small by lia. lia.
  - symmetry. rewrite N.mul_comm, N.mod_add by lia. apply N.mod_small. lia.
Qed.

Lemma le_val_bound : forall bs, Forall (fun b => b < 256) bs ->
  le_val bs < 256 ^ N.of_nat (length bs).
Proof.
  intros bs H. induction H as [|b t Hb Ht IH].
  - cbn. lia.
  - cbn [length le_val]. rewrite Nnat.Nat2N.inj_succ, N.pow_succ_r'. lia.
Qed.

(* fixed widths *)
Lemma lenN_le_bytes2 : forall v, lenN (le_bytes 2 v) = 2.
Proof. intros. apply le_bytes_lenN. Qed.
Lemma lenN_le_bytes4 : forall v, lenN (le_bytes 4 v) = 4.
Proof. intros. apply le_bytes_lenN. Qed.
Lemma lenN_le_bytes8 : forall v, lenN (le_bytes 8 v) = 8.
Proof. intros. apply le_bytes_lenN. Qed.

Lemma le_val_le_bytes2 : forall v, v < 65536 -> le_val (le_bytes 2 v) = v.
Proof. intros v H. apply le_val_le_bytes. exact H. Qed.
Lemma le_val_le_bytes4 : forall v, v <= u32_max -> le_val (le_bytes 4 v) = v.
Proof. intros v H. apply le_val_le_bytes. change (256 ^ N.of_nat 4) with 4294967296. unfold u32_max in H. lia. Qed.
Lemma le_val_le_bytes8 : forall v, v <= u64_max -> le_val (le_bytes 8 v) = v.
Proof. intros v H. apply le_val_le_bytes. change (256 ^ N.of_nat 8) with 18446744073709551616. unfold u64_max in H. lia. Qed.

Lemma lenN_flat_map_le_bytes : forall w l,
  lenN (flat_map (le_bytes w) l) = N.of_nat w * lenN l.
Proof.
  intros w l. induction l as [|x t IH].
  - cbn. lia.
  - cbn [flat_map lenN]. rewrite lenN_app, IH, le_bytes_lenN. lia.
Qed.

(* ================================================================== *)
(* CLSID                                                               *)
(* ================================================================== *)

Lemma lenN_be_bytes8 : forall v, lenN (be_bytes8 v) = 8.
Proof. intros. unfold be_bytes8. rewrite lenN_rev. apply lenN_le_bytes8. Qed.

Theorem clsid_encode_length : forall g, lenN (clsid_encode g) = 16.
Proof.
  intros g. unfold clsid_encode. cbv zeta.
  rewrite !lenN_app, lenN_le_bytes4, !lenN_le_bytes2, lenN_be_bytes8. reflexivity.
Qed.

Lemma clsid_split : forall g,
  g / 2 ^ 96 * 2 ^ 96 + (g / 2 ^ 80) mod 2 ^ 16 * 2 ^ 80 + (g / 2 ^ 64) mod 2 ^ 16 * 2 ^ 64
  + g mod 2 ^ 64 = g.
Proof.
  intros g.
  pose proof (N.div_mod g (2 ^ 64) ltac:(lia)) as H0.
  pose proof (N.div_mod (g / 2 ^ 64) (2 ^ 16) ltac:(lia)) as H1.
  pose proof (N.div_mod (g / 2 ^ 80) (2 ^ 16) ltac:(lia)) as H2.
  rewrite N.div_div in H1 by lia. rewrite N.div_div in H2 by lia.
  change (2 ^ 64 * 2 ^ 16) with (2 ^ 80) in H1.
  change (2 ^ 80 * 2 ^ 16) with (2 ^ 96) in H2.
  set (q96 := g / 2 ^ 96) in *. set (q80 := g / 2 ^ 80) in *. set (q64 := g / 2 ^ 64) in *.
  set (m80 := q80 mod 2 ^ 16) in *. set (m64 := q64 mod 2 ^ 16) in *. set (m0 := g mod 2 ^ 64) in *.
  change (2 ^ 96) with (2 ^ 16 * (2 ^ 16 * 2 ^ 64)).
  change (2 ^ 80) with (2 ^ 16 * 2 ^ 64).
  set (a := 2 ^ 64) in *. set (b := 2 ^ 16) in *.
  clearbody m80 m64 m0. clearbody q96 q80 q64. clearbody a b.
  rewrite H0, H1, H2. ring.
Qed.

Theorem clsid_roundtrip : forall g, g < 2 ^ 128 -> clsid_decode (clsid_encode g) = g.
Proof.
  intros g Hg. unfold clsid_decode, clsid_encode. cbv zeta.
  set (d1 := g / 2 ^ 96). set (d2 := (g / 2 ^ 80) mod 2 ^ 16).
  set (d3 := (g / 2 ^ 64) mod 2 ^ 16). set (d4 := g mod 2 ^ 64).
  set (bs := le_bytes 4 d1 ++ le_bytes 2 d2 ++ le_bytes 2 d3 ++ be_bytes8 d4).
  assert (D0 : dropN 0 bs = bs) by apply dropN_0.
  assert (T1 : takeN 4 bs = le_bytes 4 d1).
  { rewrite <- D0 at 1. eapply takeN_field; [exact D0 | apply lenN_le_bytes4]. }
  assert (D4 : dropN 4 bs = le_bytes 2 d2 ++ le_bytes 2 d3 ++ be_bytes8 d4).
  { change 4 with (0 + 4). eapply dropN_step; [exact D0 | apply lenN_le_bytes4]. }
  assert (D6 : dropN 6 bs = le_bytes 2 d3 ++ be_bytes8 d4).
  { change 6 with (4 + 2). eapply dropN_step; [exact D4 | apply lenN_le_bytes2]. }
  assert (D8 : dropN 8 bs = be_bytes8 d4 ++ []).
  { change 8 with (6 + 2). rewrite app_nil_r. eapply dropN_step; [exact D6 | apply lenN_le_bytes2]. }
  rewrite T1.
  rewrite (takeN_field _ _ _ _ _ _ D4 (lenN_le_bytes2 d2)).
  rewrite (takeN_field _ _ _ _ _ _ D6 (lenN_le_bytes2 d3)).
  rewrite (takeN_field _ _ _ _ _ _ D8 (lenN_be_bytes8 d4)).
  unfold be_bytes8. rewrite rev_involutive.
  assert (H1 : d1 < 2 ^ 32).
  { subst d1. apply N.div_lt_upper_bound; [lia|]. change (2 ^ 96 * 2 ^ 32) with (2 ^ 128). exact Hg. }
  assert (H2 : d2 < 2 ^ 16) by (subst d2; apply N.mod_upper_bound; lia).
  assert (H3 : d3 < 2 ^ 16) by (subst d3; apply N.mod_upper_bound; lia).
  assert (H4 : d4 < 2 ^ 64) by (subst d4; apply N.mod_upper_bound; lia).
  rewrite (le_val_le_bytes 4 d1) by exact H1.
  rewrite (le_val_le_bytes 2 d2) by exact H2.
  rewrite (le_val_le_bytes 2 d3) by exact H3.
  rewrite (le_val_le_bytes 8 d4) by exact H4.
  subst d1 d2 d3 d4. apply clsid_split.
Qed.

(* ================================================================== *)
(* UTF-16                                                              *)
(* ================================================================== *)

(* Unicode scalar value: below 0x110000 and not a surrogate (what a Rust char is) *)
Definition scalar (c : N) : Prop := c < 55296 \/ (57344 <= c /\ c < 1114112).

Lemma utf16_cons : forall c t, utf16 (c :: t) = utf16_char c ++ utf16 t.
Proof. reflexivity. Qed.

Lemma utf16_units : forall n, Forall scalar n -> Forall (fun x => x < 65536) (utf16 n).
Proof.
  intros n H. induction H as [|c t Hc Ht IH]; [constructor|].
  rewrite utf16_cons. apply Forall_app. split; [|exact IH].
  unfold utf16_char. unfold scalar in Hc.
  destruct (N.ltb_spec c 65536) as [Hlt|Hge].
  - constructor; [exact Hlt|constructor].
  - constructor; [lia|]. constructor; [lia|constructor].
Qed.

Theorem from_utf16_utf16 : forall n, Forall scalar n -> from_utf16 (utf16 n) = Some n.
Proof.
  intros n H. induction H as [|c t Hc Ht IH]; [reflexivity|].
  rewrite utf16_cons. unfold utf16_char. unfold scalar in Hc.
  destruct (N.ltb_spec c 65536) as [Hlt|Hge].
  - cbn [app from_utf16].
    replace ((55296 <=? c) && (c <=? 56319)) with false by lia.
    replace ((56320 <=? c) && (c <=? 57343)) with false by lia.
    rewrite IH. reflexivity.
  - cbn [app from_utf16].
    set (d := c - 65536).
    assert (Hd : d < 1048576) by lia.
    replace ((55296 <=? 55296 + d / 1024) && (55296 + d / 1024 <=? 56319)) with true by lia.
    replace ((56320 <=? 56320 + d mod 1024) && (56320 + d mod 1024 <=? 57343)) with true by lia.
    rewrite IH. f_equal. f_equal. lia.
Qed.

Lemma u16s_le_bytes2_app : forall u r, Forall (fun x => x < 65536) u ->
  u16s (flat_map (le_bytes 2) u ++ r) = u ++ u16s r.
Proof.
  intros u r H. induction H as [|x t Hx Ht IH]; [reflexivity|].
  change (flat_map (le_bytes 2) (x :: t))
    with ([x mod 256; (x / 256) mod 256] ++ flat_map (le_bytes 2) t).
  cbn [app u16s]. rewrite IH. f_equal. lia.
Qed.

Lemma u16s_zeros : forall k, u16s (repeatN 0 (2 * k)) = repeatN 0 k.
Proof.
  intros k. induction k as [|k IH] using N.peano_ind; [reflexivity|].
  replace (2 * N.succ k) with (N.succ (N.succ (2 * k))) by lia.
  rewrite !repeatN_succ. cbn [u16s]. rewrite IH. reflexivity.
Qed.

Lemma u16s_name_field : forall u, Forall (fun x => x < 65536) u ->
  u16s (flat_map (le_bytes 2) u ++ repeatN 0 (2 * (32 - lenN u))) = u ++ repeatN 0 (32 - lenN u).
Proof. intros u H. rewrite u16s_le_bytes2_app by exact H. rewrite u16s_zeros. reflexivity. Qed.

Lemma lenN_name_field : forall u, lenN u <= 32 ->
  lenN (flat_map (le_bytes 2) u ++ repeatN 0 (2 * (32 - lenN u))) = 64.
Proof.
  intros u H. rewrite lenN_app, lenN_flat_map_le_bytes, lenN_repeatN.
  change (N.of_nat 2) with 2. lia.
Qed.

(* ================================================================== *)
(* directory entries                                                   *)
(* ================================================================== *)

Lemma dirent_encode_length_eq : forall e,
  lenN (dirent_encode e) = 128 + 2 * (lenN (utf16 (d_name e)) - 32).
Proof.
  intros e. unfold dirent_encode. cbv zeta.
  rewrite !lenN_app, lenN_flat_map_le_bytes, lenN_repeatN, clsid_encode_length,
          !lenN_le_bytes2, !lenN_le_bytes4, !lenN_le_bytes8.
  change (N.of_nat 2) with 2. cbn [lenN]. lia.
Qed.

Theorem dirent_encode_length : forall e,
  lenN (utf16 (d_name e)) <= 32 -> lenN (dirent_encode e) = 128.
Proof. intros e H. rewrite dirent_encode_length_eq. lia. Qed.

(* ... and 32 units is the exact bound *)
Theorem dirent_encode_length_iff : forall e,
  lenN (dirent_encode e) = 128 <-> lenN (utf16 (d_name e)) <= 32.
Proof. intros e. rewrite dirent_encode_length_eq. lia. Qed.

Lemma objtype_of_byte_byte : forall t, objtype_of_byte (objtype_byte t) = Some t.
Proof. destruct t; reflexivity. Qed.

Lemma color_of_byte_byte : forall c, color_of_byte (color_byte c) = Some c.
Proof. destruct c; reflexivity. Qed.

Lemma list_eqb_refl : forall l, list_eqb N.eqb l l = true.
Proof. induction l as [|x t IH]; [reflexivity|]. cbn [list_eqb]. rewrite N.eqb_refl, IH. reflexivity. Qed.

Lemma land_stream_len_mask : forall v x, x <= stream_len_mask v -> N.land x (stream_len_mask v) = x.
Proof.
  intros v x H. destruct v; unfold stream_len_mask in *.
  - change V3_STREAM_LEN_MASK with (N.ones 32). rewrite N.land_ones. apply N.mod_small.
    unfold V3_STREAM_LEN_MASK in H. change (2 ^ 32) with 4294967296. lia.
  - change V4_STREAM_LEN_MASK with (N.ones 64). rewrite N.land_ones. apply N.mod_small.
    unfold V4_STREAM_LEN_MASK in H. change (2 ^ 64) with 18446744073709551616. lia.
Qed.

Lemma stream_len_mask_u64 : forall v, stream_len_mask v <= u64_max.
Proof. destruct v; unfold stream_len_mask, V3_STREAM_LEN_MASK, V4_STREAM_LEN_MASK, u64_max; lia. Qed.

(* a stream id stored in a sibling/child link *)
Definition link_ok (x : N) : Prop := x = NO_STREAM \/ x <= MAX_REGULAR_STREAM_ID.

(* valid directory entry: what the library writes *)
Record dirent_wf (v : version) (e : dirent) : Prop := mkDirentWf {
  wf_scalar : Forall scalar (d_name e);
  wf_name   : if objtype_eqb (d_type e) TRoot then d_name e = ROOT_DIR_NAME
              else exists u, validate_name (d_name e) = Ok u;
  wf_left   : link_ok (d_left e);
  wf_right  : link_ok (d_right e);
  wf_child  : link_ok (d_child e);
  wf_clsid  : d_clsid e < 2 ^ 128;
  wf_state  : d_state e <= u32_max;
  wf_ctime  : d_ctime e <= u64_max;
  wf_mtime  : d_mtime e <= u64_max;
  wf_start  : d_start e <= u32_max;
  wf_len    : d_len e <= stream_len_mask v;
  wf_stream : d_type e = TStream ->
              d_child e = NO_STREAM /\ d_clsid e = 0 /\ d_ctime e = 0 /\ d_mtime e = 0;
  wf_storage : d_type e = TStorage -> d_start e = 0 /\ d_len e = 0
}.

Lemma wf_name_len : forall ty nm,
  (if objtype_eqb ty TRoot then nm = ROOT_DIR_NAME else exists u, validate_name nm = Ok u) ->
  lenN (utf16 nm) <= 31.
Proof.
  intros ty nm H. destruct (objtype_eqb ty TRoot).
  - subst nm. vm_compute. discriminate.
  - destruct H as [u Hu]. unfold validate_name in Hu.
    destruct (N.ltb_spec MAX_NAME_LEN (lenN (utf16 nm))) as [Hlt|Hge]; [discriminate Hu|].
    unfold MAX_NAME_LEN in Hge. exact Hge.
Qed.

Lemma link_check : forall x, link_ok x ->
  negb (x =? NO_STREAM) && (MAX_REGULAR_STREAM_ID <? x) = false.
Proof. intros x [H|H]; unfold NO_STREAM, MAX_REGULAR_STREAM_ID in *; lia. Qed.

Lemma link_u32 : forall x, link_ok x -> x <= u32_max.
Proof. intros x [H|H]; unfold NO_STREAM, MAX_REGULAR_STREAM_ID, u32_max in *; lia. Qed.

Theorem dirent_roundtrip : forall v strict e, dirent_wf v e ->
  dirent_decode v strict (dirent_encode e) = Ok e.
Proof.
  intros v strict e W.
  destruct W as [Wsc Wnm Wl Wr Wc Wg Wst Wct Wmt Wsta Wln Wstream Wstorage].
  destruct e as [nm ty col l r c g st ct mt sta ln].
  cbn [d_name d_type d_color d_left d_right d_child d_clsid d_state d_ctime d_mtime d_start d_len] in *.
  pose proof (wf_name_len ty nm Wnm) as Hu31.
  pose proof (utf16_units nm Wsc) as Hunits.
  pose proof (from_utf16_utf16 nm Wsc) as Hfrom.
  unfold dirent_encode.
  cbn [d_name d_type d_color d_left d_right d_child d_clsid d_state d_ctime d_mtime d_start d_len].
  cbv zeta.
  set (u := utf16 nm) in *.
  rewrite (app_assoc (flat_map (le_bytes 2) u)).
  set (fnm := flat_map (le_bytes 2) u ++ repeatN 0 (2 * (32 - lenN u))).
  assert (Lnm : lenN fnm = 64) by (apply lenN_name_field; lia).
  set (r120 := le_bytes 8 ln).
  set (r116 := le_bytes 4 sta ++ r120).
  set (r108 := le_bytes 8 mt ++ r116).
  set (r100 := le_bytes 8 ct ++ r108).
  set (r96 := le_bytes 4 st ++ r100).
  set (r80 := clsid_encode g ++ r96).
  set (r76 := le_bytes 4 c ++ r80).
  set (r72 := le_bytes 4 r ++ r76).
  set (r68 := le_bytes 4 l ++ r72).
  set (r67 := [color_byte col] ++ r68).
  set (r66 := [objtype_byte ty] ++ r67).
  set (r64 := le_bytes 2 ((lenN u + 1) * 2) ++ r66).
  set (bs := fnm ++ r64).
  (* field positions *)
  assert (D64 : dropN 64 bs = r64) by (rewrite <- Lnm; apply dropN_app_exact).
  assert (T64 : takeN 64 bs = fnm) by (rewrite <- Lnm; apply takeN_app_exact).
  assert (D66 : dropN 66 bs = r66)
    by (change 66 with (64 + 2); eapply dropN_step; [exact D64 | apply lenN_le_bytes2]).
  assert (D67 : dropN 67 bs = r67)
    by (change 67 with (66 + 1); eapply dropN_step; [exact D66 | reflexivity]).
  assert (D68 : dropN 68 bs = r68)
    by (change 68 with (67 + 1); eapply dropN_step; [exact D67 | reflexivity]).
  assert (D72 : dropN 72 bs = r72)
    by (change 72 with (68 + 4); eapply dropN_step; [exact D68 | apply lenN_le_bytes4]).
  assert (D76 : dropN 76 bs = r76)
    by (change 76 with (72 + 4); eapply dropN_step; [exact D72 | apply lenN_le_bytes4]).
  assert (D80 : dropN 80 bs = r80)
    by (change 80 with (76 + 4); eapply dropN_step; [exact D76 | apply lenN_le_bytes4]).
  assert (D96 : dropN 96 bs = r96)
    by (change 96 with (80 + 16); eapply dropN_step; [exact D80 | apply clsid_encode_length]).
  assert (D100 : dropN 100 bs = r100)
    by (change 100 with (96 + 4); eapply dropN_step; [exact D96 | apply lenN_le_bytes4]).
  assert (D108 : dropN 108 bs = r108)
    by (change 108 with (100 + 8); eapply dropN_step; [exact D100 | apply lenN_le_bytes8]).
  assert (D116 : dropN 116 bs = r116)
    by (change 116 with (108 + 8); eapply dropN_step; [exact D108 | apply lenN_le_bytes8]).
  assert (D120 : dropN 120 bs = r120 ++ [])
    by (rewrite app_nil_r; change 120 with (116 + 4); eapply dropN_step; [exact D116 | apply lenN_le_bytes4]).
  assert (F64 : takeN 2 (dropN 64 bs) = le_bytes 2 ((lenN u + 1) * 2))
    by (eapply takeN_field; [exact D64 | apply lenN_le_bytes2]).
  assert (N66 : nthN bs 66 = Some (objtype_byte ty)) by (eapply nthN_dropN; exact D66).
  assert (N67 : nthN bs 67 = Some (color_byte col)) by (eapply nthN_dropN; exact D67).
  assert (F68 : takeN 4 (dropN 68 bs) = le_bytes 4 l)
    by (eapply takeN_field; [exact D68 | apply lenN_le_bytes4]).
  assert (F72 : takeN 4 (dropN 72 bs) = le_bytes 4 r)
    by (eapply takeN_field; [exact D72 | apply lenN_le_bytes4]).
  assert (F76 : takeN 4 (dropN 76 bs) = le_bytes 4 c)
    by (eapply takeN_field; [exact D76 | apply lenN_le_bytes4]).
  assert (F80 : takeN 16 (dropN 80 bs) = clsid_encode g)
    by (eapply takeN_field; [exact D80 | apply clsid_encode_length]).
  assert (F96 : takeN 4 (dropN 96 bs) = le_bytes 4 st)
    by (eapply takeN_field; [exact D96 | apply lenN_le_bytes4]).
  assert (F100 : takeN 8 (dropN 100 bs) = le_bytes 8 ct)
    by (eapply takeN_field; [exact D100 | apply lenN_le_bytes8]).
  assert (F108 : takeN 8 (dropN 108 bs) = le_bytes 8 mt)
    by (eapply takeN_field; [exact D108 | apply lenN_le_bytes8]).
  assert (F116 : takeN 4 (dropN 116 bs) = le_bytes 4 sta)
    by (eapply takeN_field; [exact D116 | apply lenN_le_bytes4]).
  assert (F120 : takeN 8 (dropN 120 bs) = le_bytes 8 ln)
    by (eapply takeN_field; [exact D120 | apply lenN_le_bytes8]).
  assert (L : lenN bs = 128).
  { pose proof (dirent_encode_length (mkDirent nm ty col l r c g st ct mt sta ln)) as HL.
    unfold dirent_encode in HL. cbv zeta in HL.
    cbn [d_name d_type d_color d_left d_right d_child d_clsid d_state d_ctime d_mtime d_start d_len] in HL.
    fold u in HL. rewrite (app_assoc (flat_map (le_bytes 2) u)) in HL.
    apply HL. lia. }
  clearbody bs. clear D64 D66 D67 D68 D72 D76 D80 D96 D100 D108 D116 D120.
  clearbody r64 r66 r67 r68 r72 r76 r80 r96 r100 r108 r116 r120.
  (* run the decoder *)
  unfold dirent_decode.
  rewrite L. change (128 <? DIR_ENTRY_LEN) with false. cbv iota. cbv zeta.
  rewrite T64, F64, N66, N67, F68, F72, F76, F80, F96, F100, F108, F116, F120.
  clear T64 F64 N66 N67 F68 F72 F76 F80 F96 F100 F108 F116 F120 L.
  rewrite (le_val_le_bytes2 ((lenN u + 1) * 2)) by lia.
  replace (64 <? (lenN u + 1) * 2) with false by lia.
  replace ((lenN u + 1) * 2 mod 2 =? 0) with true
    by (symmetry; apply N.eqb_eq; apply N.mod_mul; lia).
  cbn [negb]. cbv iota.
  replace (if 0 <? (lenN u + 1) * 2 then (lenN u + 1) * 2 / 2 - 1 else 0) with (lenN u).
  2:{ replace (0 <? (lenN u + 1) * 2) with true by lia. rewrite N.div_mul by lia. lia. }
  subst fnm. rewrite (u16s_name_field u Hunits).
  replace (32 - lenN u) with (N.succ (31 - lenN u)) by lia.
  rewrite repeatN_succ, nthN_app_exact, takeN_app_exact.
  cbv beta iota.
  change (0 =? 0) with true. cbn [negb]. rewrite andb_false_r. cbv iota.
  rewrite Hfrom. cbv beta iota.
  rewrite objtype_of_byte_byte, color_of_byte_byte.
  cbv beta iota.
  replace (if objtype_eqb ty TRoot
           then if list_eqb N.eqb nm ROOT_DIR_NAME then Ok nm
                else if strict then Err EInvalidData else Ok ROOT_DIR_NAME
           else rbind (validate_name nm) (fun _ : list N => Ok nm)) with (@Ok name nm).
  2:{ destruct (objtype_eqb ty TRoot).
      - subst nm. rewrite list_eqb_refl. reflexivity.
      - destruct Wnm as [u' Hu']. rewrite Hu'. reflexivity. }
  cbn [rbind]. cbv beta iota.
  rewrite (le_val_le_bytes4 l) by (apply link_u32; exact Wl).
  rewrite (le_val_le_bytes4 r) by (apply link_u32; exact Wr).
  rewrite (le_val_le_bytes4 c) by (apply link_u32; exact Wc).
  rewrite (le_val_le_bytes4 st) by exact Wst.
  rewrite (le_val_le_bytes4 sta) by exact Wsta.
  rewrite (le_val_le_bytes8 ct) by exact Wct.
  rewrite (le_val_le_bytes8 mt) by exact Wmt.
  rewrite (le_val_le_bytes8 ln)
    by (pose proof (stream_len_mask_u64 v); lia).
  rewrite (clsid_roundtrip g Wg).
  rewrite (land_stream_len_mask v ln Wln).
  rewrite (link_check l Wl), (link_check r Wr).
  cbv iota.
  destruct ty; cbn [objtype_eqb andb orb negb]; cbv iota.
  - (* unallocated *)
    rewrite ?andb_false_r, ?(link_check c Wc). reflexivity.
  - (* storage *)
    destruct (Wstorage eq_refl) as [-> ->].
    rewrite ?andb_false_r, ?(link_check c Wc).
    change (0 =? 0) with true. cbn [negb]. rewrite ?andb_false_r. reflexivity.
  - (* stream *)
    destruct (Wstream eq_refl) as [-> [-> [-> ->]]].
    rewrite ?N.eqb_refl. change (0 =? 0) with true. cbn [negb andb]. reflexivity.
  - (* root *)
    rewrite ?andb_false_r, ?(link_check c Wc). reflexivity.
Qed.

(* ---- dirent_wf is inhabited by everything the library builds ---- *)

Lemma link_ok_no_stream : link_ok NO_STREAM.
Proof. left. reflexivity. Qed.

Lemma link_ok_regular : forall x, x <= MAX_REGULAR_STREAM_ID -> link_ok x.
Proof. intros x H. right. exact H. Qed.

Lemma scalar_root_name : Forall scalar ROOT_DIR_NAME.
Proof. unfold ROOT_DIR_NAME, scalar. repeat constructor; lia. Qed.

Lemma zero_le_mask : forall v, 0 <= stream_len_mask v.
Proof. intros. apply N.le_0_l. Qed.

Lemma dirent_wf_unallocated : forall v, dirent_wf v dirent_unallocated.
Proof.
  intros v. unfold dirent_unallocated.
  constructor; cbn [d_name d_type d_color d_left d_right d_child d_clsid d_state d_ctime d_mtime d_start d_len].
  - constructor.
  - cbn [objtype_eqb]. exists []. reflexivity.
  - apply link_ok_no_stream.
  - apply link_ok_no_stream.
  - apply link_ok_no_stream.
  - reflexivity.
  - unfold u32_max; lia.
  - unfold u64_max; lia.
  - unfold u64_max; lia.
  - unfold u32_max; lia.
  - apply zero_le_mask.
  - discriminate.
  - discriminate.
Qed.

Lemma dirent_wf_new : forall v n t ts,
  Forall scalar n ->
  (if objtype_eqb t TRoot then n = ROOT_DIR_NAME else exists u, validate_name n = Ok u) ->
  ts <= u64_max ->
  (t = TStream -> ts = 0) ->
  dirent_wf v (dirent_new n t ts).
Proof.
  intros v n t ts Hsc Hnm Hts Hstream. unfold dirent_new.
  constructor; cbn [d_name d_type d_color d_left d_right d_child d_clsid d_state d_ctime d_mtime d_start d_len].
  - exact Hsc.
  - exact Hnm.
  - apply link_ok_no_stream.
  - apply link_ok_no_stream.
  - apply link_ok_no_stream.
  - reflexivity.
  - unfold u32_max; lia.
  - exact Hts.
  - exact Hts.
  - destruct (objtype_eqb t TStorage); unfold END_OF_CHAIN, u32_max; lia.
  - apply zero_le_mask.
  - intros Ht. rewrite (Hstream Ht). repeat split; reflexivity.
  - intros ->. split; reflexivity.
Qed.

Lemma dirent_wf_empty_root : forall v, dirent_wf v dirent_empty_root.
Proof.
  intros v. unfold dirent_empty_root. apply dirent_wf_new.
  - apply scalar_root_name.
  - reflexivity.
  - unfold u64_max; lia.
  - discriminate.
Qed.

(* the entry that Dir.insert_dir_entry stores: only storages get a timestamp *)
Lemma dirent_wf_inserted : forall v n t now u,
  Forall scalar n -> validate_name n = Ok u -> t <> TRoot -> now <= u64_max ->
  dirent_wf v (dirent_new n t (if objtype_eqb t TStorage then now else 0)).
Proof.
  intros v n t now u Hsc Hn Ht Hnow. apply dirent_wf_new.
  - exact Hsc.
  - destruct t; cbn [objtype_eqb]; try (exists u; exact Hn). contradiction.
  - destruct (objtype_eqb t TStorage); [exact Hnow | unfold u64_max; lia].
  - intros ->. reflexivity.
Qed.

Example dirent_roundtrip_unallocated : forall v strict,
  dirent_decode v strict (dirent_encode dirent_unallocated) = Ok dirent_unallocated.
Proof. intros. apply dirent_roundtrip, dirent_wf_unallocated. Qed.

Example dirent_roundtrip_empty_root : forall v strict,
  dirent_decode v strict (dirent_encode dirent_empty_root) = Ok dirent_empty_root.
Proof. intros. apply dirent_roundtrip, dirent_wf_empty_root. Qed.

(* the side conditions of [dirent_wf] are needed: *)
(* a 32-unit name still encodes to 128 bytes, but the decoder rejects it *)
Example dirent_name32_rejected :
  let e := dirent_new (repeatN 65 32) TStream 0 in
  lenN (dirent_encode e) = 128 /\ dirent_decode V4 false (dirent_encode e) = Err EInvalidData.
Proof. vm_compute. split; reflexivity. Qed.

(* a stream entry with a timestamp is normalised (permissive) or rejected (strict) *)
Example dirent_stream_time_not_kept :
  let e := dirent_new [65] TStream 1 in
  dirent_decode V4 false (dirent_encode e) = Ok (dirent_new [65] TStream 0) /\
  dirent_decode V4 true (dirent_encode e) = Err EInvalidData.
Proof. vm_compute. split; reflexivity. Qed.

(* a lone surrogate is not a scalar value and does not survive *)
Example dirent_surrogate_rejected :
  dirent_decode V4 false (dirent_encode (dirent_new [55296] TStream 0)) = Err EInvalidData.
Proof. vm_compute. reflexivity. Qed.

(* ================================================================== *)
(* header                                                              *)
(* ================================================================== *)

Lemma u32s_le_bytes4 : forall l, Forall (fun x => x <= u32_max) l ->
  u32s (flat_map (le_bytes 4) l) = l.
Proof.
  intros l H. induction H as [|x t Hx Ht IH]; [reflexivity|].
  change (flat_map (le_bytes 4) (x :: t))
    with ([x mod 256; (x / 256) mod 256; (x / 256 / 256) mod 256; (x / 256 / 256 / 256) mod 256]
          ++ flat_map (le_bytes 4) t).
  cbn [app u32s]. rewrite IH. f_equal. unfold u32_max in Hx. lia.
Qed.

(* header DIFAT array: regular sector ids, then only FREE_SECTOR *)
Fixpoint difat_ok (l : list N) : Prop :=
  match l with
  | [] => True
  | c :: t => (c = FREE_SECTOR /\ Forall (eq FREE_SECTOR) t) \/
              (c <= MAX_REGULAR_SECTOR /\ difat_ok t)
  end.

Lemma difat_ok_prefix : forall pre k,
  Forall (fun c => c <= MAX_REGULAR_SECTOR) pre -> difat_ok (pre ++ repeatN FREE_SECTOR k).
Proof.
  intros pre k H. induction H as [|c t Hc Ht IH].
  - cbn [app]. induction k as [|k IHk] using N.peano_ind; [exact I|].
    rewrite repeatN_succ. left. split; [reflexivity|]. apply Forall_repeatN. reflexivity.
  - cbn [app difat_ok]. right. split; assumption.
Qed.

Lemma difat_ok_inv : forall l, difat_ok l ->
  exists pre k, l = pre ++ repeatN FREE_SECTOR k /\ Forall (fun c => c <= MAX_REGULAR_SECTOR) pre.
Proof.
  induction l as [|c t IH]; intros H.
  - exists [], 0. split; [reflexivity|constructor].
  - destruct H as [[-> Hall]|[Hc Ht]].
    + exists [], (lenN (FREE_SECTOR :: t)). split; [|constructor].
      cbn [app]. symmetry. apply repeatN_lenN. constructor; [reflexivity|exact Hall].
    + destruct (IH Ht) as [pre [k [-> Hpre]]].
      exists (c :: pre), k. split; [reflexivity|constructor; assumption].
Qed.

Lemma difat_ok_u32 : forall l, difat_ok l -> Forall (fun x => x <= u32_max) l.
Proof.
  induction l as [|c t IH]; intros H; [constructor|].
  destruct H as [[-> Hall]|[Hc Ht]].
  - constructor; [unfold FREE_SECTOR, u32_max; lia|].
    eapply Forall_impl; [|exact Hall]. intros a <-. unfold FREE_SECTOR, u32_max; lia.
  - constructor; [unfold MAX_REGULAR_SECTOR, u32_max in *; lia | apply IH; exact Ht].
Qed.

Lemma hdr_difat_go_ok : forall l, difat_ok l -> hdr_difat_go l = Ok l.
Proof.
  induction l as [|c t IH]; intros H; [reflexivity|].
  cbn [hdr_difat_go]. destruct H as [[-> Hall]|[Hc Ht]].
  - rewrite N.eqb_refl. f_equal. apply repeatN_lenN. constructor; [reflexivity|exact Hall].
  - replace (c =? FREE_SECTOR) with false by (unfold FREE_SECTOR, MAX_REGULAR_SECTOR in *; lia).
    replace (MAX_REGULAR_SECTOR <? c) with false by lia.
    rewrite (IH Ht). reflexivity.
Qed.

Record header_wf (h : header) : Prop := mkHeaderWf {
  hw_num_dir       : h_num_dir h <= u32_max;
  hw_num_fat       : h_num_fat h <= u32_max;
  hw_first_dir     : h_first_dir h <= u32_max;
  hw_first_minifat : h_first_minifat h <= u32_max;
  hw_num_minifat   : h_num_minifat h <= u32_max;
  hw_first_difat   : h_first_difat h <= u32_max;
  hw_first_difat_not_free : h_first_difat h <> FREE_SECTOR;
  hw_num_difat     : h_num_difat h <= u32_max;
  hw_v3_num_dir    : h_ver h = V3 -> h_num_dir h = 0;
  hw_difat_len     : lenN (h_difat h) = NUM_DIFAT_HDR;
  hw_difat         : difat_ok (h_difat h)
}.

Lemma version_of_number_number : forall v, version_of_number (ver_number v) = Some v.
Proof. destruct v; reflexivity. Qed.

Lemma header_encode_length : forall h,
  lenN (header_encode h) = 76 + 4 * lenN (h_difat h).
Proof.
  intros h. unfold header_encode.
  rewrite !lenN_app, lenN_flat_map_le_bytes, !lenN_repeatN, !lenN_le_bytes2, !lenN_le_bytes4.
  change (lenN MAGIC_NUMBER) with 8. change (N.of_nat 4) with 4. lia.
Qed.

Theorem header_roundtrip : forall strict h, header_wf h ->
  header_decode strict (header_encode h) = Ok h.
Proof.
  intros strict h W.
  destruct W as [Wnd Wnf Wfd Wfm Wnm Wfdi Wfdi' Wndi Wv3 Wdl Wd].
  pose proof (header_encode_length h) as L. rewrite Wdl in L.
  change (76 + 4 * NUM_DIFAT_HDR) with 512 in L.
  destruct h as [ver nd nf fd fm nm fdi ndi dif].
  cbn [h_ver h_num_dir h_num_fat h_first_dir h_first_minifat h_num_minifat
       h_first_difat h_num_difat h_difat] in *.
  unfold header_encode in *.
  cbn [h_ver h_num_dir h_num_fat h_first_dir h_first_minifat h_num_minifat
       h_first_difat h_num_difat h_difat] in *.
  set (r76 := flat_map (le_bytes 4) dif) in *.
  assert (L76 : lenN r76 = 436).
  { subst r76. rewrite lenN_flat_map_le_bytes, Wdl. reflexivity. }
  set (r72 := le_bytes 4 ndi ++ r76) in *.
  set (r68 := le_bytes 4 fdi ++ r72) in *.
  set (r64 := le_bytes 4 nm ++ r68) in *.
  set (r60 := le_bytes 4 fm ++ r64) in *.
  set (r56 := le_bytes 4 MINI_STREAM_CUTOFF ++ r60) in *.
  set (r52 := le_bytes 4 0 ++ r56) in *.
  set (r48 := le_bytes 4 fd ++ r52) in *.
  set (r44 := le_bytes 4 nf ++ r48) in *.
  set (r40 := le_bytes 4 nd ++ r44) in *.
  set (r34 := repeatN 0 6 ++ r40) in *.
  set (r32 := le_bytes 2 MINI_SECTOR_SHIFT ++ r34) in *.
  set (r30 := le_bytes 2 (sector_shift ver) ++ r32) in *.
  set (r28 := le_bytes 2 BYTE_ORDER_MARK ++ r30) in *.
  set (r26 := le_bytes 2 (ver_number ver) ++ r28) in *.
  set (r24 := le_bytes 2 MINOR_VERSION ++ r26) in *.
  set (r8 := repeatN 0 16 ++ r24) in *.
  set (bs := MAGIC_NUMBER ++ r8) in *.
  assert (T0 : @takeN byte 8 bs = MAGIC_NUMBER) by (apply (takeN_app_exact _ MAGIC_NUMBER)).
  assert (D8 : dropN 8 bs = r8) by (apply (dropN_app_exact _ MAGIC_NUMBER)).
  assert (D24 : dropN 24 bs = r24)
    by (change 24 with (8 + 16); eapply dropN_step; [exact D8 | apply lenN_repeatN]).
  assert (D26 : dropN 26 bs = r26)
    by (change 26 with (24 + 2); eapply dropN_step; [exact D24 | apply lenN_le_bytes2]).
  assert (D28 : dropN 28 bs = r28)
    by (change 28 with (26 + 2); eapply dropN_step; [exact D26 | apply lenN_le_bytes2]).
  assert (D30 : dropN 30 bs = r30)
    by (change 30 with (28 + 2); eapply dropN_step; [exact D28 | apply lenN_le_bytes2]).
  assert (D32 : dropN 32 bs = r32)
    by (change 32 with (30 + 2); eapply dropN_step; [exact D30 | apply lenN_le_bytes2]).
  assert (D34 : dropN 34 bs = r34)
    by (change 34 with (32 + 2); eapply dropN_step; [exact D32 | apply lenN_le_bytes2]).
  assert (D40 : dropN 40 bs = r40)
    by (change 40 with (34 + 6); eapply dropN_step; [exact D34 | apply lenN_repeatN]).
  assert (D44 : dropN 44 bs = r44)
    by (change 44 with (40 + 4); eapply dropN_step; [exact D40 | apply lenN_le_bytes4]).
  assert (D48 : dropN 48 bs = r48)
    by (change 48 with (44 + 4); eapply dropN_step; [exact D44 | apply lenN_le_bytes4]).
  assert (D52 : dropN 52 bs = r52)
    by (change 52 with (48 + 4); eapply dropN_step; [exact D48 | apply lenN_le_bytes4]).
  assert (D56 : dropN 56 bs = r56)
    by (change 56 with (52 + 4); eapply dropN_step; [exact D52 | apply lenN_le_bytes4]).
  assert (D60 : dropN 60 bs = r60)
    by (change 60 with (56 + 4); eapply dropN_step; [exact D56 | apply lenN_le_bytes4]).
  assert (D64 : dropN 64 bs = r64)
    by (change 64 with (60 + 4); eapply dropN_step; [exact D60 | apply lenN_le_bytes4]).
  assert (D68 : dropN 68 bs = r68)
    by (change 68 with (64 + 4); eapply dropN_step; [exact D64 | apply lenN_le_bytes4]).
  assert (D72 : dropN 72 bs = r72)
    by (change 72 with (68 + 4); eapply dropN_step; [exact D68 | apply lenN_le_bytes4]).
  assert (D76 : dropN 76 bs = r76 ++ [])
    by (rewrite app_nil_r; change 76 with (72 + 4); eapply dropN_step; [exact D72 | apply lenN_le_bytes4]).
  assert (F26 : takeN 2 (dropN 26 bs) = le_bytes 2 (ver_number ver))
    by (eapply takeN_field; [exact D26 | apply lenN_le_bytes2]).
  assert (F28 : takeN 2 (dropN 28 bs) = le_bytes 2 BYTE_ORDER_MARK)
    by (eapply takeN_field; [exact D28 | apply lenN_le_bytes2]).
  assert (F30 : takeN 2 (dropN 30 bs) = le_bytes 2 (sector_shift ver))
    by (eapply takeN_field; [exact D30 | apply lenN_le_bytes2]).
  assert (F32 : takeN 2 (dropN 32 bs) = le_bytes 2 MINI_SECTOR_SHIFT)
    by (eapply takeN_field; [exact D32 | apply lenN_le_bytes2]).
  assert (F40 : takeN 4 (dropN 40 bs) = le_bytes 4 nd)
    by (eapply takeN_field; [exact D40 | apply lenN_le_bytes4]).
  assert (F44 : takeN 4 (dropN 44 bs) = le_bytes 4 nf)
    by (eapply takeN_field; [exact D44 | apply lenN_le_bytes4]).
  assert (F48 : takeN 4 (dropN 48 bs) = le_bytes 4 fd)
    by (eapply takeN_field; [exact D48 | apply lenN_le_bytes4]).
  assert (F56 : takeN 4 (dropN 56 bs) = le_bytes 4 MINI_STREAM_CUTOFF)
    by (eapply takeN_field; [exact D56 | apply lenN_le_bytes4]).
  assert (F60 : takeN 4 (dropN 60 bs) = le_bytes 4 fm)
    by (eapply takeN_field; [exact D60 | apply lenN_le_bytes4]).
  assert (F64 : takeN 4 (dropN 64 bs) = le_bytes 4 nm)
    by (eapply takeN_field; [exact D64 | apply lenN_le_bytes4]).
  assert (F68 : takeN 4 (dropN 68 bs) = le_bytes 4 fdi)
    by (eapply takeN_field; [exact D68 | apply lenN_le_bytes4]).
  assert (F72 : takeN 4 (dropN 72 bs) = le_bytes 4 ndi)
    by (eapply takeN_field; [exact D72 | apply lenN_le_bytes4]).
  assert (F76 : takeN (4 * NUM_DIFAT_HDR) (dropN 76 bs) = r76)
    by (change (4 * NUM_DIFAT_HDR) with 436; eapply takeN_field; [exact D76 | exact L76]).
  clearbody bs. clear D8 D24 D26 D28 D30 D32 D34 D40 D44 D48 D52 D56 D60 D64 D68 D72 D76.
  clearbody r8 r24 r26 r28 r30 r32 r34 r40 r44 r48 r52 r56 r60 r64 r68 r72.
  unfold header_decode.
  rewrite L. change (512 <? HEADER_LEN) with false. cbv iota. cbv zeta.
  unfold byte in *.
  rewrite T0, F26, F28, F30, F32, F40, F44, F48, F56, F60, F64, F68, F72, F76.
  clear T0 F26 F28 F30 F32 F40 F44 F48 F56 F60 F64 F68 F72 F76 L.
  rewrite list_eqb_refl. cbn [negb]. cbv iota.
  rewrite (le_val_le_bytes2 BYTE_ORDER_MARK) by (unfold BYTE_ORDER_MARK; lia).
  rewrite N.eqb_refl. cbn [negb]. cbv iota.
  rewrite (le_val_le_bytes2 (ver_number ver))
    by (destruct ver; unfold ver_number, V3_NUMBER, V4_NUMBER; lia).
  rewrite version_of_number_number. cbv beta iota.
  rewrite (le_val_le_bytes2 (sector_shift ver))
    by (destruct ver; unfold sector_shift, V3_SECTOR_SHIFT, V4_SECTOR_SHIFT; lia).
  rewrite N.eqb_refl. cbn [negb]. cbv iota.
  rewrite (le_val_le_bytes2 MINI_SECTOR_SHIFT) by (unfold MINI_SECTOR_SHIFT; lia).
  rewrite N.eqb_refl. cbn [negb]. cbv iota.
  rewrite (le_val_le_bytes4 MINI_STREAM_CUTOFF) by (unfold MINI_STREAM_CUTOFF, u32_max; lia).
  rewrite N.eqb_refl. cbn [negb]. cbv iota.
  rewrite (le_val_le_bytes4 nd) by exact Wnd.
  rewrite (le_val_le_bytes4 nf) by exact Wnf.
  rewrite (le_val_le_bytes4 fd) by exact Wfd.
  rewrite (le_val_le_bytes4 fm) by exact Wfm.
  rewrite (le_val_le_bytes4 nm) by exact Wnm.
  rewrite (le_val_le_bytes4 fdi) by exact Wfdi.
  rewrite (le_val_le_bytes4 ndi) by exact Wndi.
  replace (fdi =? FREE_SECTOR) with false by (symmetry; apply N.eqb_neq; exact Wfdi').
  cbv iota.
  subst r76.
  pose proof (u32s_le_bytes4 dif (difat_ok_u32 dif Wd)) as HD. unfold byte in HD.
  rewrite HD. clear HD.
  rewrite (hdr_difat_go_ok dif Wd). cbn [rbind].
  destruct ver; cbn [version_eqb andb].
  - rewrite (Wv3 eq_refl). change (0 =? 0) with true. cbn [negb andb]. reflexivity.
  - reflexivity.
Qed.

(* the header written by Cfb.create_image (literal copy of its local [hdr]) *)
Definition create_header (v : version) : header :=
  mkHeader v (match v with V3 => 0 | V4 => 1 end) 1 1 END_OF_CHAIN 0 END_OF_CHAIN 0
           (0 :: repeatN FREE_SECTOR (NUM_DIFAT_HDR - 1)).

Lemma header_wf_create : forall v, header_wf (create_header v).
Proof.
  intros v. unfold create_header.
  constructor; cbn [h_ver h_num_dir h_num_fat h_first_dir h_first_minifat h_num_minifat
                    h_first_difat h_num_difat h_difat].
  - destruct v; unfold u32_max; lia.
  - unfold u32_max; lia.
  - unfold u32_max; lia.
  - unfold END_OF_CHAIN, u32_max; lia.
  - unfold u32_max; lia.
  - unfold END_OF_CHAIN, u32_max; lia.
  - unfold END_OF_CHAIN, FREE_SECTOR; lia.
  - unfold u32_max; lia.
  - intros ->. reflexivity.
  - cbn [lenN]. rewrite lenN_repeatN. reflexivity.
  - apply (difat_ok_prefix [0]). constructor; [unfold MAX_REGULAR_SECTOR; lia|constructor].
Qed.

Example header_roundtrip_create : forall strict v,
  header_decode strict (header_encode (create_header v)) = Ok (create_header v).
Proof. intros. apply header_roundtrip, header_wf_create. Qed.

(* [create_header] really is the header of Cfb.create_image: sector 0 of the fresh
   image is its encoding followed by zero padding up to the sector length *)
From Cfb.model Require Cfb.

Lemma create_image_header : forall v,
  hd [] (Cfb.create_image v) =
  header_encode (create_header v) ++ repeatN 0 (sector_len v - HEADER_LEN).
Proof. intros v. reflexivity. Qed.

Print Assumptions le_val_le_bytes.
Print Assumptions le_bytes_length.
Print Assumptions le_bytes_lenN.
Print Assumptions le_bytes_lt256.
Print Assumptions le_bytes_le_val.
Print Assumptions clsid_roundtrip.
Print Assumptions clsid_encode_length.
Print Assumptions from_utf16_utf16.
Print Assumptions dirent_encode_length.
Print Assumptions dirent_encode_length_iff.
Print Assumptions dirent_roundtrip.
Print Assumptions dirent_wf_unallocated.
Print Assumptions dirent_wf_empty_root.
Print Assumptions dirent_wf_new.
Print Assumptions dirent_wf_inserted.
Print Assumptions header_roundtrip.
Print Assumptions header_wf_create.
Print Assumptions create_image_header.
