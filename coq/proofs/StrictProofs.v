(* StrictProofs.v — strict mode refines permissive mode: whenever the strict
   parser accepts a byte string, the permissive parser accepts it too and builds
   the identical state.  Plus the documented tolerated deviations at the
   decoder level.  No axioms, no admits. *)
From Coq Require Import List NArith Lia Bool.
From Cfb.model Require Import Base Names DirEnt State Alloc Dir Mini Open.
From Cfb.model Require Cfb.
From Cfb.gen Require Import Consts.
Import ListNotations.
Open Scope N_scope.

(* ------------------------------------------------------------------ *)
(* Generic helpers                                                      *)
(* ------------------------------------------------------------------ *)

Lemma rbind_ok : forall {A B} (m : res A) (f : A -> res B) x,
  rbind m f = Ok x -> exists a, m = Ok a /\ f a = Ok x.
Proof. intros A B [a| | |] f x H; try discriminate. exists a; auto. Qed.

Lemma lenN_length : forall {A} (l : list A), lenN l = N.of_nat (length l).
Proof. induction l as [|x t IH]; cbn [lenN length]; [reflexivity|]. rewrite IH. lia. Qed.

Lemma lenN_rev : forall {A} (l : list A), lenN (rev l) = lenN l.
Proof. intros. rewrite !lenN_length, rev_length. reflexivity. Qed.

Lemma lenN_app : forall {A} (a b : list A), lenN (a ++ b) = lenN a + lenN b.
Proof. intros. rewrite !lenN_length, app_length. lia. Qed.

Lemma updN_same : forall {A} (l : list A) i v, nthN l i = Some v -> updN l i v = l.
Proof.
  induction l as [|x t IH]; intros i v H; cbn [nthN updN] in *; [reflexivity|].
  destruct (i =? 0).
  - congruence.
  - f_equal. apply IH. exact H.
Qed.

(* ------------------------------------------------------------------ *)
(* strip_last_while                                                     *)
(* ------------------------------------------------------------------ *)

(* fuel-free form of pop_while on the reversed list *)
Fixpoint popw (p : N -> bool) (m : N) (r : list N) : list N :=
  match r with
  | [] => []
  | x :: t => if (m <? lenN r) && p x then popw p m t else r
  end.

Lemma pop_while_popw : forall fuel p m r,
  (length r <= fuel)%nat -> pop_while fuel p m r (lenN r) = popw p m r.
Proof.
  induction fuel as [|f IH]; intros p m r Hl.
  - destruct r; [reflexivity | cbn in Hl; lia].
  - destruct r as [|x t]; [reflexivity|].
    cbn [pop_while popw].
    destruct ((m <? lenN (x :: t)) && p x); [|reflexivity].
    replace (lenN (x :: t) - 1) with (lenN t) by (cbn [lenN]; lia).
    apply IH. cbn in Hl; lia.
Qed.

Lemma strip_popw : forall p m l, strip_last_while p m l = rev (popw p m (rev l)).
Proof.
  intros. unfold strip_last_while, rev'. rewrite <- !rev_alt. rewrite <- (lenN_rev l).
  rewrite pop_while_popw; [reflexivity|]. rewrite rev_length. lia.
Qed.

Lemma popw_short : forall p m r, lenN r <= m -> popw p m r = r.
Proof.
  intros p m [|x t] H; [reflexivity|]. cbn [popw].
  replace (m <? lenN (x :: t)) with false by (symmetry; apply N.ltb_ge; exact H).
  reflexivity.
Qed.

Lemma popw_head_fails : forall p m x t, p x = false -> popw p m (x :: t) = x :: t.
Proof. intros. cbn [popw]. rewrite H, andb_false_r. reflexivity. Qed.

(* strip_last_while is the identity on [], when the last element fails p, or
   when the list is already no longer than the minimum length *)
Lemma strip_nil : forall p m, strip_last_while p m [] = [].
Proof. intros. rewrite strip_popw. reflexivity. Qed.

Lemma strip_short : forall p m l, lenN l <= m -> strip_last_while p m l = l.
Proof.
  intros. rewrite strip_popw, popw_short, rev_involutive; [reflexivity|].
  rewrite lenN_rev. exact H.
Qed.

Lemma strip_last_fails : forall p m l x, p x = false ->
  strip_last_while p m (l ++ [x]) = l ++ [x].
Proof.
  intros. rewrite strip_popw, rev_app_distr. cbn [rev app].
  rewrite popw_head_fails by exact H. cbn [rev]. rewrite rev_involutive. reflexivity.
Qed.

Lemma lenN_strip : forall p m l, lenN (strip_last_while p m l) = lenN (popw p m (rev l)).
Proof. intros. rewrite strip_popw, lenN_rev. reflexivity. Qed.

(* a wider predicate pops exactly the same elements when the narrow one already
   gets the list down to the minimum length *)
Lemma popw_wider : forall (p q : N -> bool) m r,
  (forall x, q x = true -> p x = true) ->
  lenN (popw q m r) <= m -> popw p m r = popw q m r.
Proof.
  intros p q m r Hpq. induction r as [|x t IH]; intros Hlen; [reflexivity|].
  cbn [popw] in *.
  destruct (m <? lenN (x :: t)) eqn:Elt; cbn [andb] in *; [|reflexivity].
  destruct (q x) eqn:Eq.
  - rewrite (Hpq _ Eq). apply IH. exact Hlen.
  - apply N.ltb_lt in Elt. lia.
Qed.

Lemma strip_wider_then_narrow : forall (p q : N -> bool) m l,
  (forall x, q x = true -> p x = true) ->
  lenN (strip_last_while q m l) <= m ->
  strip_last_while q m (strip_last_while p m l) = strip_last_while q m l.
Proof.
  intros p q m l Hpq Hlen.
  rewrite lenN_strip in Hlen.
  rewrite (strip_popw p), (strip_popw q m (rev _)), rev_involutive.
  rewrite (popw_wider p q m _ Hpq Hlen).
  rewrite (popw_short q m (popw q m (rev l)) Hlen).
  rewrite <- strip_popw. reflexivity.
Qed.

(* the DIFAT pre-trim: zeros are removed only while the list is longer than
   max(109, num_fat); if afterwards stripping FREE entries leaves exactly
   num_fat entries in the untrimmed list, the pre-trim changed nothing *)
Lemma strip_zero_then_free : forall k nf l,
  nf = lenN (strip_last_while (fun x => x =? FREE_SECTOR) 0 l) ->
  strip_last_while (fun x => x =? 0) (N.max k nf) l = l.
Proof.
  intros k nf l Hnf. rewrite lenN_strip in Hnf.
  rewrite strip_popw. rewrite <- (rev_involutive l) at 2. f_equal.
  destruct (rev l) as [|x t] eqn:Er; [reflexivity|].
  destruct (x =? 0) eqn:Ex.
  - apply N.eqb_eq in Ex. subst x.
    rewrite popw_head_fails in Hnf by reflexivity.
    apply popw_short. lia.
  - apply popw_head_fails. exact Ex.
Qed.

(* ------------------------------------------------------------------ *)
(* Stepping tactic: goal  [strict run = Ok x -> permissive run = Ok x]   *)
(* ------------------------------------------------------------------ *)

Ltac head_scrut t :=
  lazymatch t with
  | rbind ?m _ => head_scrut m
  | (if ?c then _ else _) => head_scrut c
  | match ?c with _ => _ end => head_scrut c
  | _ => t
  end.

Ltac norm := rewrite ?andb_true_r, ?andb_false_r; cbn [rbind andb negb].

(* fewer than 128 bytes never decode *)
Lemma dirent_decode_short_not_ok : forall strict bs e, dirent_decode_short strict bs <> Ok e.
Proof.
  intros strict bs e. unfold dirent_decode_short. cbv zeta.
  repeat match goal with
         | |- (if ?c then _ else _) <> _ => destruct c
         | |- (match ?x with _ => _ end) <> _ => destruct x
         end; discriminate.
Qed.

Ltac kill := try (intros; discriminate);
  try (let Hs := fresh in intros Hs; exfalso; exact (dirent_decode_short_not_ok _ _ _ Hs)).

(* one step along the strict run (left of the arrow) *)
Ltac step :=
  norm;
  lazymatch goal with
  | |- ?lhs = Ok _ -> _ =>
    let c := head_scrut lhs in
    lazymatch c with
    | Ok _ => fail "done"
    | difat_loop _ _ _ _ _ _ _ _ _ => fail "recursive call"
    | dir_loop _ _ _ _ _ _ _ _ _ _ _ => fail "recursive call"
    | dir_dfs _ _ _ _ _ => fail "recursive call"
    | _ => destruct c eqn:?; norm; kill
    end
  end.

(* ------------------------------------------------------------------ *)
(* Decoders                                                             *)
(* ------------------------------------------------------------------ *)

Lemma header_decode_strict_perm : forall bs h,
  header_decode true bs = Ok h -> header_decode false bs = Ok h.
Proof.
  intros bs h. unfold header_decode.
  repeat step. exact (fun H => H).
Qed.

Lemma dirent_decode_strict_perm : forall v bs e,
  dirent_decode v true bs = Ok e -> dirent_decode v false bs = Ok e.
Proof.
  intros v bs e. unfold dirent_decode.
  repeat step; exact (fun H => H).
Qed.

Lemma read_dirents_strict_perm : forall v n bs es,
  read_dirents v true n bs = Ok es -> read_dirents v false n bs = Ok es.
Proof.
  intros v n. induction n as [|n IH]; intros bs es; cbn [read_dirents].
  - exact (fun H => H).
  - destruct (dirent_decode v true (takeN DIR_ENTRY_LEN bs)) as [e| | |] eqn:He; norm; kill.
    rewrite (dirent_decode_strict_perm _ _ _ He); norm.
    destruct (read_dirents v true n (dropN DIR_ENTRY_LEN bs)) as [r| | |] eqn:Hr; norm; kill.
    rewrite (IH _ _ Hr); norm. exact (fun H => H).
Qed.

(* ------------------------------------------------------------------ *)
(* DIFAT walk                                                           *)
(* ------------------------------------------------------------------ *)

Lemma difat_loop_strict_perm : forall fuel im sl ns cur seen ids difat r,
  difat_loop fuel true im sl ns cur seen ids difat = Ok r ->
  difat_loop fuel false im sl ns cur seen ids difat = Ok r.
Proof.
  induction fuel as [|f IH]; intros im sl ns cur seen ids difat r; cbn [difat_loop].
  - intros; discriminate.
  - repeat step; try exact (fun H => H).
    apply IH.
Qed.

(* ------------------------------------------------------------------ *)
(* Allocator::validate                                                  *)
(* ------------------------------------------------------------------ *)

(* strict success means every listed cell already held the marker, so nothing
   was changed *)
Lemma mark_sectors_strict_id : forall marker ids fat fat',
  mark_sectors true marker ids fat = Ok fat' -> fat' = fat.
Proof.
  intros marker ids. induction ids as [|i t IH]; intros fat fat'; cbn [mark_sectors].
  - intros H; injection H; auto.
  - destruct (nthN fat i) as [v|] eqn:Hn; kill. norm.
    destruct (negb (v =? marker)) eqn:Hv; kill.
    apply negb_false_iff, N.eqb_eq in Hv. subst v.
    rewrite (updN_same _ _ _ Hn). apply IH.
Qed.

Lemma mark_sectors_strict_perm : forall marker ids fat fat',
  mark_sectors true marker ids fat = Ok fat' ->
  mark_sectors false marker ids fat = Ok fat'.
Proof.
  intros marker ids. induction ids as [|i t IH]; intros fat fat'; cbn [mark_sectors].
  - exact (fun H => H).
  - destruct (nthN fat i) as [v|] eqn:Hn; kill. norm.
    destruct (negb (v =? marker)) eqn:Hv; kill.
    apply negb_false_iff, N.eqb_eq in Hv. subst v.
    rewrite (updN_same _ _ _ Hn). apply IH.
Qed.

Lemma alloc_validate_strict_perm : forall ns ids difat fat r,
  alloc_validate true ns ids difat fat = Ok r ->
  alloc_validate false ns ids difat fat = Ok r.
Proof.
  intros ns ids difat fat r. unfold alloc_validate.
  destruct (ns <? lenN fat); kill.
  destruct (mark_sectors true DIFAT_SECTOR ids fat) as [fat1| | |] eqn:H1; norm; kill.
  rewrite (mark_sectors_strict_perm _ _ _ _ H1); norm.
  destruct (mark_sectors true FAT_SECTOR difat fat1) as [fat2| | |] eqn:H2; norm; kill.
  rewrite (mark_sectors_strict_perm _ _ _ _ H2); norm.
  exact (fun H => H).
Qed.

Lemma alloc_validate_len : forall strict ns ids difat fat r,
  alloc_validate strict ns ids difat fat = Ok r -> lenN fat <= ns.
Proof.
  intros strict ns ids difat fat r. unfold alloc_validate.
  destruct (ns <? lenN fat) eqn:E; kill. intros _. apply N.ltb_ge. exact E.
Qed.

(* ------------------------------------------------------------------ *)
(* Directory chain and Directory::validate                              *)
(* ------------------------------------------------------------------ *)

Lemma dir_loop_strict_perm : forall fuel v num_dir im ns fat cur count seen acc ds,
  dir_loop fuel true v num_dir im ns fat cur count seen acc = Ok ds ->
  dir_loop fuel false v num_dir im ns fat cur count seen acc = Ok ds.
Proof.
  induction fuel as [|f IH]; intros v num_dir im ns fat cur count seen acc ds; cbn [dir_loop].
  - intros; discriminate.
  - do 5 (step; try exact (fun H => H)).
    destruct (read_dirents v true (N.to_nat (dir_per_sector v)) (img_read im (cur + 1) 0 (sector_len v)))
      as [es| | |] eqn:He; norm; kill.
    rewrite (read_dirents_strict_perm _ _ _ _ He); norm.
    step. apply IH.
Qed.

Lemma dir_dfs_strict_perm : forall fuel ds stack visited u,
  dir_dfs fuel true ds stack visited = Ok u ->
  dir_dfs fuel false ds stack visited = Ok u.
Proof.
  induction fuel as [|f IH]; intros ds stack visited u; cbn [dir_dfs].
  - intros; discriminate.
  - destruct stack as [|[id parent_red] rest]; [exact (fun H => H)|].
    repeat step; apply IH.
Qed.

Lemma dir_validate_strict_perm : forall ds u,
  dir_validate true ds = Ok u -> dir_validate false ds = Ok u.
Proof.
  intros ds u. unfold dir_validate. destruct ds as [|root t]; kill.
  step. apply dir_dfs_strict_perm.
Qed.

(* ------------------------------------------------------------------ *)
(* MiniAllocator::validate                                              *)
(* ------------------------------------------------------------------ *)

(* strict success means the truncation is not needed *)
Lemma mini_validate_strict_perm : forall root_len mf r,
  mini_validate true root_len mf = Ok r -> mini_validate false root_len mf = Ok r.
Proof.
  intros root_len mf r. unfold mini_validate.
  destruct (root_len / MINI_SECTOR_LEN <? lenN mf); norm; kill.
  exact (fun H => H).
Qed.

(* ------------------------------------------------------------------ *)
(* Main theorem                                                         *)
(* ------------------------------------------------------------------ *)

Lemma wide_of_free : forall x,
  (x =? FREE_SECTOR) = true ->
  ((x =? 0) || (x =? DIFAT_SECTOR) || (x =? FAT_SECTOR) || (x =? FREE_SECTOR)) = true.
Proof. intros x H. rewrite H. apply orb_true_r. Qed.

Theorem strict_implies_permissive : forall bytes s,
  open_model true bytes = Ok s -> open_model false bytes = Ok s.
Proof.
  intros bytes s. unfold open_model.
  step.
  destruct (header_decode true (takeN HEADER_LEN bytes)) as [h| | |] eqn:Hh; norm; kill.
  rewrite (header_decode_strict_perm _ _ Hh); norm.
  set (sl := sector_len (h_ver h)).
  set (ns := (lenN bytes + sl - 1) / sl - 1).
  set (im := chunks sl bytes).
  clearbody im ns sl.
  step. step.
  match goal with |- rbind ?m _ = _ -> _ => destruct m as [[ids difat0]| | |] eqn:Hd end; norm; kill.
  rewrite (difat_loop_strict_perm _ _ _ _ _ _ _ _ _ Hd); norm.
  step.
  (* DIFAT: the permissive zero pre-trim is the identity *)
  destruct (negb (h_num_fat h =? lenN (strip_last_while (fun x => x =? FREE_SECTOR) 0 difat0))) eqn:Hnf;
    norm; kill.
  apply negb_false_iff, N.eqb_eq in Hnf.
  rewrite (strip_zero_then_free NUM_DIFAT_HDR _ _ Hnf).
  set (difat2 := strip_last_while (fun x => x =? FREE_SECTOR) 0 difat0). clearbody difat2.
  match goal with |- rbind ?m _ = _ -> _ => destruct m as [fat0| | |] eqn:Hf end; norm; kill.
  (* FAT: the wider permissive trim removes exactly the same cells *)
  match goal with |- rbind ?m _ = _ -> _ => destruct m as [[fat4 free]| | |] eqn:Ha end; norm; kill.
  pose proof (alloc_validate_len _ _ _ _ _ _ Ha) as Hlen.
  rewrite lenN_app in Hlen.
  rewrite (strip_wider_then_narrow _ (fun x => x =? FREE_SECTOR) ns fat0 wide_of_free) by lia.
  rewrite (alloc_validate_strict_perm _ _ _ _ _ Ha); norm.
  match goal with |- rbind ?m _ = _ -> _ => destruct m as [ds| | |] eqn:Hdl end; norm; kill.
  rewrite (dir_loop_strict_perm _ _ _ _ _ _ _ _ _ _ _ Hdl); norm.
  match goal with |- rbind ?m _ = _ -> _ => destruct m as [u| | |] eqn:Hdv end; norm; kill.
  rewrite (dir_validate_strict_perm _ _ Hdv); norm.
  match goal with |- rbind ?m _ = _ -> _ => destruct m as [[c s1]| | |] eqn:Hc end; norm; kill.
  step.
  match goal with |- rbind ?m _ = _ -> _ => destruct m as [[[c2 mbytes] s2]| | |] eqn:Hr end; norm; kill.
  destruct ds as [|root dt]; kill.
  match goal with |- rbind ?m _ = _ -> _ => destruct m as [[mf mfree]| | |] eqn:Hm end; norm; kill.
  rewrite (mini_validate_strict_perm _ _ _ Hm); norm.
  exact (fun H => H).
Qed.

(* ------------------------------------------------------------------ *)
(* Tolerated deviations at the decoder level: list infrastructure       *)
(* ------------------------------------------------------------------ *)

Lemma succ_eqb0 : forall n, (N.succ n =? 0) = false.
Proof. intros. apply N.eqb_neq. lia. Qed.

Lemma nthN_cons_succ : forall {A} (x : A) t i, nthN (x :: t) (N.succ i) = nthN t i.
Proof. intros. cbn [nthN]. rewrite succ_eqb0, N.pred_succ. reflexivity. Qed.

Lemma nthN_cons_pos : forall {A} (x : A) t i, 0 < i -> nthN (x :: t) i = nthN t (i - 1).
Proof.
  intros. replace i with (N.succ (i - 1)) at 1 by lia. apply nthN_cons_succ.
Qed.

Lemma list_ext : forall {A} (l l' : list A), (forall i, nthN l i = nthN l' i) -> l = l'.
Proof.
  induction l as [|x t IH]; intros [|y t'] H.
  - reflexivity.
  - specialize (H 0). discriminate.
  - specialize (H 0). discriminate.
  - pose proof (H 0) as H0. cbn in H0. injection H0 as ->. f_equal.
    apply IH. intros i. specialize (H (N.succ i)). rewrite !nthN_cons_succ in H. exact H.
Qed.

Lemma nthN_nil : forall {A} i, @nthN A [] i = None.
Proof. reflexivity. Qed.

Lemma nthN_takeN : forall {A} (l : list A) k i,
  nthN (takeN k l) i = if i <? k then nthN l i else None.
Proof.
  induction l as [|x t IH]; intros k i; cbn [takeN].
  - cbn. destruct (i <? k); reflexivity.
  - destruct (k =? 0) eqn:Ek.
    + apply N.eqb_eq in Ek. subst k. replace (i <? 0) with false by (symmetry; apply N.ltb_ge; lia).
      reflexivity.
    + apply N.eqb_neq in Ek. cbn [nthN]. destruct (i =? 0) eqn:Ei.
      * apply N.eqb_eq in Ei. subst i.
        replace (0 <? k) with true by (symmetry; apply N.ltb_lt; lia). reflexivity.
      * apply N.eqb_neq in Ei. rewrite IH.
        destruct (N.pred i <? N.pred k) eqn:E1; destruct (i <? k) eqn:E2; try reflexivity;
          rewrite ?N.ltb_lt, ?N.ltb_ge in *; lia.
Qed.

Lemma nthN_dropN : forall {A} (l : list A) a i, nthN (dropN a l) i = nthN l (a + i).
Proof.
  induction l as [|x t IH]; intros a i; cbn [dropN].
  - reflexivity.
  - destruct (a =? 0) eqn:Ea.
    + apply N.eqb_eq in Ea. subst a. reflexivity.
    + apply N.eqb_neq in Ea. rewrite IH.
      rewrite (nthN_cons_pos x t (a + i)) by lia. f_equal. lia.
Qed.

Lemma nthN_app : forall {A} (a b : list A) i,
  nthN (a ++ b) i = if i <? lenN a then nthN a i else nthN b (i - lenN a).
Proof.
  induction a as [|x t IH]; intros b i; cbn [app lenN].
  - replace (i <? 0) with false by (symmetry; apply N.ltb_ge; lia). f_equal. lia.
  - cbn [nthN]. destruct (i =? 0) eqn:Ei.
    + apply N.eqb_eq in Ei. subst i.
      replace (0 <? N.succ (lenN t)) with true by (symmetry; apply N.ltb_lt; lia). reflexivity.
    + apply N.eqb_neq in Ei. rewrite IH.
      destruct (N.pred i <? lenN t) eqn:E1; destruct (i <? N.succ (lenN t)) eqn:E2;
        rewrite ?N.ltb_lt, ?N.ltb_ge in *; try lia; try reflexivity.
      f_equal. lia.
Qed.

Lemma lenN_takeN : forall {A} (l : list A) k, lenN (takeN k l) = N.min k (lenN l).
Proof.
  induction l as [|x t IH]; intros k; cbn [takeN lenN].
  - lia.
  - destruct (k =? 0) eqn:Ek.
    + apply N.eqb_eq in Ek. subst. cbn [lenN]. lia.
    + apply N.eqb_neq in Ek. cbn [lenN]. rewrite IH. lia.
Qed.

Lemma nthN_none : forall {A} (l : list A) i, lenN l <= i -> nthN l i = None.
Proof.
  induction l as [|x t IH]; intros i H; [reflexivity|].
  cbn [lenN] in H. rewrite nthN_cons_pos by lia. apply IH. lia.
Qed.

Lemma nthN_some : forall {A} (l : list A) i, i < lenN l -> exists x, nthN l i = Some x.
Proof.
  induction l as [|x t IH]; intros i H; cbn [lenN] in H; [lia|].
  destruct (N.eq_dec i 0) as [->|Hi].
  - exists x. reflexivity.
  - rewrite nthN_cons_pos by lia. apply IH. lia.
Qed.

Lemma takeN_all : forall {A} (l : list A) k, lenN l <= k -> takeN k l = l.
Proof.
  intros. apply list_ext. intros i. rewrite nthN_takeN.
  destruct (i <? k) eqn:E; [reflexivity|]. apply N.ltb_ge in E.
  symmetry. apply nthN_none. lia.
Qed.

Lemma dropN_0 : forall {A} (l : list A), dropN 0 l = l.
Proof. intros A [|x t]; reflexivity. Qed.

(* spliceN inside the list: no gap, no extension *)
Lemma nthN_splice : forall l off g i, off + lenN g <= lenN l ->
  nthN (spliceN l off g) i =
  if (off <=? i) && (i <? off + lenN g) then nthN g (i - off) else nthN l i.
Proof.
  intros l off g i H. unfold spliceN.
  assert (Hp : lenN (takeN off l) = off) by (rewrite lenN_takeN; lia).
  rewrite Hp, N.sub_diag. change (repeatN 0 0) with (@nil byte). cbn [app].
  rewrite nthN_app, Hp, nthN_takeN, nthN_app, nthN_dropN.
  destruct (off <=? i) eqn:E1; destruct (i <? off) eqn:E2; cbn [andb];
    rewrite ?N.leb_le, ?N.leb_gt, ?N.ltb_lt, ?N.ltb_ge in *; try lia; try reflexivity.
  destruct (i - off <? lenN g) eqn:E3; destruct (i <? off + lenN g) eqn:E4;
    rewrite ?N.ltb_lt, ?N.ltb_ge in *; try lia; try reflexivity.
  f_equal. lia.
Qed.

Lemma lenN_dropN : forall {A} (l : list A) k, lenN (dropN k l) = lenN l - k.
Proof.
  induction l as [|x t IH]; intros k; cbn [dropN lenN].
  - lia.
  - destruct (k =? 0) eqn:Ek.
    + apply N.eqb_eq in Ek. subst. cbn [lenN]. lia.
    + apply N.eqb_neq in Ek. rewrite IH. lia.
Qed.

Lemma lenN_splice : forall l off g, off + lenN g <= lenN l -> lenN (spliceN l off g) = lenN l.
Proof.
  intros l off g H. unfold spliceN.
  assert (Hp : lenN (takeN off l) = off) by (rewrite lenN_takeN; lia).
  rewrite Hp, N.sub_diag. change (repeatN 0 0) with (@nil byte). cbn [app].
  rewrite !lenN_app, Hp, lenN_dropN. lia.
Qed.

(* a window [a, a+k) of the list *)
Lemma win_ext : forall {A} (l l' : list A) a b k,
  (forall i, i < k -> nthN l (a + i) = nthN l' (b + i)) ->
  takeN k (dropN a l) = takeN k (dropN b l').
Proof.
  intros A l l' a b k H. apply list_ext. intros i.
  rewrite !nthN_takeN, !nthN_dropN. destruct (i <? k) eqn:E; [|reflexivity].
  apply H. apply N.ltb_lt. exact E.
Qed.

Lemma win_splice_outside : forall l off g a k, off + lenN g <= lenN l ->
  a + k <= off \/ off + lenN g <= a ->
  takeN k (dropN a (spliceN l off g)) = takeN k (dropN a l).
Proof.
  intros l off g a k H Hd. apply win_ext. intros i Hi. rewrite nthN_splice by exact H.
  destruct (off <=? a + i) eqn:E1; destruct (a + i <? off + lenN g) eqn:E2; cbn [andb];
    rewrite ?N.leb_le, ?N.leb_gt, ?N.ltb_lt, ?N.ltb_ge in *; try lia; reflexivity.
Qed.

Lemma win_splice_inside : forall l off g a k, off + lenN g <= lenN l ->
  off <= a -> a + k <= off + lenN g ->
  takeN k (dropN a (spliceN l off g)) = takeN k (dropN (a - off) g).
Proof.
  intros l off g a k H H1 H2. apply win_ext. intros i Hi. rewrite nthN_splice by exact H.
  destruct (off <=? a + i) eqn:E1; destruct (a + i <? off + lenN g) eqn:E2; cbn [andb];
    rewrite ?N.leb_le, ?N.leb_gt, ?N.ltb_lt, ?N.ltb_ge in *; try lia.
  f_equal. lia.
Qed.

Lemma win_splice_at : forall l off g k, off + lenN g <= lenN l -> lenN g = k ->
  takeN k (dropN off (spliceN l off g)) = g.
Proof.
  intros l off g k H Hk. rewrite win_splice_inside by lia.
  rewrite N.sub_diag, dropN_0. apply takeN_all. lia.
Qed.

Lemma take_splice_outside : forall l off g k, off + lenN g <= lenN l -> k <= off ->
  takeN k (spliceN l off g) = takeN k l.
Proof.
  intros l off g k H Hk.
  transitivity (takeN k (dropN 0 (spliceN l off g))); [rewrite dropN_0; reflexivity|].
  transitivity (takeN k (dropN 0 l)); [|rewrite dropN_0; reflexivity].
  apply win_splice_outside; [exact H | lia].
Qed.

Lemma nthN_splice_outside : forall l off g i, off + lenN g <= lenN l ->
  i < off \/ off + lenN g <= i -> nthN (spliceN l off g) i = nthN l i.
Proof.
  intros l off g i H Hd. rewrite nthN_splice by exact H.
  destruct (off <=? i) eqn:E1; destruct (i <? off + lenN g) eqn:E2; cbn [andb];
    rewrite ?N.leb_le, ?N.leb_gt, ?N.ltb_lt, ?N.ltb_ge in *; try lia; reflexivity.
Qed.

Lemma dirent_decode_len : forall v st bs e, dirent_decode v st bs = Ok e -> 128 <= lenN bs.
Proof.
  intros v st bs e. unfold dirent_decode.
  destruct (lenN bs <? DIR_ENTRY_LEN) eqn:E.
  { intros H. exfalso. exact (dirent_decode_short_not_ok _ _ _ H). }
  intros _. apply N.ltb_ge in E. exact E.
Qed.

Lemma header_decode_len : forall st bs h, header_decode st bs = Ok h -> 512 <= lenN bs.
Proof.
  intros st bs h. unfold header_decode.
  destruct (lenN bs <? HEADER_LEN) eqn:E; kill. intros _.
  apply N.ltb_ge in E. exact E.
Qed.

(* rewrite every read of the spliced list that lies outside the splice *)
Ltac splice_simpl Hle :=
  rewrite ?(lenN_splice _ _ _ Hle);
  rewrite ?(take_splice_outside _ _ _ _ Hle) by lia;
  rewrite ?(nthN_splice_outside _ _ _ _ Hle) by lia;
  rewrite ?(win_splice_outside _ _ _ _ _ Hle) by lia.

(* ------------------------------------------------------------------ *)
(* Tolerated deviations: header                                         *)
(* ------------------------------------------------------------------ *)

(* a version-3 header whose "number of directory sectors" field is not zero *)
Theorem tolerated_v3_num_dir : forall bs h g,
  header_decode true bs = Ok h -> h_ver h = V3 ->
  lenN g = 4 -> le_val g <> 0 ->
  let bs' := spliceN bs HDR_OFF_NUM_DIR g in
  header_decode false bs' = Ok h /\ header_decode true bs' = Err EInvalidData.
Proof.
  intros bs h g H Hv Hg Hnz bs'. subst bs'. unfold HDR_OFF_NUM_DIR.
  pose proof (header_decode_len _ _ _ H) as Hlen.
  assert (Hle : 40 + lenN g <= lenN bs) by lia.
  apply N.eqb_neq in Hnz.
  split; revert H; unfold header_decode;
    rewrite (win_splice_at _ _ _ 4 Hle Hg); splice_simpl Hle.
  - repeat step. intros Hk. injection Hk as <-. cbn in Hv. subst v. reflexivity.
  - repeat step. intros Hk. injection Hk as <-. cbn in Hv. subst v.
    rewrite Hnz. reflexivity.
Qed.

(* FREE_SECTOR as the first DIFAT sector is read as END_OF_CHAIN, in both modes *)
Theorem tolerated_first_difat_free : forall st bs h,
  header_decode st bs = Ok h -> h_first_difat h = END_OF_CHAIN ->
  header_decode st (spliceN bs HDR_OFF_FIRST_DIFAT (le_bytes 4 FREE_SECTOR)) = Ok h.
Proof.
  intros st bs h H Hfd. unfold HDR_OFF_FIRST_DIFAT.
  pose proof (header_decode_len _ _ _ H) as Hlen.
  set (g := le_bytes 4 FREE_SECTOR).
  assert (Hg : lenN g = 4) by reflexivity.
  assert (Hgv : le_val g = FREE_SECTOR) by reflexivity.
  clearbody g.
  assert (Hle : 68 + lenN g <= lenN bs) by lia.
  revert H; unfold header_decode.
  rewrite (win_splice_at _ _ _ 4 Hle Hg); splice_simpl Hle.
  repeat step. intros Hk. injection Hk as <-. cbn in Hfd.
  rewrite Hgv, N.eqb_refl, Hfd. reflexivity.
Qed.

(* ------------------------------------------------------------------ *)
(* Tolerated deviations: directory entries                              *)
(* ------------------------------------------------------------------ *)

(* a stream entry with a non-zero CLSID (bytes 80..95) *)
Theorem tolerated_stream_clsid : forall v bs e g,
  dirent_decode v true bs = Ok e -> d_type e = TStream ->
  lenN g = 16 -> clsid_decode g <> 0 ->
  let bs' := spliceN bs 80 g in
  dirent_decode v false bs' = Ok e /\ dirent_decode v true bs' = Err EInvalidData.
Proof.
  intros v bs e g H Hty Hg Hnz bs'. subst bs'.
  pose proof (dirent_decode_len _ _ _ _ H) as Hlen.
  assert (Hle : 80 + lenN g <= lenN bs) by lia.
  apply N.eqb_neq in Hnz.
  split; revert H; unfold dirent_decode;
    rewrite (win_splice_at _ _ _ 16 Hle Hg); splice_simpl Hle.
  - repeat step; intros Hk; injection Hk as <-; cbn in Hty; subst; try discriminate; reflexivity.
  - repeat step; intros Hk; injection Hk as <-; cbn in Hty; subst; try discriminate.
    rewrite Hnz. reflexivity.
Qed.

(* a stream entry with non-zero creation / modification times (bytes 100..115) *)
Theorem tolerated_stream_times : forall v bs e t,
  dirent_decode v true bs = Ok e -> d_type e = TStream ->
  lenN t = 16 ->
  le_val (takeN 8 t) <> 0 \/ le_val (takeN 8 (dropN 8 t)) <> 0 ->
  let bs' := spliceN bs 100 t in
  dirent_decode v false bs' = Ok e /\ dirent_decode v true bs' = Err EInvalidData.
Proof.
  intros v bs e t H Hty Hg Hnz bs'. subst bs'.
  pose proof (dirent_decode_len _ _ _ _ H) as Hlen.
  assert (Hle : 100 + lenN t <= lenN bs) by lia.
  split; revert H; unfold dirent_decode;
    rewrite (win_splice_inside _ _ _ 100 8 Hle), (win_splice_inside _ _ _ 108 8 Hle) by lia;
    change (100 - 100) with 0; change (108 - 100) with 8; rewrite dropN_0;
    splice_simpl Hle.
  - repeat step; intros Hk; injection Hk as <-; cbn in Hty; subst; try discriminate; reflexivity.
  - repeat step; intros Hk; injection Hk as <-; cbn in Hty; subst; try discriminate.
    cbn [objtype_eqb andb].
    destruct (le_val (takeN 8 t) =? 0) eqn:E1; [|reflexivity].
    destruct (le_val (takeN 8 (dropN 8 t)) =? 0) eqn:E2; [|reflexivity].
    apply N.eqb_eq in E1, E2. exfalso. destruct Hnz as [Hn|Hn]; apply Hn; assumption.
Qed.

(* a storage entry with a non-zero start sector / stream length (bytes 116..127) *)
Theorem tolerated_storage_start_len : forall v bs e g,
  dirent_decode v true bs = Ok e -> d_type e = TStorage ->
  lenN g = 12 ->
  le_val (takeN 4 g) <> 0 \/ N.land (le_val (takeN 8 (dropN 4 g))) (stream_len_mask v) <> 0 ->
  let bs' := spliceN bs 116 g in
  dirent_decode v false bs' = Ok e /\ dirent_decode v true bs' = Err EInvalidData.
Proof.
  intros v bs e g H Hty Hg Hnz bs'. subst bs'.
  pose proof (dirent_decode_len _ _ _ _ H) as Hlen.
  assert (Hle : 116 + lenN g <= lenN bs) by lia.
  split; revert H; unfold dirent_decode;
    rewrite (win_splice_inside _ _ _ 116 4 Hle), (win_splice_inside _ _ _ 120 8 Hle) by lia;
    change (116 - 116) with 0; change (120 - 116) with 4; rewrite dropN_0;
    splice_simpl Hle.
  - repeat step; intros Hk; injection Hk as <-; cbn in Hty; subst; try discriminate; reflexivity.
  - repeat step; intros Hk; injection Hk as <-; cbn in Hty; subst; try discriminate.
    cbn [objtype_eqb andb].
    destruct (le_val (takeN 4 g) =? 0) eqn:E1; [|reflexivity].
    destruct (N.land (le_val (takeN 8 (dropN 4 g))) (stream_len_mask v) =? 0) eqn:E2; [|reflexivity].
    apply N.eqb_eq in E1, E2. exfalso. destruct Hnz as [Hn|Hn]; apply Hn; assumption.
Qed.

(* ---- the name field ---- *)

Lemma list_eqb_eq : forall a b, list_eqb N.eqb a b = true -> a = b.
Proof.
  induction a as [|x t IH]; intros [|y t'] H; cbn [list_eqb] in H; try discriminate; [reflexivity|].
  apply andb_true_iff in H. destruct H as [H1 H2]. apply N.eqb_eq in H1. subst y.
  f_equal. apply IH. exact H2.
Qed.

Lemma list_eqb_neq : forall a b, a <> b -> list_eqb N.eqb a b = false.
Proof.
  intros a b H. destruct (list_eqb N.eqb a b) eqn:E; [|reflexivity].
  exfalso. apply H. apply list_eqb_eq. exact E.
Qed.

Lemma lenN_u16s_aux : forall n l, (length l <= n)%nat -> lenN (u16s l) = lenN l / 2.
Proof.
  induction n as [|n IH]; intros l Hl.
  - destruct l; [reflexivity | cbn in Hl; lia].
  - destruct l as [|x [|y t]]; [reflexivity | reflexivity |].
    cbn [u16s lenN]. rewrite IH by (cbn in Hl; lia).
    replace (N.succ (N.succ (lenN t))) with (lenN t + 1 * 2) by lia.
    rewrite N.div_add by lia. lia.
Qed.

Lemma lenN_u16s : forall l, lenN (u16s l) = lenN l / 2.
Proof. intros. apply (lenN_u16s_aux (length l)). lia. Qed.

Lemma name_chars_len : forall l, 64 <= lenN l -> lenN (u16s (takeN 64 l)) = 32.
Proof. intros. rewrite lenN_u16s, lenN_takeN, N.min_l by lia. reflexivity. Qed.

Lemma nlc_bound : forall nlb, (64 <? nlb) = false ->
  (if 0 <? nlb then nlb / 2 - 1 else 0) <= 31.
Proof.
  intros nlb H. apply N.ltb_ge in H. destruct (0 <? nlb); [|lia].
  pose proof (N.div_le_mono nlb 64 2 ltac:(lia) H) as Hd.
  change (64 / 2) with 32 in Hd. lia.
Qed.

Lemma take_splice_inside0 : forall l g k, lenN g <= lenN l -> k <= lenN g ->
  takeN k (spliceN l 0 g) = takeN k g.
Proof.
  intros l g k H Hk.
  transitivity (takeN k (dropN 0 (spliceN l 0 g))); [rewrite dropN_0; reflexivity|].
  rewrite win_splice_inside by lia. change (0 - 0) with 0. rewrite dropN_0. reflexivity.
Qed.

(* a root entry whose name field holds some other (well-formed) name: the
   first 66 bytes (name and name length) are replaced *)
Theorem tolerated_root_name : forall v bs e nb nm0,
  dirent_decode v true bs = Ok e -> d_type e = TRoot ->
  lenN nb = 66 ->
  let nlb := le_val (takeN 2 (dropN 64 nb)) in
  let nlc := if 0 <? nlb then nlb / 2 - 1 else 0 in
  nlb <= 64 -> nlb mod 2 = 0 ->
  from_utf16 (takeN nlc (u16s (takeN 64 nb))) = Some nm0 ->
  nm0 <> ROOT_DIR_NAME ->
  let bs' := spliceN bs 0 nb in
  dirent_decode v false bs' = Ok e /\ dirent_decode v true bs' = Err EInvalidData.
Proof.
  intros v bs e nb nm0 H Hty Hg nlb nlc H64 Hmod Hutf Hneq bs'. subst bs'.
  pose proof (dirent_decode_len _ _ _ _ H) as Hlen.
  assert (Hle : 0 + lenN nb <= lenN bs) by lia.
  apply N.ltb_ge in H64. apply N.eqb_eq in Hmod. apply list_eqb_neq in Hneq.
  assert (Hlt : nlc < lenN (u16s (takeN 64 nb))).
  { rewrite name_chars_len by lia. pose proof (nlc_bound nlb H64). fold nlc in H0. lia. }
  destruct (nthN_some _ _ Hlt) as [term Hterm].
  split; revert H; unfold dirent_decode;
    rewrite (take_splice_inside0 bs nb 64) by lia;
    rewrite (win_splice_inside _ _ _ 64 2 Hle) by lia; change (64 - 0) with 64;
    splice_simpl Hle; fold nlb; fold nlc.
  - repeat step; intros Hk; injection Hk as <-; cbn in Hty; subst; try discriminate.
    rewrite H64, Hmod. cbn [negb]. rewrite Hterm, Hutf; norm. rewrite Hneq; norm.
    match goal with Hr : list_eqb N.eqb _ ROOT_DIR_NAME = true |- _ =>
      apply list_eqb_eq in Hr; rewrite Hr end.
    reflexivity.
  - repeat step; intros Hk; injection Hk as <-; cbn in Hty; subst; try discriminate.
    rewrite H64, Hmod. cbn [negb]. rewrite Hterm; norm.
    destruct (negb (term =? 0)); [reflexivity|].
    rewrite Hutf; norm. rewrite Hneq; norm. reflexivity.
Qed.

(* ---- the name terminator ---- *)

Lemma splice_cons : forall x t n g, spliceN (x :: t) (N.succ n) g = x :: spliceN t n g.
Proof.
  intros. unfold spliceN. cbn [takeN dropN]. rewrite succ_eqb0, N.pred_succ.
  cbn [lenN app]. rewrite N.sub_succ.
  replace (N.succ n + lenN g =? 0) with false by (symmetry; apply N.eqb_neq; lia).
  replace (N.pred (N.succ n + lenN g)) with (n + lenN g) by lia.
  reflexivity.
Qed.

Lemma u16s_splice : forall k l a b, 2 * k + 2 <= lenN l ->
  u16s (spliceN l (2 * k) [a; b]) = updN (u16s l) k (a + 256 * b).
Proof.
  intros k. induction k as [|k IH] using N.peano_ind; intros l a b H.
  - destruct l as [|x [|y t]]; cbn [lenN] in H; try lia.
    unfold spliceN. cbn. rewrite dropN_0. reflexivity.
  - destruct l as [|x [|y t]]; cbn [lenN] in H; try lia.
    replace (2 * N.succ k) with (N.succ (N.succ (2 * k))) by lia.
    rewrite !splice_cons. cbn [u16s updN]. rewrite succ_eqb0, N.pred_succ.
    f_equal. apply IH. lia.
Qed.

Lemma takeN_splice_comm : forall l off g n, off + lenN g <= n -> n <= lenN l ->
  takeN n (spliceN l off g) = spliceN (takeN n l) off g.
Proof.
  intros l off g n H1 H2. apply list_ext. intros i.
  assert (Ht : lenN (takeN n l) = n) by (rewrite lenN_takeN; lia).
  rewrite nthN_takeN, !nthN_splice by lia. rewrite nthN_takeN.
  destruct (off <=? i) eqn:E1; destruct (i <? off + lenN g) eqn:E2; destruct (i <? n) eqn:E3;
    cbn [andb]; rewrite ?N.leb_le, ?N.leb_gt, ?N.ltb_lt, ?N.ltb_ge in *; try lia; reflexivity.
Qed.

Lemma name_chars_splice : forall bs k a b, 64 <= lenN bs -> 2 * k + 2 <= 64 ->
  u16s (takeN 64 (spliceN bs (2 * k) [a; b])) = updN (u16s (takeN 64 bs)) k (a + 256 * b).
Proof.
  intros bs k a b H1 H2.
  rewrite takeN_splice_comm by (cbn [lenN]; lia).
  apply u16s_splice. rewrite lenN_takeN. lia.
Qed.

Lemma nthN_updN_same : forall {A} (l : list A) i v, i < lenN l -> nthN (updN l i v) i = Some v.
Proof.
  induction l as [|x t IH]; intros i v H; cbn [lenN] in H; [lia|].
  cbn [updN]. destruct (i =? 0) eqn:Ei; cbn [nthN]; rewrite Ei; [reflexivity|].
  apply N.eqb_neq in Ei. apply IH. lia.
Qed.

Lemma takeN_updN : forall {A} (l : list A) i v, takeN i (updN l i v) = takeN i l.
Proof.
  induction l as [|x t IH]; intros i v; [reflexivity|].
  cbn [updN]. destruct (i =? 0) eqn:Ei; cbn [takeN]; rewrite Ei; [reflexivity|].
  f_equal. apply IH.
Qed.

(* the UTF-16 unit after the name (the terminator) is not zero *)
Theorem tolerated_unterminated_name : forall v bs e a b,
  dirent_decode v true bs = Ok e ->
  a + 256 * b <> 0 ->
  let nlb := le_val (takeN 2 (dropN 64 bs)) in
  let nlc := if 0 <? nlb then nlb / 2 - 1 else 0 in
  let bs' := spliceN bs (2 * nlc) [a; b] in
  dirent_decode v false bs' = Ok e /\ dirent_decode v true bs' = Err EInvalidData.
Proof.
  intros v bs e a b H Hnz nlb nlc bs'. subst bs'.
  pose proof (dirent_decode_len _ _ _ _ H) as Hlen.
  assert (H64 : (64 <? nlb) = false).
  { revert H. unfold dirent_decode. fold nlb. do 2 step. intros _. reflexivity. }
  pose proof (nlc_bound nlb H64) as Hb. fold nlc in Hb.
  assert (Hchars : u16s (takeN 64 (spliceN bs (2 * nlc) [a; b])) =
                   updN (u16s (takeN 64 bs)) nlc (a + 256 * b))
    by (apply name_chars_splice; lia).
  assert (Hlt : nlc < lenN (u16s (takeN 64 bs))) by (rewrite name_chars_len by lia; lia).
  set (g := [a; b]) in *.
  assert (Hg : @lenN byte g = 2) by reflexivity.
  assert (Hle : 2 * nlc + @lenN byte g <= lenN bs) by lia.
  apply N.eqb_neq in Hnz.
  split; revert H; unfold dirent_decode; cbv zeta; rewrite Hchars; splice_simpl Hle; fold nlb; fold nlc; 
    rewrite takeN_updN, (nthN_updN_same _ _ _ Hlt).
  - repeat step; exact (fun H => H).
  - repeat step; intros _; rewrite Hnz; reflexivity.
Qed.

(* ------------------------------------------------------------------ *)
(* Non-vacuity: strict mode accepts the freshly created files           *)
(* ------------------------------------------------------------------ *)

Example strict_accepts_fresh_images :
  is_ok (open_model true (concat (Cfb.model.Cfb.create_image V3))) = true /\
  is_ok (open_model true (concat (Cfb.model.Cfb.create_image V4))) = true.
Proof. split; vm_compute; reflexivity. Qed.

Print Assumptions strict_implies_permissive.
Print Assumptions tolerated_unterminated_name.
Print Assumptions tolerated_root_name.
