(* StrictProofs.v — strict mode refines permissive mode: whenever the strict
   parser accepts a byte string, the permissive parser accepts it too and builds
   the identical state.  Plus the documented tolerated deviations at the
   decoder level.  No axioms, no admits. *)
From Coq Require Import List NArith Lia Bool.
From Cfb.model Require Import Base Names DirEnt State Alloc Dir Mini Open.
From Cfb.gen Require Import Consts.
Import ListNotations.
Open Scope N_scope.

(* ------------------------------------------------------------------ *)
(* Generic helpers                                                      *)
(* ------------------------------------------------------------------ *)

Lemma rbind_ok : forall {A B} (m : res A) (f : A -> res B) x,
  rbind m f = Ok x -> exists a, m = Ok a /\ f a = Ok x.
Proof. intros A B [a| | |] f x H; try discriminate. exists a; auto. Qed.

Lemma lenN_length : forall {A} (l : list A), lenN l = N.of_nat (length l).
Proof. induction l as [|x t IH]; cbn [lenN length]; [reflexivity|]. rewrite IH. lia. Qed.

Lemma lenN_rev : forall {A} (l : list A), lenN (rev l) = lenN l.
Proof. intros. rewrite !lenN_length, rev_length. reflexivity. Qed.

Lemma lenN_app : forall {A} (a b : list A), lenN (a ++ b) = lenN a + lenN b.
Proof. intros. rewrite !lenN_length, app_length. lia. Qed.

Lemma updN_same : forall {A} (l : list A) i v, nthN l i = Some v -> updN l i v = l.
Proof.
  induction l as [|x t IH]; intros i v H; cbn [nthN updN] in *; [reflexivity|].
  destruct (i =? 0).
  - congruence.
  - f_equal. apply IH. exact H.
Qed.

(* ------------------------------------------------------------------ *)
(* strip_last_while                                                     *)
(* ------------------------------------------------------------------ *)

(* fuel-free form of pop_while on the reversed list *)
Fixpoint popw (p : N -> bool) (m : N) (r : list N) : list N :=
  match r with
  | [] => []
  | x :: t => if (m <? lenN r) && p x then popw p m t else r
  end.

Lemma pop_while_popw : forall fuel p m r,
  (length r <= fuel)%nat -> pop_while fuel p m r (lenN r) = popw p m r.
Proof.
  induction fuel as [|f IH]; intros p m r Hl.
  - destruct r; [reflexivity | cbn in Hl; lia].
  - destruct r as [|x t]; [reflexivity|].
    cbn [pop_while popw].
    destruct ((m <? lenN (x :: t)) && p x); [|reflexivity].
    replace (lenN (x :: t) - 1) with (lenN t) by (cbn [lenN]; lia).
    apply IH. cbn in Hl; lia.
Qed.

Lemma strip_popw : forall p m l, strip_last_while p m l = rev (popw p m (rev l)).
Proof.
  intros. unfold strip_last_while. rewrite <- (lenN_rev l).
  rewrite pop_while_popw; [reflexivity|]. rewrite rev_length. lia.
Qed.

Lemma popw_short : forall p m r, lenN r <= m -> popw p m r = r.
Proof.
  intros p m [|x t] H; [reflexivity|]. cbn [popw].
  replace (m <? lenN (x :: t)) with false by (symmetry; apply N.ltb_ge; exact H).
  reflexivity.
Qed.

Lemma popw_head_fails : forall p m x t, p x = false -> popw p m (x :: t) = x :: t.
Proof. intros. cbn [popw]. rewrite H, andb_false_r. reflexivity. Qed.

(* strip_last_while is the identity on [], when the last element fails p, or
   when the list is already no longer than the minimum length *)
Lemma strip_nil : forall p m, strip_last_while p m [] = [].
Proof. intros. rewrite strip_popw. reflexivity. Qed.

Lemma strip_short : forall p m l, lenN l <= m -> strip_last_while p m l = l.
Proof.
  intros. rewrite strip_popw, popw_short, rev_involutive; [reflexivity|].
  rewrite lenN_rev. exact H.
Qed.

Lemma strip_last_fails : forall p m l x, p x = false ->
  strip_last_while p m (l ++ [x]) = l ++ [x].
Proof.
  intros. rewrite strip_popw, rev_app_distr. cbn [rev app].
  rewrite popw_head_fails by exact H. cbn [rev]. rewrite rev_involutive. reflexivity.
Qed.

Lemma lenN_strip : forall p m l, lenN (strip_last_while p m l) = lenN (popw p m (rev l)).
Proof. intros. rewrite strip_popw, lenN_rev. reflexivity. Qed.

(* a wider predicate pops exactly the same elements when the narrow one already
   gets the list down to the minimum length *)
Lemma popw_wider : forall (p q : N -> bool) m r,
  (forall x, q x = true -> p x = true) ->
  lenN (popw q m r) <= m -> popw p m r = popw q m r.
Proof.
  intros p q m r Hpq. induction r as [|x t IH]; intros Hlen; [reflexivity|].
  cbn [popw] in *.
  destruct (m <? lenN (x :: t)) eqn:Elt; cbn [andb] in *; [|reflexivity].
  destruct (q x) eqn:Eq.
  - rewrite (Hpq _ Eq). apply IH. exact Hlen.
  - apply N.ltb_lt in Elt. lia.
Qed.

Lemma strip_wider_then_narrow : forall (p q : N -> bool) m l,
  (forall x, q x = true -> p x = true) ->
  lenN (strip_last_while q m l) <= m ->
  strip_last_while q m (strip_last_while p m l) = strip_last_while q m l.
Proof.
  intros p q m l Hpq Hlen.
  rewrite lenN_strip in Hlen.
  rewrite (strip_popw p), (strip_popw q m (rev _)), rev_involutive.
  rewrite (popw_wider p q m _ Hpq Hlen).
  rewrite (popw_short q m (popw q m (rev l)) Hlen).
  rewrite <- strip_popw. reflexivity.
Qed.

(* the DIFAT pre-trim: zeros are removed only while the list is longer than
   max(109, num_fat); if afterwards stripping FREE entries leaves exactly
   num_fat entries in the untrimmed list, the pre-trim changed nothing *)
Lemma strip_zero_then_free : forall k nf l,
  nf = lenN (strip_last_while (fun x => x =? FREE_SECTOR) 0 l) ->
  strip_last_while (fun x => x =? 0) (N.max k nf) l = l.
Proof.
  intros k nf l Hnf. rewrite lenN_strip in Hnf.
  rewrite strip_popw. rewrite <- (rev_involutive l) at 2. f_equal.
  destruct (rev l) as [|x t] eqn:Er; [reflexivity|].
  destruct (x =? 0) eqn:Ex.
  - apply N.eqb_eq in Ex. subst x.
    rewrite popw_head_fails in Hnf by reflexivity.
    apply popw_short. lia.
  - apply popw_head_fails. exact Ex.
Qed.

(* ------------------------------------------------------------------ *)
(* Stepping tactic: goal  [strict run = Ok x -> permissive run = Ok x]   *)
(* ------------------------------------------------------------------ *)

Ltac head_scrut t :=
  lazymatch t with
  | rbind ?m _ => head_scrut m
  | (if ?c then _ else _) => head_scrut c
  | match ?c with _ => _ end => head_scrut c
  | _ => t
  end.

Ltac norm := rewrite ?andb_true_r, ?andb_false_r; cbn [rbind andb negb].

Ltac kill := try (intros; discriminate).

(* one step along the strict run (left of the arrow) *)
Ltac step :=
  norm;
  lazymatch goal with
  | |- ?lhs = Ok _ -> _ =>
    let c := head_scrut lhs in
    lazymatch c with
    | Ok _ => fail "done"
    | difat_loop _ _ _ _ _ _ _ _ _ => fail "recursive call"
    | dir_loop _ _ _ _ _ _ _ _ _ _ _ => fail "recursive call"
    | dir_dfs _ _ _ _ _ => fail "recursive call"
    | _ => destruct c eqn:?; norm; kill
    end
  end.

(* ------------------------------------------------------------------ *)
(* Decoders                                                             *)
(* ------------------------------------------------------------------ *)

Lemma header_decode_strict_perm : forall bs h,
  header_decode true bs = Ok h -> header_decode false bs = Ok h.
Proof.
  intros bs h. unfold header_decode.
  repeat step. exact (fun H => H).
Qed.

Lemma dirent_decode_strict_perm : forall v bs e,
  dirent_decode v true bs = Ok e -> dirent_decode v false bs = Ok e.
Proof.
  intros v bs e. unfold dirent_decode.
  repeat step; exact (fun H => H).
Qed.

Lemma read_dirents_strict_perm : forall v n bs es,
  read_dirents v true n bs = Ok es -> read_dirents v false n bs = Ok es.
Proof.
  intros v n. induction n as [|n IH]; intros bs es; cbn [read_dirents].
  - exact (fun H => H).
  - destruct (dirent_decode v true (takeN DIR_ENTRY_LEN bs)) as [e| | |] eqn:He; norm; kill.
    rewrite (dirent_decode_strict_perm _ _ _ He); norm.
    destruct (read_dirents v true n (dropN DIR_ENTRY_LEN bs)) as [r| | |] eqn:Hr; norm; kill.
    rewrite (IH _ _ Hr); norm. exact (fun H => H).
Qed.

(* ------------------------------------------------------------------ *)
(* DIFAT walk                                                           *)
(* ------------------------------------------------------------------ *)

Lemma difat_loop_strict_perm : forall fuel im sl ns cur seen ids difat r,
  difat_loop fuel true im sl ns cur seen ids difat = Ok r ->
  difat_loop fuel false im sl ns cur seen ids difat = Ok r.
Proof.
  induction fuel as [|f IH]; intros im sl ns cur seen ids difat r; cbn [difat_loop].
  - intros; discriminate.
  - repeat step; try exact (fun H => H).
    apply IH.
Qed.

(* ------------------------------------------------------------------ *)
(* Allocator::validate                                                  *)
(* ------------------------------------------------------------------ *)

(* strict success means every listed cell already held the marker, so nothing
   was changed *)
Lemma mark_sectors_strict_id : forall marker ids fat fat',
  mark_sectors true marker ids fat = Ok fat' -> fat' = fat.
Proof.
  intros marker ids. induction ids as [|i t IH]; intros fat fat'; cbn [mark_sectors].
  - intros H; injection H; auto.
  - destruct (nthN fat i) as [v|] eqn:Hn; kill. norm.
    destruct (negb (v =? marker)) eqn:Hv; kill.
    apply negb_false_iff, N.eqb_eq in Hv. subst v.
    rewrite (updN_same _ _ _ Hn). apply IH.
Qed.

Lemma mark_sectors_strict_perm : forall marker ids fat fat',
  mark_sectors true marker ids fat = Ok fat' ->
  mark_sectors false marker ids fat = Ok fat'.
Proof.
  intros marker ids. induction ids as [|i t IH]; intros fat fat'; cbn [mark_sectors].
  - exact (fun H => H).
  - destruct (nthN fat i) as [v|] eqn:Hn; kill. norm.
    destruct (negb (v =? marker)) eqn:Hv; kill.
    apply negb_false_iff, N.eqb_eq in Hv. subst v.
    rewrite (updN_same _ _ _ Hn). apply IH.
Qed.

Lemma alloc_validate_strict_perm : forall ns ids difat fat r,
  alloc_validate true ns ids difat fat = Ok r ->
  alloc_validate false ns ids difat fat = Ok r.
Proof.
  intros ns ids difat fat r. unfold alloc_validate.
  destruct (ns <? lenN fat); kill.
  destruct (mark_sectors true DIFAT_SECTOR ids fat) as [fat1| | |] eqn:H1; norm; kill.
  rewrite (mark_sectors_strict_perm _ _ _ _ H1); norm.
  destruct (mark_sectors true FAT_SECTOR difat fat1) as [fat2| | |] eqn:H2; norm; kill.
  rewrite (mark_sectors_strict_perm _ _ _ _ H2); norm.
  exact (fun H => H).
Qed.

Lemma alloc_validate_len : forall strict ns ids difat fat r,
  alloc_validate strict ns ids difat fat = Ok r -> lenN fat <= ns.
Proof.
  intros strict ns ids difat fat r. unfold alloc_validate.
  destruct (ns <? lenN fat) eqn:E; kill. intros _. apply N.ltb_ge. exact E.
Qed.

(* ------------------------------------------------------------------ *)
(* Directory chain and Directory::validate                              *)
(* ------------------------------------------------------------------ *)

Lemma dir_loop_strict_perm : forall fuel v num_dir im ns fat cur count seen acc ds,
  dir_loop fuel true v num_dir im ns fat cur count seen acc = Ok ds ->
  dir_loop fuel false v num_dir im ns fat cur count seen acc = Ok ds.
Proof.
  induction fuel as [|f IH]; intros v num_dir im ns fat cur count seen acc ds; cbn [dir_loop].
  - intros; discriminate.
  - do 5 (step; try exact (fun H => H)).
    destruct (read_dirents v true (N.to_nat (dir_per_sector v)) (img_read im (cur + 1) 0 (sector_len v)))
      as [es| | |] eqn:He; norm; kill.
    rewrite (read_dirents_strict_perm _ _ _ _ He); norm.
    step. apply IH.
Qed.

Lemma dir_dfs_strict_perm : forall fuel ds stack visited u,
  dir_dfs fuel true ds stack visited = Ok u ->
  dir_dfs fuel false ds stack visited = Ok u.
Proof.
  induction fuel as [|f IH]; intros ds stack visited u; cbn [dir_dfs].
  - intros; discriminate.
  - destruct stack as [|[id parent_red] rest]; [exact (fun H => H)|].
    repeat step; apply IH.
Qed.

Lemma dir_validate_strict_perm : forall ds u,
  dir_validate true ds = Ok u -> dir_validate false ds = Ok u.
Proof.
  intros ds u. unfold dir_validate. destruct ds as [|root t]; kill.
  step. apply dir_dfs_strict_perm.
Qed.

(* ------------------------------------------------------------------ *)
(* MiniAllocator::validate                                              *)
(* ------------------------------------------------------------------ *)

(* strict success means the truncation is not needed *)
Lemma mini_validate_strict_perm : forall root_len mf r,
  mini_validate true root_len mf = Ok r -> mini_validate false root_len mf = Ok r.
Proof.
  intros root_len mf r. unfold mini_validate.
  destruct (root_len / MINI_SECTOR_LEN <? lenN mf); norm; kill.
  exact (fun H => H).
Qed.

(* ------------------------------------------------------------------ *)
(* Main theorem                                                         *)
(* ------------------------------------------------------------------ *)

Lemma wide_of_free : forall x,
  (x =? FREE_SECTOR) = true ->
  ((x =? 0) || (x =? DIFAT_SECTOR) || (x =? FAT_SECTOR) || (x =? FREE_SECTOR)) = true.
Proof. intros x H. rewrite H. apply orb_true_r. Qed.

Theorem strict_implies_permissive : forall bytes s,
  open_model true bytes = Ok s -> open_model false bytes = Ok s.
Proof.
  intros bytes s. unfold open_model.
  step.
  destruct (header_decode true (takeN HEADER_LEN bytes)) as [h| | |] eqn:Hh; norm; kill.
  rewrite (header_decode_strict_perm _ _ Hh); norm.
  set (sl := sector_len (h_ver h)).
  set (ns := (lenN bytes + sl - 1) / sl - 1).
  set (im := chunks sl bytes).
  clearbody im ns sl.
  step. step.
  match goal with |- rbind ?m _ = _ -> _ => destruct m as [[ids difat0]| | |] eqn:Hd end; norm; kill.
  rewrite (difat_loop_strict_perm _ _ _ _ _ _ _ _ _ Hd); norm.
  step.
  (* DIFAT: the permissive zero pre-trim is the identity *)
  destruct (negb (h_num_fat h =? lenN (strip_last_while (fun x => x =? FREE_SECTOR) 0 difat0))) eqn:Hnf;
    norm; kill.
  apply negb_false_iff, N.eqb_eq in Hnf.
  rewrite (strip_zero_then_free NUM_DIFAT_HDR _ _ Hnf).
  set (difat2 := strip_last_while (fun x => x =? FREE_SECTOR) 0 difat0). clearbody difat2.
  match goal with |- rbind ?m _ = _ -> _ => destruct m as [fat0| | |] eqn:Hf end; norm; kill.
  (* FAT: the wider permissive trim removes exactly the same cells *)
  match goal with |- rbind ?m _ = _ -> _ => destruct m as [[fat4 free]| | |] eqn:Ha end; norm; kill.
  pose proof (alloc_validate_len _ _ _ _ _ _ Ha) as Hlen.
  rewrite lenN_app in Hlen.
  rewrite (strip_wider_then_narrow _ (fun x => x =? FREE_SECTOR) ns fat0 wide_of_free) by lia.
  rewrite (alloc_validate_strict_perm _ _ _ _ _ Ha); norm.
  match goal with |- rbind ?m _ = _ -> _ => destruct m as [ds| | |] eqn:Hdl end; norm; kill.
  rewrite (dir_loop_strict_perm _ _ _ _ _ _ _ _ _ _ _ Hdl); norm.
  match goal with |- rbind ?m _ = _ -> _ => destruct m as [u| | |] eqn:Hdv end; norm; kill.
  rewrite (dir_validate_strict_perm _ _ Hdv); norm.
  match goal with |- rbind ?m _ = _ -> _ => destruct m as [[c s1]| | |] eqn:Hc end; norm; kill.
  step.
  match goal with |- rbind ?m _ = _ -> _ => destruct m as [[[c2 mbytes] s2]| | |] eqn:Hr end; norm; kill.
  destruct ds as [|root dt]; kill.
  match goal with |- rbind ?m _ = _ -> _ => destruct m as [[mf mfree]| | |] eqn:Hm end; norm; kill.
  rewrite (mini_validate_strict_perm _ _ _ Hm); norm.
  exact (fun H => H).
Qed.

(* ------------------------------------------------------------------ *)
(* Tolerated deviations at the decoder level: list infrastructure       *)
(* ------------------------------------------------------------------ *)

Lemma succ_eqb0 : forall n, (N.succ n =? 0) = false.
Proof. intros. apply N.eqb_neq. lia. Qed.

Lemma nthN_cons_succ : forall {A} (x : A) t i, nthN (x :: t) (N.succ i) = nthN t i.
Proof. intros. cbn [nthN]. rewrite succ_eqb0, N.pred_succ. reflexivity. Qed.

Lemma nthN_cons_pos : forall {A} (x : A) t i, 0 < i -> nthN (x :: t) i = nthN t (i - 1).
Proof.
  intros. replace i with (N.succ (i - 1)) at 1 by lia. apply nthN_cons_succ.
Qed.

Lemma list_ext : forall {A} (l l' : list A), (forall i, nthN l i = nthN l' i) -> l = l'.
Proof.
  induction l as [|x t IH]; intros [|y t'] H.
  - reflexivity.
  - specialize (H 0). discriminate.
  - specialize (H 0). discriminate.
  - pose proof (H 0) as H0. cbn in H0. injection H0 as ->. f_equal.
    apply IH. intros i. specialize (H (N.succ i)). rewrite !nthN_cons_succ in H. exact H.
Qed.

Lemma nthN_nil : forall {A} i, @nthN A [] i = None.
Proof. reflexivity. Qed.

Lemma nthN_takeN : forall {A} (l : list A) k i,
  nthN (takeN k l) i = if i <? k then nthN l i else None.
Proof.
  induction l as [|x t IH]; intros k i; cbn [takeN].
  - cbn. destruct (i <? k); reflexivity.
  - destruct (k =? 0) eqn:Ek.
    + apply N.eqb_eq in Ek. subst k. replace (i <? 0) with false by (symmetry; apply N.ltb_ge; lia).
      reflexivity.
    + apply N.eqb_neq in Ek. cbn [nthN]. destruct (i =? 0) eqn:Ei.
      * apply N.eqb_eq in Ei. subst i.
        replace (0 <? k) with true by (symmetry; apply N.ltb_lt; lia). reflexivity.
      * apply N.eqb_neq in Ei. rewrite IH.
        destruct (N.pred i <? N.pred k) eqn:E1; destruct (i <? k) eqn:E2; try reflexivity;
          rewrite ?N.ltb_lt, ?N.ltb_ge in *; lia.
Qed.

Lemma nthN_dropN : forall {A} (l : list A) a i, nthN (dropN a l) i = nthN l (a + i).
Proof.
  induction l as [|x t IH]; intros a i; cbn [dropN].
  - reflexivity.
  - destruct (a =? 0) eqn:Ea.
    + apply N.eqb_eq in Ea. subst a. reflexivity.
    + apply N.eqb_neq in Ea. rewrite IH.
      rewrite (nthN_cons_pos x t (a + i)) by lia. f_equal. lia.
Qed.

Lemma nthN_app : forall {A} (a b : list A) i,
  nthN (a ++ b) i = if i <? lenN a then nthN a i else nthN b (i - lenN a).
Proof.
  induction a as [|x t IH]; intros b i; cbn [app lenN].
  - replace (i <? 0) with false by (symmetry; apply N.ltb_ge; lia). f_equal. lia.
  - cbn [nthN]. destruct (i =? 0) eqn:Ei.
    + apply N.eqb_eq in Ei. subst i.
      replace (0 <? N.succ (lenN t)) with true by (symmetry; apply N.ltb_lt; lia). reflexivity.
    + apply N.eqb_neq in Ei. rewrite IH.
      destruct (N.pred i <? lenN t) eqn:E1; destruct (i <? N.succ (lenN t)) eqn:E2;
        rewrite ?N.ltb_lt, ?N.ltb_ge in *; try lia; try reflexivity.
      f_equal. lia.
Qed.

Lemma lenN_takeN : forall {A} (l : list A) k, lenN (takeN k l) = N.min k (lenN l).
Proof.
  induction l as [|x t IH]; intros k; cbn [takeN lenN].
  - lia.
  - destruct (k =? 0) eqn:Ek.
    + apply N.eqb_eq in Ek. subst. cbn [lenN]. lia.
    + apply N.eqb_neq in Ek. cbn [lenN]. rewrite IH. lia.
Qed.

Lemma nthN_none : forall {A} (l : list A) i, lenN l <= i -> nthN l i = None.
Proof.
  induction l as [|x t IH]; intros i H; [reflexivity|].
  cbn [lenN] in H. rewrite nthN_cons_pos by lia. apply IH. lia.
Qed.

Lemma nthN_some : forall {A} (l : list A) i, i < lenN l -> exists x, nthN l i = Some x.
Proof.
  induction l as [|x t IH]; intros i H; cbn [lenN] in H; [lia|].
  destruct (N.eq_dec i 0) as [->|Hi].
  - exists x. reflexivity.
  - rewrite nthN_cons_pos by lia. apply IH. lia.
Qed.

Lemma takeN_all : forall {A} (l : list A) k, lenN l <= k -> takeN k l = l.
Proof.
  intros. apply list_ext. intros i. rewrite nthN_takeN.
  destruct (i <? k) eqn:E; [reflexivity|]. apply N.ltb_ge in E.
  symmetry. apply nthN_none. lia.
Qed.

Lemma dropN_0 : forall {A} (l : list A), dropN 0 l = l.
Proof. intros A [|x t]; reflexivity. Qed.

(* spliceN inside the list: no gap, no extension *)
Lemma nthN_splice : forall l off g i, off + lenN g <= lenN l ->
  nthN (spliceN l off g) i =
  if (off <=? i) && (i <? off + lenN g) then nthN g (i - off) else nthN l i.
Proof.
  intros l off g i H. unfold spliceN.
  assert (Hp : lenN (takeN off l) = off) by (rewrite lenN_takeN; lia).
  rewrite Hp, N.sub_diag. change (repeatN 0 0) with (@nil byte). cbn [app].
  rewrite nthN_app, Hp, nthN_takeN, nthN_app, nthN_dropN.
  destruct (off <=? i) eqn:E1; destruct (i <? off) eqn:E2; cbn [andb];
    rewrite ?N.leb_le, ?N.leb_gt, ?N.ltb_lt, ?N.ltb_ge in *; try lia; try reflexivity.
  destruct (i - off <? lenN g) eqn:E3; destruct (i <? off + lenN g) eqn:E4;
    rewrite ?N.ltb_lt, ?N.ltb_ge in *; try lia; try reflexivity.
  f_equal. lia.
Qed.

Lemma lenN_dropN : forall {A} (l : list A) k, lenN (dropN k l) = lenN l - k.
Proof.
  induction l as [|x t IH]; intros k; cbn [dropN lenN].
  - lia.
  - destruct (k =? 0) eqn:Ek.
    + apply N.eqb_eq in Ek. subst. cbn [lenN]. lia.
    + apply N.eqb_neq in Ek. rewrite IH. lia.
Qed.

Lemma lenN_splice : forall l off g, off + lenN g <= lenN l -> lenN (spliceN l off g) = lenN l.
Proof.
  intros l off g H. unfold spliceN.
  assert (Hp : lenN (takeN off l) = off) by (rewrite lenN_takeN; lia).
  rewrite Hp, N.sub_diag. change (repeatN 0 0) with (@nil byte). cbn [app].
  rewrite !lenN_app, Hp, lenN_dropN. lia.
Qed.

(* a window [a, a+k) of the list *)
Lemma win_ext : forall {A} (l l' : list A) a b k,
  (forall i, i < k -> nthN l (a + i) = nthN l' (b + i)) ->
  takeN k (dropN a l) = takeN k (dropN b l').
Proof.
  intros A l l' a b k H. apply list_ext. intros i.
  rewrite !nthN_takeN, !nthN_dropN. destruct (i <? k) eqn:E; [|reflexivity].
  apply H. apply N.ltb_lt. exact E.
Qed.

Lemma win_splice_outside : forall l off g a k, off + lenN g <= lenN l ->
  a + k <= off \/ off + lenN g <= a ->
  takeN k (dropN a (spliceN l off g)) = takeN k (dropN a l).
Proof.
  intros l off g a k H Hd. apply win_ext. intros i Hi. rewrite nthN_splice by exact H.
  destruct (off <=? a + i) eqn:E1; destruct (a + i <? off + lenN g) eqn:E2; cbn [andb];
    rewrite ?N.leb_le, ?N.leb_gt, ?N.ltb_lt, ?N.ltb_ge in *; try lia; reflexivity.
Qed.

Lemma win_splice_inside : forall l off g a k, off + lenN g <= lenN l ->
  off <= a -> a + k <= off + lenN g ->
  takeN k (dropN a (spliceN l off g)) = takeN k (dropN (a - off) g).
Proof.
  intros l off g a k H H1 H2. apply win_ext. intros i Hi. rewrite nthN_splice by exact H.
  destruct (off <=? a + i) eqn:E1; destruct (a + i <? off + lenN g) eqn:E2; cbn [andb];
    rewrite ?N.leb_le, ?N.leb_gt, ?N.ltb_lt, ?N.ltb_ge in *; try lia.
  f_equal. lia.
Qed.

Lemma win_splice_at : forall l off g k, off + lenN g <= lenN l -> lenN g = k ->
  takeN k (dropN off (spliceN l off g)) = g.
Proof.
  intros l off g k H Hk. rewrite win_splice_inside by lia.
  rewrite N.sub_diag, dropN_0. apply takeN_all. lia.
Qed.

Lemma take_splice_outside : forall l off g k, off + lenN g <= lenN l -> k <= off ->
  takeN k (spliceN l off g) = takeN k l.
Proof.
  intros l off g k H Hk.
  transitivity (takeN k (dropN 0 (spliceN l off g))); [rewrite dropN_0; reflexivity|].
  transitivity (takeN k (dropN 0 l)); [|rewrite dropN_0; reflexivity].
  apply win_splice_outside; [exact H | lia].
Qed.

Lemma nthN_splice_outside : forall l off g i, off + lenN g <= lenN l ->
  i < off \/ off + lenN g <= i -> nthN (spliceN l off g) i = nthN l i.
Proof.
  intros l off g i H Hd. rewrite nthN_splice by exact H.
  destruct (off <=? i) eqn:E1; destruct (i <? off + lenN g) eqn:E2; cbn [andb];
    rewrite ?N.leb_le, ?N.leb_gt, ?N.ltb_lt, ?N.ltb_ge in *; try lia; reflexivity.
Qed.

Lemma dirent_decode_len : forall v st bs e, dirent_decode v st bs = Ok e -> 128 <= lenN bs.
Proof.
  intros v st bs e. unfold dirent_decode.
  destruct (lenN bs <? DIR_ENTRY_LEN) eqn:E; kill. intros _.
  apply N.ltb_ge in E. exact E.
Qed.

Lemma header_decode_len : forall st bs h, header_decode st bs = Ok h -> 512 <= lenN bs.
Proof.
  intros st bs h. unfold header_decode.
  destruct (lenN bs <? HEADER_LEN) eqn:E; kill. intros _.
  apply N.ltb_ge in E. exact E.
Qed.

(* rewrite every read of the spliced list that lies outside the splice *)
Ltac splice_simpl Hle :=
  rewrite ?(lenN_splice _ _ _ Hle);
  rewrite ?(take_splice_outside _ _ _ _ Hle) by lia;
  rewrite ?(nthN_splice_outside _ _ _ _ Hle) by lia;
  rewrite ?(win_splice_outside _ _ _ _ _ Hle) by lia.

(* ------------------------------------------------------------------ *)
(* Tolerated deviations: header                                         *)
(* ------------------------------------------------------------------ *)

(* a version-3 header whose "number of directory sectors" field is not zero *)
Theorem tolerated_v3_num_dir : forall bs h g,
  header_decode true bs = Ok h -> h_ver h = V3 ->
  lenN g = 4 -> le_val g <> 0 ->
  let bs' := spliceN bs HDR_OFF_NUM_DIR g in
  header_decode false bs' = Ok h /\ header_decode true bs' = Err EInvalidData.
Proof.
  intros bs h g H Hv Hg Hnz bs'. subst bs'. unfold HDR_OFF_NUM_DIR.
  pose proof (header_decode_len _ _ _ H) as Hlen.
  assert (Hle : 40 + lenN g <= lenN bs) by lia.
  apply N.eqb_neq in Hnz.
  split; revert H; unfold header_decode;
    rewrite (win_splice_at _ _ _ 4 Hle Hg); splice_simpl Hle.
  - repeat step. intros Hk. injection Hk as <-. cbn in Hv. subst v. reflexivity.
  - repeat step. intros Hk. injection Hk as <-. cbn in Hv. subst v.
    rewrite Hnz. reflexivity.
Qed.

(* FREE_SECTOR as the first DIFAT sector is read as END_OF_CHAIN, in both modes *)
Theorem tolerated_first_difat_free : forall st bs h,
  header_decode st bs = Ok h -> h_first_difat h = END_OF_CHAIN ->
  header_decode st (spliceN bs HDR_OFF_FIRST_DIFAT (le_bytes 4 FREE_SECTOR)) = Ok h.
Proof.
  intros st bs h H Hfd. unfold HDR_OFF_FIRST_DIFAT.
  pose proof (header_decode_len _ _ _ H) as Hlen.
  set (g := le_bytes 4 FREE_SECTOR).
  assert (Hg : lenN g = 4) by reflexivity.
  assert (Hgv : le_val g = FREE_SECTOR) by reflexivity.
  clearbody g.
  assert (Hle : 68 + lenN g <= lenN bs) by lia.
  revert H; unfold header_decode.
  rewrite (win_splice_at _ _ _ 4 Hle Hg); splice_simpl Hle.
  repeat step. intros Hk. injection Hk as <-. cbn in Hfd.
  rewrite Hgv, N.eqb_refl, Hfd. reflexivity.
Qed.

(* ------------------------------------------------------------------ *)
(* Tolerated deviations: directory entries                              *)
(* ------------------------------------------------------------------ *)

(* a stream entry with a non-zero CLSID (bytes 80..95) *)
Theorem tolerated_stream_clsid : forall v bs e g,
  dirent_decode v true bs = Ok e -> d_type e = TStream ->
  lenN g = 16 -> clsid_decode g <> 0 ->
  let bs' := spliceN bs 80 g in
  dirent_decode v false bs' = Ok e /\ dirent_decode v true bs' = Err EInvalidData.
Proof.
  intros v bs e g H Hty Hg Hnz bs'. subst bs'.
  pose proof (dirent_decode_len _ _ _ _ H) as Hlen.
  assert (Hle : 80 + lenN g <= lenN bs) by lia.
  apply N.eqb_neq in Hnz.
  split; revert H; unfold dirent_decode;
    rewrite (win_splice_at _ _ _ 16 Hle Hg); splice_simpl Hle.
  - repeat step; intros Hk; injection Hk as <-; cbn in Hty; subst; try discriminate; reflexivity.
  - repeat step; intros Hk; injection Hk as <-; cbn in Hty; subst; try discriminate.
    Show.
Abort.

Print Assumptions strict_implies_permissive.
