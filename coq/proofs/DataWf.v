(* DataWf.v -- property C03 for files WITH stream data: the independent checker
   of spec/WfImage.v accepts the image of every state that satisfies the
   data-aware invariant [DInv] (all 44 rules, including the ownership rules
   42-44 for stream chains, the mini stream and the MiniFAT).

   Parts
     1   [DBase], [DInv]; the static theorem [dinv_image_wf] (all 50 rules); the
         theorem of WfPersist.v (empty streams) as a corollary ([empty_dinv],
         [pinv_image_wf_again]); [Tidy] does not look at start / length
         ([tidy_relen], [tidy_updN_start_len])
     2   sound boolean checkers [dinv_b], [dbase_b], [relen_b]; states built by
         running the model (Examples: small / large / both / churn, V3 and V4)
     3   preservation of [DInv] by the store operations:
         3.0  [big_change_dinv]: table-level step for a stream that is large or
              empty before and after (its FAT chain [oldids] becomes [newids])
         3.0' [small_same_dinv]: a small stream within its mini chain
         3a   [covered_write_dinv], [covered_resize_dinv]: write_data / resize
              that allocate nothing (CoveredWrite / CoveredResize)
         3b   [resize_big_grow_reuse_dinv], [resize_big_grow_append_dinv]
         3c   [resize_big_shrink_dinv] (freed cells are FREE and lose their owner)
     4   histories: [WInv], [wf_data_history] (covered handle operations and
         queries), non-vacuity (HistoryExample, AllocExamples)
     5   metadata calls on files with data: [wf_data_history_meta] (the history
         class of DataPersist.persist_data_history)
     6   evidence by evaluation for what has no preservation theorem yet (small
         growth with mini-sector allocation, migrations, removal with data)
   Stdlib only; no axioms; every proof is complete. *)
From Coq Require Import List NArith Lia Bool ZifyN ZifyBool Permutation.
From Cfb.model Require Import Base Names Time DirEnt State Alloc Dir Mini Store Handle Open Cfb.
From Cfb.gen Require Import Consts.
From Cfb.spec Require Import WfImage.
From Cfb.proofs Require Import DirProofs ChainProofs.
From Cfb.proofs Require CodecProofs WalkProofs OpenTotal StrictProofs ReuseProofs
                        CoherenceProofs DirCoherence ReopenProofs ReadonlyTotal
                        QueryRefine MutRefine TreeProofs TimeProofs NamesProofs PersistProofs
                        StoreProofs StoreMiniProofs MiniChainProofs HandleFrame
                        WfPersist DataPersist StoreAlloc WalkSafe.
Import ListNotations.
Open Scope N_scope.

Ltac Zify.zify_post_hook ::= Z.div_mod_to_equations.

Import ReopenProofs PersistProofs WfPersist.

(* ================================================================== *)
(* 1. the invariant                                                    *)
(* ================================================================== *)

(* what the directory stages of the checker need ([PInv] without "no free
   sector" and without the disjointness clause, which [DInv] subsumes) *)
Record DBase (s : cstate) : Prop := mkDBase {
  db_coh : Coherent s;
  db_ents : Forall (ent_ok (ver s)) (dirs s);
  db_root : RootOK s
}.

Lemma PInv_DBase : forall s, PInv s -> DBase s.
Proof.
  intros s HP. constructor; [exact (PInv_Coherent s HP)|exact (p_ents s HP)|exact (p_root s HP)].
Qed.

(* the owners of a FAT cell *)
Inductive fowner := OFat | ODir | OMfat | ORoot | OBig (i : N).

Definition fowns (s : cstate) (o : fowner) (x : N) : Prop :=
  match o with
  | OFat => In x (difat s)
  | ODir => exists ids, chain_ids_of (fat s) (dir_start s) = Ok ids /\ In x ids
  | OMfat => exists ids, chain_ids_of (fat s) (minifat_start s) = Ok ids /\ In x ids
  | ORoot => exists r ids, nthN (dirs s) ROOT_STREAM_ID = Some r /\
               chain_ids_of (fat s) (d_start r) = Ok ids /\ In x ids
  | OBig i => exists e ids, nthN (dirs s) i = Some e /\ d_type e = TStream /\
               MINI_STREAM_CUTOFF <= d_len e /\
               chain_ids_of (fat s) (d_start e) = Ok ids /\ In x ids
  end.

(* stream [i] is small and its mini chain contains mini sector [x] *)
Definition mowns (s : cstate) (i x : N) : Prop :=
  exists e ids, nthN (dirs s) i = Some e /\ d_type e = TStream /\
    0 < d_len e /\ d_len e < MINI_STREAM_CUTOFF /\
    chain_ids_of (minifat s) (d_start e) = Ok ids /\ In x ids.

Record DInv (s : cstate) : Prop := mkDInv {
  (* the mini stream: root length a multiple of 64, inside the container chain,
     inside the MiniFAT sectors *)
  di_root : exists r rids mids,
      nthN (dirs s) ROOT_STREAM_ID = Some r /\
      chain_ids_of (fat s) (d_start r) = Ok rids /\
      chain_ids_of (fat s) (minifat_start s) = Ok mids /\
      d_len r mod MINI_SECTOR_LEN = 0 /\
      d_len r <= lenN rids * slen s /\
      d_len r / MINI_SECTOR_LEN <= lenN mids * (slen s / 4) /\
      d_len r / MINI_SECTOR_LEN <= MAX_REGULAR_SECTOR + 1;
  (* every stream entry: exact chain length on its side of the cutoff *)
  di_empty : forall i e, nthN (dirs s) i = Some e -> d_type e = TStream ->
      d_len e = 0 -> d_start e = END_OF_CHAIN;
  di_big : forall i e, nthN (dirs s) i = Some e -> d_type e = TStream ->
      MINI_STREAM_CUTOFF <= d_len e ->
      exists ids, chain_ids_of (fat s) (d_start e) = Ok ids /\
                  lenN ids = ceil_div (d_len e) (slen s);
  di_small : forall i e, nthN (dirs s) i = Some e -> d_type e = TStream ->
      0 < d_len e -> d_len e < MINI_STREAM_CUTOFF ->
      exists ids, chain_ids_of (minifat s) (d_start e) = Ok ids /\
                  lenN ids = ceil_div (d_len e) MINI_SECTOR_LEN;
  (* every non-free sector has exactly one owner *)
  di_fat_uniq : forall o o' x, fowns s o x -> fowns s o' x -> o = o';
  di_fat_cover : forall x v, nthN (fat s) x = Some v -> v <> FREE_SECTOR -> exists o, fowns s o x;
  (* every non-free mini sector has exactly one owner *)
  di_mini_uniq : forall i j x, mowns s i x -> mowns s j x -> i = j;
  di_mini_cover : forall x v, nthN (minifat s) x = Some v -> v <> FREE_SECTOR ->
      exists i, mowns s i x
}.

(* ---- small facts about chains ---- *)

Lemma chain_ids_nodup : forall tbl st ids, chain_ids_of tbl st = Ok ids -> NoDup ids.
Proof.
  intros tbl st ids H. eapply ReuseProofs.path_nodup. apply WalkProofs.chain_ids_path. exact H.
Qed.

Lemma chain_ids_lt : forall tbl st ids x, chain_ids_of tbl st = Ok ids -> In x ids -> x < lenN tbl.
Proof.
  intros tbl st ids x H Hx. pose proof (WalkProofs.path_lt _ _ _ (WalkProofs.chain_ids_path _ _ _ H)) as HF.
  rewrite Forall_forall in HF. exact (HF x Hx).
Qed.

Lemma chain_ids_eoc : forall tbl, chain_ids_of tbl END_OF_CHAIN = Ok [].
Proof. intro tbl. apply WalkProofs.chain_ids_of_path; constructor. Qed.

Lemma chain_of_tbl : forall tbl st ids,
  chain_ids_of tbl st = Ok ids -> lenN tbl <= MAX_REGULAR_SECTOR + 1 -> chain_of tbl st = Some ids.
Proof.
  intros tbl st ids H Hb. apply chain_of_ids; [exact H|exact (chain_ids_nodup _ _ _ H)|].
  apply Forall_forall. intros x Hx. pose proof (chain_ids_lt _ _ _ _ H Hx). lia.
Qed.

Lemma fat_len_reg : forall s, Coherent s -> lenN (fat s) <= MAX_REGULAR_SECTOR + 1.
Proof.
  intros s C. destruct (ch_fat s C) as [_ Hlen _ _]. pose proof (ch_nsect s C). lia.
Qed.

Lemma chain_of_fat : forall s st ids, Coherent s ->
  chain_ids_of (fat s) st = Ok ids -> chain_of (fat s) st = Some ids.
Proof. intros s st ids C H. apply chain_of_tbl; [exact H|exact (fat_len_reg s C)]. Qed.

(* a chain of the cached MiniFAT is a chain of the table padded with FREE *)
Lemma chain_ids_pad : forall tbl k st ids,
  chain_ids_of tbl st = Ok ids -> chain_ids_of (tbl ++ repeatN FREE_SECTOR k) st = Ok ids.
Proof.
  intros tbl k st ids H. pose proof (WalkProofs.chain_ids_path _ _ _ H) as Hp.
  apply WalkProofs.chain_ids_of_path; [|exact (chain_ids_nodup _ _ _ H)].
  apply (StoreProofs.path_ext_le tbl); [exact Hp|rewrite CodecProofs.lenN_app; lia|].
  intros x Hx. apply ReuseProofs.nthN_app_l. exact (chain_ids_lt _ _ _ _ H Hx).
Qed.

(* members of a chain are not FREE *)
Lemma chain_member_nonfree : forall tbl st ids x v,
  chain_ids_of tbl st = Ok ids -> In x ids -> nthN tbl x = Some v -> v <> FREE_SECTOR.
Proof.
  intros tbl st ids x v H Hx Hv. destruct (chain_cell _ _ _ _ H Hx) as (v' & Hv' & Hr).
  assert (v' = v) by congruence. subst v'. markers. lia.
Qed.

Lemma fowns_cell : forall s o x, Coherent s -> fowns s o x ->
  exists v, nthN (fat s) x = Some v /\ v <> FREE_SECTOR /\
            (In x (difat s) \/ v = END_OF_CHAIN \/ v <= MAX_REGULAR_SECTOR).
Proof.
  intros s o x C H. markers.
  assert (Hch : forall st ids, chain_ids_of (fat s) st = Ok ids -> In x ids ->
            exists v, nthN (fat s) x = Some v /\ v <> FREE_SECTOR /\
              (In x (difat s) \/ v = END_OF_CHAIN \/ v <= MAX_REGULAR_SECTOR)).
  { intros st ids Hc Hx. destruct (chain_cell _ _ _ _ Hc Hx) as (v & Hv & Hr).
    exists v. split; [exact Hv|]. split; [lia|right; exact Hr]. }
  destruct o; cbn [fowns] in H.
  - exists FAT_SECTOR. split; [exact (ch_marks s C x H)|]. split; [lia|left; exact H].
  - destruct H as (ids & Hc & Hx). eauto.
  - destruct H as (ids & Hc & Hx). eauto.
  - destruct H as (r & ids & _ & Hc & Hx). eauto.
  - destruct H as (e & ids & _ & _ & _ & Hc & Hx). eauto.
Qed.

Lemma mowns_cell : forall s i x, mowns s i x ->
  exists v, nthN (minifat s) x = Some v /\ v <> FREE_SECTOR.
Proof.
  intros s i x (e & ids & _ & _ & _ & _ & Hc & Hx).
  destruct (chain_cell _ _ _ _ Hc Hx) as (v & Hv & Hr). exists v. split; [exact Hv|]. markers. lia.
Qed.

(* ================================================================== *)
(* 1a. the old side conditions imply the new invariant                 *)
(* ================================================================== *)

Theorem empty_dinv : forall s,
  PInv s -> EmptyStreams s -> Owned s -> RootEmpty s -> DInv s.
Proof.
  intros s HP HES HO HRE. pose proof (PInv_Coherent s HP) as C.
  destruct (p_root s HP) as (r & Hr & _ & _ & _ & Hfit).
  destruct (HRE r Hr) as [Hrs Hrl].
  destruct (ch_mini s C) as (mids & Hmids & _). unfold DirCoherence.minifat_ids in Hmids.
  destruct (ch_dir s C) as (dids & Hdids & _). unfold DirCoherence.dir_ids in Hdids.
  assert (Hmf : minifat s = []).
  { rewrite Hrl in Hfit. change (0 / MINI_SECTOR_LEN) with 0 in Hfit.
    destruct (minifat s); [reflexivity|cbn [lenN] in Hfit; lia]. }
  assert (Hst : forall i e, nthN (dirs s) i = Some e -> d_type e = TStream ->
                 d_start e = END_OF_CHAIN /\ d_len e = 0).
  { intros i e He Ht. unfold EmptyStreams in HES. rewrite Forall_nthN in HES. exact (HES i e He Ht). }
  assert (Hnomini : forall i x, ~ mowns s i x).
  { intros i x (e & ids & He & Ht & Hpos & _). destruct (Hst i e He Ht) as [_ Hl]. lia. }
  constructor.
  - exists r, [], mids. split; [exact Hr|]. split; [rewrite Hrs; apply chain_ids_eoc|].
    split; [exact Hmids|]. rewrite Hrl. change (0 mod MINI_SECTOR_LEN) with 0.
    change (0 / MINI_SECTOR_LEN) with 0. cbn [lenN]. repeat split; lia.
  - intros i e He Ht _. exact (proj1 (Hst i e He Ht)).
  - intros i e He Ht Hb. destruct (Hst i e He Ht) as [_ Hl]. rewrite Hl in Hb.
    unfold MINI_STREAM_CUTOFF in Hb. lia.
  - intros i e He Ht Hp _. destruct (Hst i e He Ht) as [_ Hl]. lia.
  - assert (Hroot : forall x, ~ fowns s ORoot x).
    { intros x (r' & ids & Hr' & Hc & Hx). assert (r' = r) by congruence. subst r'.
      rewrite Hrs, chain_ids_eoc in Hc. injection Hc as <-. destruct Hx. }
    assert (Hbig : forall i x, ~ fowns s (OBig i) x).
    { intros i x (e & ids & He & Ht & Hb & _). destruct (Hst i e He Ht) as [_ Hl]. rewrite Hl in Hb.
      unfold MINI_STREAM_CUTOFF in Hb. lia. }
    assert (Hfd : forall x, fowns s OFat x -> fowns s ODir x -> False).
    { intros x H1 (ids & Hc & Hx). exact (chain_not_marked s _ _ x (ch_marks s C) Hc Hx H1). }
    assert (Hfm : forall x, fowns s OFat x -> fowns s OMfat x -> False).
    { intros x H1 (ids & Hc & Hx). exact (chain_not_marked s _ _ x (ch_marks s C) Hc Hx H1). }
    assert (Hdm : forall x, fowns s ODir x -> fowns s OMfat x -> False).
    { intros x (ids & Hc & Hx) (ids' & Hc' & Hx').
      exact (b_disj s (p_base s HP) ids ids' Hc Hc' x Hx Hx'). }
    intros o o' x H H'.
    destruct o; destruct o'; try reflexivity; exfalso;
      try (exact (Hroot x H)); try (exact (Hroot x H')); try (exact (Hbig _ x H)); try (exact (Hbig _ x H'));
      eauto.
  - intros x v Hv Hnf. destruct (HO x v Hv Hnf) as [Hd|[(ids & Hi & Hin)|(ids & Hi & Hin)]].
    + exists OFat. exact Hd.
    + exists ODir, ids. auto.
    + exists OMfat, ids. auto.
  - intros i j x H _. exfalso. exact (Hnomini i x H).
  - intros x v Hv _. rewrite Hmf in Hv. discriminate Hv.
Qed.

(* ================================================================== *)
(* 1b. the FAT and directory stages, with the hypotheses they use      *)
(* ================================================================== *)

(* WfPersist.stage_fat_eq, with [Owned] replaced by what rule 19 needs *)
Theorem stage_fat_eq' : forall s vnum nd fd fm nm, Coherent s ->
  (forall i v, nthN (fat s) i = Some v -> v <> FREE_SECTOR ->
     In i (difat s) \/ v = END_OF_CHAIN \/ v <= MAX_REGULAR_SECTOR) ->
  stage_fat (slen s) (nsect s) (slen s / 4) vnum (sector_bytes s) nd (lenN (difat s)) fd fm nm 0 []
            (hdr_difat_of (difat s))
  = stage_dir (slen s) (slen s / 4) vnum (sector_bytes s) (fat s) nd fd fm nm (rev (difat s) ++ []).
Proof.
  intros s vnum nd fd fm nm C Hcase. pose proof (ch_fat s C) as Hfat.
  pose proof Hfat as [[Himg Hfull Hcoh Hnodup Hlt] Hlen Hpos Htight].
  pose proof (fat_capacity s Hfat) as [Hcap _].
  pose proof (ch_nsect s C) as Hns. pose proof (ch_marks s C) as Hmarks. markers.
  unfold stage_fat. cbv zeta. cbn [lenN]. change (negb (0 =? 0)) with false. cbv iota.
  assert (Hfilt : filter (fun x => negb (x =? FREE_SECTOR)) (hdr_difat_of (difat s)) = difat s).
  { rewrite hdr_difat_of_short by exact (ch_ndifat s C). rewrite filter_app.
    rewrite filter_repeatN_false by (rewrite N.eqb_refl; reflexivity).
    rewrite app_nil_r. apply filter_all. intros x Hx. specialize (Hlt x Hx).
    destruct (N.eqb_spec x FREE_SECTOR); [lia|reflexivity]. }
  rewrite Hfilt.
  rewrite hdr_difat_of_short by exact (ch_ndifat s C).
  rewrite CodecProofs.takeN_app_exact, CodecProofs.list_eqb_refl. cbn [negb].
  rewrite N.eqb_refl. cbn [negb].
  assert (H14 : forallb (fun x => x <? nsect s) (difat s) = true).
  { apply forallb_forall. intros x Hx. specialize (Hlt x Hx). lia. }
  rewrite H14. cbn [negb].
  rewrite (fat_full_eq s C).
  set (k := fat_per_sector s * lenN (difat s) - lenN (fat s)).
  rewrite CodecProofs.lenN_app, CodecProofs.lenN_repeatN.
  replace (lenN (fat s) + k <? nsect s) with false by lia.
  rewrite <- Hlen. rewrite CodecProofs.dropN_app_exact, CodecProofs.takeN_app_exact.
  rewrite forallb_repeatN by apply N.eqb_refl. cbn [negb].
  assert (H17 : forallb (fun i => match nthN (fat s) i with Some v => v =? FAT_SECTOR | None => false end)
                        (difat s) = true).
  { apply forallb_forall. intros x Hx. rewrite (Hmarks x Hx). apply N.eqb_refl. }
  rewrite H17. cbn [negb forallb].
  assert (H19 : forallb (fun '(i, v) => if v =? FAT_SECTOR then memN i (difat s)
                                   else if v =? DIFAT_SECTOR then memN i []
                                   else if v =? INVALID_SECTOR then false else true)
                        (index_from (fat s) 0) = true).
  { apply forallb_index_from. intros i v Hv. rewrite N.add_0_l.
    pose proof (ch_fat_valid s C) as Hval. apply WalkProofs.check_pointees_spec in Hval.
    destruct Hval as (_ & _ & _ & Hinv). specialize (Hinv eq_refl).
    specialize (Hcase i v Hv).
    destruct (N.eqb_spec v FAT_SECTOR) as [E|E].
    - apply WalkProofs.memN_In. destruct Hcase as [Hd|[Hd|Hd]]; [lia|exact Hd|lia|lia].
    - destruct (N.eqb_spec v DIFAT_SECTOR) as [E2|E2].
      + exfalso. destruct Hcase as [Hd|[Hd|Hd]]; [lia| |lia|lia].
        rewrite (Hmarks i Hd) in Hv. injection Hv as Hv. lia.
      + destruct (N.eqb_spec v INVALID_SECTOR) as [E3|E3]; [|reflexivity].
        exfalso. apply Hinv. subst v. eapply WalkProofs.nthN_In. exact Hv. }
  rewrite H19. cbn [negb].
  rewrite (disjoint_add_ok (difat s) [] Hnodup) by (intros x _ []).
  cbn [disjoint_add]. reflexivity.
Qed.

(* WfPersist.stage_tree_eq from [DBase]; it also says that every stream entry
   of the table is reached *)
Theorem stage_tree_eq' : forall s dids root_e own2 fm nm, DBase s -> Tidy (dirs s) ->
  nthN (dirs s) ROOT_STREAM_ID = Some root_e ->
  exists reach, (forall i, In i reach -> i < lenN (dirs s)) /\
  (forall i e, nthN (dirs s) i = Some e -> d_type e = TStream -> In i reach) /\
  stage_tree (slen s) (slen s / 4) (sector_bytes s) (fat s) (es_of s dids) (went (ver s) root_e) own2 fm nm
  = stage_mini (slen s) (slen s / 4) (sector_bytes s) (fat s) (es_of s dids) (went (ver s) root_e)
               reach own2 fm nm.
Proof.
  intros s dids root_e own2 fm nm HP (t & U & HN & ND & Hblank) Hroot.
  destruct HP as [C Hents Hrootok].
  assert (Hwf : forall j e, nthN (dirs s) j = Some e -> CodecProofs.dirent_wf (ver s) e).
  { intros j e He. rewrite Forall_nthN in Hents. apply (Hents j e He). }
  assert (HE : forall j e, nthN (dirs s) j = Some e ->
             exists we, nthN (es_of s dids) j = Some we /\ wrep (ver s) e we).
  { intros j e He. exists (went (ver s) e). split; [apply es_of_nth_old; exact He|].
    apply went_wrep. exact (Hwf j e He). }
  assert (Hlen : (length (dirs s) <= length (es_of s dids))%nat).
  { unfold es_of. rewrite map_length, app_length. lia. }
  pose proof (ents_AllBlack _ _ Hents) as HB.
  destruct (tree_walk_ok (ver s) (dirs s) (es_of s dids) HE Hlen HB Hwf t U root_e HN ND Hroot)
    as (reach & Hwalk & Hperm).
  exists reach. split.
  { intros i Hi. destruct (MutRefine.NRU_typed _ _ _ _ _ _ _ HN i) as (ei & Hei & _).
    - eapply Permutation_in; [exact Hperm|exact Hi].
    - eapply nthN_Some_lt. exact Hei. }
  split.
  { intros i e He Ht. eapply Permutation_in; [apply Permutation_sym; exact Hperm|].
    destruct (in_dec N.eq_dec i U) as [Hin|Hnin]; [exact Hin|].
    rewrite (Hblank i e He Hnin) in Ht. discriminate Ht. }
  pose proof (went_wrep _ _ (Hwf _ _ Hroot)) as Wr.
  destruct Hrootok as (root' & Hr' & RL & RR & _). assert (root' = root_e) by congruence. subst root'.
  assert (Hrt : d_type root_e = TRoot).
  { pose proof HN as [HNR _]. destruct (QueryRefine.NodeRep_root_dir _ _ _ _ _ HNR) as (m & ks & ->).
    apply MutRefine.NRU_dir in HN. destruct HN as (_ & e & He & _ & Ht & _). congruence. }
  assert (Hrn : d_name root_e = ROOT_DIR_NAME).
  { pose proof (CodecProofs.wf_name _ _ (Hwf _ _ Hroot)) as Wn. rewrite Hrt in Wn. exact Wn. }
  unfold stage_tree.
  rewrite (wr_type _ _ _ Wr), Hrt. change (negb (objtype_byte TRoot =? OBJ_TYPE_ROOT)) with false. cbv iota.
  rewrite (wr_name _ _ _ Wr), Hrn, scalars_from_utf16,
          (CodecProofs.from_utf16_utf16 _ CodecProofs.scalar_root_name), CodecProofs.list_eqb_refl.
  cbn [negb]. rewrite (wr_left _ _ _ Wr), (wr_right _ _ _ Wr), RL, RR, N.eqb_refl. cbn [andb negb].
  assert (H46 : (w_color (went (ver s) root_e) =? COLOR_RED) || (w_color (went (ver s) root_e) =? COLOR_BLACK) = true).
  { rewrite (wr_color _ _ _ Wr). destruct (d_color root_e); reflexivity. }
  rewrite H46, (wr_nameok_root _ _ _ Wr Hrt). cbn [negb].
  rewrite (wr_child _ _ _ Wr), Hwalk.
  assert (H31 : forallb (fun '(i, e) => if memN i reach then true else blank_entry e)
                        (index_from (es_of s dids) 0) = true).
  { apply forallb_index_from. intros i we Hwe. rewrite N.add_0_l.
    destruct (memN i reach) eqn:Em; [reflexivity|].
    apply WalkProofs.memN_false in Em.
    assert (HnU : ~ In i U) by (intro Hc; apply Em; eapply Permutation_in; [apply Permutation_sym; exact Hperm|exact Hc]).
    destruct (es_of_nth s dids i we Hwe) as [(e & He & ->)|(_ & ->)]; [|apply blank_went].
    rewrite (Hblank i e He HnU). apply blank_went. }
  rewrite H31. cbn [negb].
  assert (H48 : forallb (fun '(i, e) => if memN i reach then true else w_namelen e mod 2 =? 0)
                        (index_from (es_of s dids) 0) = true).
  { apply forallb_index_from. intros i we Hwe. rewrite N.add_0_l.
    destruct (memN i reach); [reflexivity|]. apply N.eqb_eq.
    destruct (es_of_nth s dids i we Hwe) as [(e & He & ->)|(_ & ->)].
    - exact (wr_namelen_even _ _ _ (went_wrep _ _ (Hwf _ _ He))).
    - destruct (ver s); vm_compute; reflexivity. }
  rewrite H48. cbn [negb].
  assert (H32 : forallb (fun '(i, e) => if (w_type e =? OBJ_TYPE_STREAM) && memN i reach
                                   then w_clsid_zero e && (w_ctime e =? 0) && (w_mtime e =? 0) && (w_child e =? NO_STREAM)
                                   else true) (index_from (es_of s dids) 0) = true).
  { apply forallb_index_from. intros i we Hwe. rewrite N.add_0_l.
    destruct ((w_type we =? OBJ_TYPE_STREAM) && memN i reach) eqn:Ec; [|reflexivity].
    apply andb_true_iff in Ec. destruct Ec as [Ety Em]. apply WalkProofs.memN_In in Em.
    destruct (MutRefine.NRU_typed _ _ _ _ _ _ _ HN i) as (e & He & _);
      [eapply Permutation_in; [exact Hperm|exact Em]|].
    rewrite (es_of_nth_old s dids i e He) in Hwe. injection Hwe as <-.
    pose proof (went_wrep _ _ (Hwf _ _ He)) as W.
    rewrite (wr_type _ _ _ W) in Ety.
    assert (Hst : d_type e = TStream) by (destruct (d_type e); try discriminate Ety; reflexivity).
    destruct (CodecProofs.wf_stream _ _ (Hwf _ _ He) Hst) as (Hc & Hg & Hct & Hmt).
    rewrite (wr_clsid _ _ _ W Hg), (wr_ctime _ _ _ W), (wr_mtime _ _ _ W), (wr_child _ _ _ W), Hc, Hct, Hmt.
    reflexivity. }
  rewrite H32. cbn [negb].
  assert (Hsto : forall i we, nthN (es_of s dids) i = Some we ->
            (w_type we =? OBJ_TYPE_STORAGE) && memN i reach = true -> w_start we = 0 /\ w_len we = 0).
  { intros i we Hwe Ec.
    apply andb_true_iff in Ec. destruct Ec as [Ety Em]. apply WalkProofs.memN_In in Em.
    destruct (MutRefine.NRU_typed _ _ _ _ _ _ _ HN i) as (e & He & _);
      [eapply Permutation_in; [exact Hperm|exact Em]|].
    rewrite (es_of_nth_old s dids i e He) in Hwe. injection Hwe as <-.
    pose proof (went_wrep _ _ (Hwf _ _ He)) as W.
    rewrite (wr_type _ _ _ W) in Ety.
    assert (Hst : d_type e = TStorage) by (destruct (d_type e); try discriminate Ety; reflexivity).
    destruct (CodecProofs.wf_storage _ _ (Hwf _ _ He) Hst) as (Hs0 & Hl0).
    rewrite (wr_start _ _ _ W), (wr_len _ _ _ W). split; assumption. }
  assert (H49 : forallb (fun '(i, e) => if (w_type e =? OBJ_TYPE_STORAGE) && memN i reach
                                   then w_start e =? 0 else true) (index_from (es_of s dids) 0) = true).
  { apply forallb_index_from. intros i we Hwe. rewrite N.add_0_l.
    destruct ((w_type we =? OBJ_TYPE_STORAGE) && memN i reach) eqn:Ec; [|reflexivity].
    apply N.eqb_eq. exact (proj1 (Hsto i we Hwe Ec)). }
  assert (H50 : forallb (fun '(i, e) => if (w_type e =? OBJ_TYPE_STORAGE) && memN i reach
                                   then w_len e =? 0 else true) (index_from (es_of s dids) 0) = true).
  { apply forallb_index_from. intros i we Hwe. rewrite N.add_0_l.
    destruct ((w_type we =? OBJ_TYPE_STORAGE) && memN i reach) eqn:Ec; [|reflexivity].
    apply N.eqb_eq. exact (proj2 (Hsto i we Hwe Ec)). }
  rewrite H49, H50. reflexivity.
Qed.

Theorem stage_dir_eq' : forall s, DBase s -> Tidy (dirs s) ->
  exists dids reach root_e,
    chain_ids_of (fat s) (dir_start s) = Ok dids /\ nthN (dirs s) ROOT_STREAM_ID = Some root_e /\
    (forall i, In i reach -> i < lenN (dirs s)) /\
    (forall i e, nthN (dirs s) i = Some e -> d_type e = TStream -> In i reach) /\
    stage_dir (slen s) (slen s / 4) (ver_number (ver s)) (sector_bytes s) (fat s)
              (h_num_dir (header_of s)) (dir_start s) (minifat_start s)
              (chain_count (fat s) (minifat_start s)) (rev (difat s) ++ [])
    = stage_mini (slen s) (slen s / 4) (sector_bytes s) (fat s) (es_of s dids) (went (ver s) root_e)
                 reach (rev dids ++ rev (difat s) ++ []) (minifat_start s)
                 (chain_count (fat s) (minifat_start s)).
Proof.
  intros s HP HT. pose proof (db_coh s HP) as C.
  destruct (ch_dir s C) as (dids & Hids & Hgd & Hcap & _).
  unfold DirCoherence.dir_ids in Hids.
  destruct (db_root s HP) as (root_e & Hroot & _).
  destruct (stage_tree_eq' s dids root_e (rev dids ++ rev (difat s) ++ []) (minifat_start s)
              (chain_count (fat s) (minifat_start s)) HP HT Hroot) as (reach & Hreach & Hall & Htree).
  exists dids, reach, root_e. split; [exact Hids|]. split; [exact Hroot|]. split; [exact Hreach|].
  split; [exact Hall|].
  pose proof Hgd as (Hnd & HF & _ & _). pose proof (ch_nsect s C) as Hns. markers.
  assert (Hreg : Forall (fun x => x <= MAX_REGULAR_SECTOR) dids).
  { eapply Forall_impl; [|exact HF]. cbv beta. intros a [Ha _]. lia. }
  unfold stage_dir.
  rewrite (chain_of_ids _ _ _ Hids Hnd Hreg).
  assert (Hpos : 0 < lenN (dirs s)) by (eapply nthN_Some_lt; exact Hroot).
  unfold DIR_ENTRY_LEN in Hcap.
  destruct (N.eqb_spec (lenN dids) 0) as [E|_].
  { rewrite E in Hcap. lia. }
  assert (H24 : (if ver_number (ver s) =? 3 then h_num_dir (header_of s) =? 0
                 else h_num_dir (header_of s) =? lenN dids) = true).
  { unfold header_of. cbn [h_num_dir]. destruct (ver s); cbn [ver_number].
    - reflexivity.
    - change (V4_NUMBER =? 3) with false. cbv iota. unfold chain_count. rewrite Hids. apply N.eqb_refl. }
  rewrite H24. cbn [negb].
  rewrite (disjoint_add_ok dids (rev (difat s) ++ []) Hnd).
  2:{ intros x Hx Hc. rewrite app_nil_r in Hc. apply in_rev in Hc.
      exact (chain_not_marked s _ _ x (ch_marks s C) Hids Hx Hc). }
  cbv zeta.
  rewrite (raw_entries_eq s dids C Hids), map_map.
  assert (Hmask : (if ver_number (ver s) =? 3 then 4294967295 else 18446744073709551615)
                  = stream_len_mask (ver s)) by (destruct (ver s); reflexivity).
  rewrite Hmask.
  change (map (fun x => parse_entry (stream_len_mask (ver s)) (dirent_encode x))
              (dirs s ++ repeatN dirent_unallocated (blanks_of s dids))) with (es_of s dids).
  destruct (es_of s dids) as [|w0 tl] eqn:Ees.
  { pose proof (es_of_nth_old s dids _ _ Hroot) as Hc. rewrite Ees in Hc. discriminate Hc. }
  assert (w0 = went (ver s) root_e).
  { pose proof (es_of_nth_old s dids _ _ Hroot) as Hc. rewrite Ees in Hc. cbn in Hc. congruence. }
  subst w0. exact Htree.
Qed.

(* ================================================================== *)
(* 1c. the fold over the stream entries (rule 42)                      *)
(* ================================================================== *)

Definition wbig (fat : list N) (we : wentry) : list N :=
  if w_len we =? 0 then [] else if w_len we <? MINI_STREAM_CUTOFF then [] else
  match chain_of fat (w_start we) with Some ids => ids | None => [] end.

Definition wsmall (mf : list N) (we : wentry) : list N :=
  if w_len we =? 0 then [] else if w_len we <? MINI_STREAM_CUTOFF then
  match chain_of mf (w_start we) with Some ids => ids | None => [] end else [].

Definition went_good (sl : N) (fat mf : list N) (we : wentry) : Prop :=
  if w_len we =? 0 then w_start we = END_OF_CHAIN
  else if w_len we <? MINI_STREAM_CUTOFF then
    exists ids, chain_of mf (w_start we) = Some ids /\
                lenN ids = ceil_div (w_len we) MINI_SECTOR_LEN /\ NoDup ids
  else
    exists ids, chain_of fat (w_start we) = Some ids /\
                lenN ids = ceil_div (w_len we) sl /\ NoDup ids.

Lemma ex_cons_iff : forall A (P : A -> Prop) a t,
  (exists ie, In ie (a :: t) /\ P ie) <-> P a \/ exists ie, In ie t /\ P ie.
Proof.
  intros A P a t. split.
  - intros (ie & [<-|Hin] & Hp); [left; exact Hp|right; exists ie; auto].
  - intros [Hp|(ie & Hin & Hp)]; [exists a; split; [left; reflexivity|exact Hp]|exists ie; split; [right; exact Hin|exact Hp]].
Qed.

Lemma fold_streams_ok : forall sl fat mf l own mown,
  NoDup (map fst l) ->
  (forall ie, In ie l -> went_good sl fat mf (snd ie)) ->
  (forall ie x, In ie l -> In x (wbig fat (snd ie)) -> ~ In x own) ->
  (forall ie je x, In ie l -> In je l -> fst ie <> fst je ->
     In x (wbig fat (snd ie)) -> ~ In x (wbig fat (snd je))) ->
  (forall ie x, In ie l -> In x (wsmall mf (snd ie)) -> ~ In x mown) ->
  (forall ie je x, In ie l -> In je l -> fst ie <> fst je ->
     In x (wsmall mf (snd ie)) -> ~ In x (wsmall mf (snd je))) ->
  exists own' mown',
    fold_left (streams_step sl fat mf) l (Some (own, mown)) = Some (own', mown') /\
    (forall x, In x own' <-> In x own \/ exists ie : N * wentry, In ie l /\ In x (wbig fat (snd ie))) /\
    (forall x, In x mown' <-> In x mown \/ exists ie : N * wentry, In ie l /\ In x (wsmall mf (snd ie))).
Proof.
  intros sl fat mf l. induction l as [|a t IH]; intros own mown Hnd Hg Hbo Hbb Hso Hss.
  - exists own, mown. split; [reflexivity|].
    split; intro x; (split; [auto|intros [H|(ie & [] & _)]; exact H]).
  - cbn [map] in Hnd. apply NoDup_cons_iff in Hnd. destruct Hnd as [Hna Hnd].
    assert (Hne : forall je, In je t -> fst a <> fst je).
    { intros je Hje E. apply Hna. rewrite E. apply in_map. exact Hje. }
    pose proof (Hg a (or_introl eq_refl)) as Ga. unfold went_good in Ga.
    assert (Hg' : forall ie, In ie t -> went_good sl fat mf (snd ie)) by (intros; apply Hg; right; assumption).
    assert (Hbb' : forall ie je x, In ie t -> In je t -> fst ie <> fst je ->
              In x (wbig fat (snd ie)) -> ~ In x (wbig fat (snd je)))
      by (intros ie je x H1 H2; apply Hbb; right; assumption).
    assert (Hss' : forall ie je x, In ie t -> In je t -> fst ie <> fst je ->
              In x (wsmall mf (snd ie)) -> ~ In x (wsmall mf (snd je)))
      by (intros ie je x H1 H2; apply Hss; right; assumption).
    cbn [fold_left]. unfold streams_step at 2. cbv zeta.
    destruct (w_len (snd a) =? 0) eqn:E0.
    + rewrite Ga, N.eqb_refl.
      assert (Wb : wbig fat (snd a) = []) by (unfold wbig; rewrite E0; reflexivity).
      assert (Ws : wsmall mf (snd a) = []) by (unfold wsmall; rewrite E0; reflexivity).
      destruct (IH own mown Hnd Hg') as (own' & mown' & Hf & Ho & Hm); try assumption.
      { intros ie x Hie. apply Hbo. right. exact Hie. }
      { intros ie x Hie. apply Hso. right. exact Hie. }
      exists own', mown'. split; [exact Hf|].
      split; intro x; [rewrite Ho|rewrite Hm]; rewrite ex_cons_iff; [rewrite Wb|rewrite Ws]; cbn [In]; tauto.
    + destruct (w_len (snd a) <? MINI_STREAM_CUTOFF) eqn:E1.
      * destruct Ga as (ids & Hc & Hl & Hndi). rewrite Hc, Hl, N.eqb_refl. cbn [negb].
        assert (Wb : wbig fat (snd a) = []) by (unfold wbig; rewrite E0, E1; reflexivity).
        assert (Ws : wsmall mf (snd a) = ids) by (unfold wsmall; rewrite E0, E1, Hc; reflexivity).
        rewrite (disjoint_add_ok ids mown Hndi)
          by (intros x Hx; apply (Hso a x (or_introl eq_refl)); rewrite Ws; exact Hx).
        destruct (IH own (rev ids ++ mown) Hnd Hg') as (own' & mown' & Hf & Ho & Hm); try assumption.
        { intros ie x Hie. apply Hbo. right. exact Hie. }
        { intros ie x Hie Hx Hin. apply in_app_or in Hin. destruct Hin as [Hin|Hin].
          - rewrite <- in_rev in Hin.
            apply (Hss a ie x (or_introl eq_refl) (or_intror Hie) (Hne ie Hie)); [rewrite Ws; exact Hin|exact Hx].
          - exact (Hso ie x (or_intror Hie) Hx Hin). }
        exists own', mown'. split; [exact Hf|].
        split; intro x; [rewrite Ho|rewrite Hm]; rewrite ex_cons_iff; [rewrite Wb|rewrite Ws, in_app_iff, <- in_rev];
          cbn [In]; tauto.
      * destruct Ga as (ids & Hc & Hl & Hndi). rewrite Hc, Hl, N.eqb_refl. cbn [negb].
        assert (Wb : wbig fat (snd a) = ids) by (unfold wbig; rewrite E0, E1, Hc; reflexivity).
        assert (Ws : wsmall mf (snd a) = []) by (unfold wsmall; rewrite E0, E1; reflexivity).
        rewrite (disjoint_add_ok ids own Hndi)
          by (intros x Hx; apply (Hbo a x (or_introl eq_refl)); rewrite Wb; exact Hx).
        destruct (IH (rev ids ++ own) mown Hnd Hg') as (own' & mown' & Hf & Ho & Hm); try assumption.
        { intros ie x Hie Hx Hin. apply in_app_or in Hin. destruct Hin as [Hin|Hin].
          - rewrite <- in_rev in Hin.
            apply (Hbb a ie x (or_introl eq_refl) (or_intror Hie) (Hne ie Hie)); [rewrite Wb; exact Hin|exact Hx].
          - exact (Hbo ie x (or_intror Hie) Hx Hin). }
        { intros ie x Hie. apply Hso. right. exact Hie. }
        exists own', mown'. split; [exact Hf|].
        split; intro x; [rewrite Ho|rewrite Hm]; rewrite ex_cons_iff; [rewrite Wb, in_app_iff, <- in_rev|rewrite Ws];
          cbn [In]; tauto.
Qed.

Lemma index_from_filter_fst : forall A (p : N * A -> bool) (l : list A) k,
  NoDup (map fst (filter p (index_from l k))) /\
  forall x, In x (map fst (filter p (index_from l k))) -> k <= x.
Proof.
  intros A p l. induction l as [|a t IH]; intro k.
  - cbn. split; [constructor|intros x []].
  - cbn [index_from filter]. destruct (IH (k + 1)) as [Hnd Hge].
    destruct (p (k, a)).
    + cbn [map fst]. split.
      * constructor; [|exact Hnd]. intro Hin. specialize (Hge k Hin). lia.
      * intros x [<-|Hin]; [lia|]. specialize (Hge x Hin). lia.
    + split; [exact Hnd|]. intros x Hin. specialize (Hge x Hin). lia.
Qed.

Lemma index_from_In : forall A (l : list A) k i v,
  nthN l i = Some v -> In (k + i, v) (index_from l k).
Proof.
  intros A l. induction l as [|a t IH]; intros k i v H; [discriminate H|].
  cbn [index_from]. destruct (N.eq_dec i 0) as [->|Hi].
  - cbn in H. injection H as <-. left. rewrite N.add_0_r. reflexivity.
  - rewrite ChainProofs.nthN_cons_pos in H by lia. right.
    replace (k + i) with (k + 1 + N.pred i) by lia. apply IH. exact H.
Qed.

(* ================================================================== *)
(* 1d. the MiniFAT / mini stream / ownership stages (rules 33-44)      *)
(* ================================================================== *)

Theorem stage_mini_eq' : forall s dids reach root_e,
  DBase s -> DInv s ->
  chain_ids_of (fat s) (dir_start s) = Ok dids -> nthN (dirs s) ROOT_STREAM_ID = Some root_e ->
  (forall i, In i reach -> i < lenN (dirs s)) ->
  (forall i e, nthN (dirs s) i = Some e -> d_type e = TStream -> In i reach) ->
  stage_mini (slen s) (slen s / 4) (sector_bytes s) (fat s) (es_of s dids) (went (ver s) root_e)
             reach (rev dids ++ rev (difat s) ++ []) (minifat_start s)
             (chain_count (fat s) (minifat_start s)) = 0.
Proof.
  intros s dids reach root_e HB HD Hids Hroot Hreach Hall.
  pose proof (db_coh s HB) as C.
  destruct (ch_mini s C) as (mids & Hmids & Hgm & Hmcap & Hmcell).
  unfold DirCoherence.minifat_ids in Hmids.
  destruct (di_root s HD) as (r & rids & mids' & Hr & Hrids & Hmids' & Hmod & Hrcap & Hmfcap & Hmreg).
  assert (r = root_e) by congruence. subst r. assert (mids' = mids) by congruence. subst mids'.
  pose proof Hgm as (Hndm & HFm & _ & _). pose proof (ch_nsect s C) as Hns. markers.
  assert (Hwf : forall j e, nthN (dirs s) j = Some e -> CodecProofs.dirent_wf (ver s) e).
  { intros j e He. pose proof (db_ents s HB) as Hents. rewrite Forall_nthN in Hents. apply (Hents j e He). }
  pose proof (went_wrep _ _ (Hwf _ _ Hroot)) as Wr.
  (* membership in the four capacity chains *)
  assert (Fd : forall x, In x dids <-> fowns s ODir x).
  { intro x. cbn [fowns]. split; [eauto|]. intros (l & Hl & Hx). congruence. }
  assert (Fm : forall x, In x mids <-> fowns s OMfat x).
  { intro x. cbn [fowns]. split; [eauto|]. intros (l & Hl & Hx). congruence. }
  assert (Fr : forall x, In x rids <-> fowns s ORoot x).
  { intro x. cbn [fowns]. split; [intro Hx; exists root_e, rids; auto|].
    intros (r & l & Hr' & Hl & Hx). congruence. }
  assert (Huniq : forall o o' x, fowns s o x -> fowns s o' x -> o <> o' -> False).
  { intros o o' x Ha Hb Hne. apply Hne. exact (di_fat_uniq s HD o o' x Ha Hb). }
  unfold stage_mini.
  rewrite (chain_of_fat s _ _ C Hmids).
  unfold chain_count at 1. rewrite Hmids, N.eqb_refl. cbn [negb].
  rewrite (disjoint_add_ok mids _ Hndm).
  2:{ intros x Hx Hc. rewrite app_nil_r in Hc. apply in_app_or in Hc.
      destruct Hc as [Hc|Hc]; rewrite <- in_rev in Hc.
      - apply (Huniq ODir OMfat x); [apply Fd; exact Hc|apply Fm; exact Hx|discriminate].
      - apply (Huniq OFat OMfat x); [exact Hc|apply Fm; exact Hx|discriminate]. }
  cbv zeta.
  rewrite (wr_len _ _ _ Wr), (wr_start _ _ _ Wr).
  replace (negb (d_len root_e mod MINI_SECTOR_LEN =? 0)) with false by (rewrite Hmod; reflexivity).
  cbv iota.
  rewrite (chain_of_fat s _ _ C Hrids).
  replace (lenN rids * slen s <? d_len root_e) with false by (symmetry; apply N.ltb_ge; lia).
  rewrite (disjoint_add_ok rids _ (chain_ids_nodup _ _ _ Hrids)).
  2:{ intros x Hx Hc. rewrite app_nil_r in Hc. apply in_app_or in Hc.
      destruct Hc as [Hc|Hc]; [|apply in_app_or in Hc; destruct Hc as [Hc|Hc]]; rewrite <- in_rev in Hc.
      - apply (Huniq OMfat ORoot x); [apply Fm; exact Hc|apply Fr; exact Hx|discriminate].
      - apply (Huniq ODir ORoot x); [apply Fd; exact Hc|apply Fr; exact Hx|discriminate].
      - apply (Huniq OFat ORoot x); [exact Hc|apply Fr; exact Hx|discriminate]. }
  rewrite flat_map_words_content by (intros x Hx; rewrite Forall_forall in HFm; apply HFm; exact Hx).
  rewrite (u32s_minifat s mids Hgm Hmcap Hmcell (ch_mini_tail s C mids Hmids)).
  set (nmini := d_len root_e / MINI_SECTOR_LEN) in *.
  set (k := slen s * lenN mids / 4 - lenN (minifat s)).
  assert (Hfit : lenN (minifat s) <= nmini) by (exact (ch_mini_fits s C root_e Hroot)).
  assert (Hk : nmini <= lenN (minifat s) + k).
  { unfold k. clearbody nmini. destruct (ReuseProofs.slen_cases s) as [E|E]; rewrite E in *;
      [change (512 / 4) with 128 in Hmfcap|change (4096 / 4) with 1024 in Hmfcap]; lia. }
  rewrite CodecProofs.lenN_app, CodecProofs.lenN_repeatN.
  replace (lenN (minifat s) + k <? nmini) with false by (symmetry; apply N.ltb_ge; lia).
  rewrite ChainProofs.dropN_app_ge by exact Hfit.
  rewrite PersistProofs.dropN_repeatN, forallb_repeatN by apply N.eqb_refl. cbn [negb].
  rewrite ChainProofs.takeN_app_ge by exact Hfit.
  rewrite StoreProofs.takeN_repeatN by lia.
  set (mf := minifat s ++ repeatN FREE_SECTOR (nmini - lenN (minifat s))).
  assert (Hmflen : lenN mf = nmini)
    by (unfold mf; rewrite CodecProofs.lenN_app, CodecProofs.lenN_repeatN; lia).
  assert (Hchmf : forall st ids, chain_ids_of (minifat s) st = Ok ids -> chain_of mf st = Some ids).
  { intros st ids Hc. apply chain_of_tbl; [apply chain_ids_pad; exact Hc|rewrite Hmflen; exact Hmreg]. }
  (* ownership *)
  unfold stage_own. cbv zeta.
  set (own4 := rev rids ++ rev mids ++ rev dids ++ rev (difat s) ++ []).
  set (streams := filter (fun '(i, e) => (w_type e =? OBJ_TYPE_STREAM) && memN i reach)
                         (index_from (es_of s dids) 0)).
  assert (Hown4 : forall x, In x own4 <->
            fowns s ORoot x \/ fowns s OMfat x \/ fowns s ODir x \/ fowns s OFat x).
  { intro x. unfold own4. rewrite app_nil_r, !in_app_iff, <- !in_rev, Fr, Fm, Fd. cbn [fowns]. tauto. }
  assert (Hview : forall ie, In ie streams ->
            exists e, nthN (dirs s) (fst ie) = Some e /\ d_type e = TStream /\
                      w_len (snd ie) = d_len e /\ w_start (snd ie) = d_start e).
  { intros [i we] Hin. apply filter_In in Hin. destruct Hin as [Hin Hc].
    apply andb_true_iff in Hc. destruct Hc as [Ety Em]. apply WalkProofs.memN_In in Em.
    apply In_index_from in Hin. destruct Hin as [_ Hn]. rewrite N.sub_0_r in Hn.
    destruct (WalkProofs.nthN_lt_Some (dirs s) i (Hreach i Em)) as [e He].
    rewrite (es_of_nth_old s dids i e He) in Hn. injection Hn as <-.
    pose proof (went_wrep _ _ (Hwf _ _ He)) as W. cbn [fst snd].
    rewrite (wr_type _ _ _ W) in Ety.
    assert (Hst : d_type e = TStream) by (destruct (d_type e); try discriminate Ety; reflexivity).
    exists e. split; [exact He|]. split; [exact Hst|]. split; [exact (wr_len _ _ _ W)|exact (wr_start _ _ _ W)]. }
  assert (Hin_streams : forall i e, nthN (dirs s) i = Some e -> d_type e = TStream ->
            In (i, went (ver s) e) streams).
  { intros i e He Ht. apply filter_In. split.
    - replace i with (0 + i) by lia. apply index_from_In. apply es_of_nth_old. exact He.
    - pose proof (went_wrep _ _ (Hwf _ _ He)) as W. rewrite (wr_type _ _ _ W), Ht.
      apply andb_true_iff. split; [reflexivity|]. apply WalkProofs.memN_In. exact (Hall i e He Ht). }
  assert (Hbig1 : forall ie x, In ie streams -> In x (wbig (fat s) (snd ie)) -> fowns s (OBig (fst ie)) x).
  { intros ie x Hie Hx. destruct (Hview ie Hie) as (e & He & Ht & Hl & Hs).
    unfold wbig in Hx. rewrite Hl, Hs in Hx.
    destruct (d_len e =? 0) eqn:E0; [destruct Hx|].
    destruct (d_len e <? MINI_STREAM_CUTOFF) eqn:E1; [destruct Hx|].
    destruct (di_big s HD _ e He Ht ltac:(lia)) as (ids & Hc & _).
    rewrite (chain_of_fat s _ _ C Hc) in Hx. exists e, ids. repeat split; try assumption. lia. }
  assert (Hbig2 : forall i x, fowns s (OBig i) x ->
            exists ie, In ie streams /\ fst ie = i /\ In x (wbig (fat s) (snd ie))).
  { intros i x (e & ids & He & Ht & Hb & Hc & Hx). exists (i, went (ver s) e).
    split; [exact (Hin_streams i e He Ht)|]. split; [reflexivity|]. cbn [snd].
    pose proof (went_wrep _ _ (Hwf _ _ He)) as W.
    unfold wbig. rewrite (wr_len _ _ _ W), (wr_start _ _ _ W).
    unfold MINI_STREAM_CUTOFF in *.
    destruct (d_len e =? 0) eqn:E0; [lia|]. destruct (d_len e <? 4096) eqn:E1; [lia|].
    rewrite (chain_of_fat s _ _ C Hc). exact Hx. }
  assert (Hsm1 : forall ie x, In ie streams -> In x (wsmall mf (snd ie)) -> mowns s (fst ie) x).
  { intros ie x Hie Hx. destruct (Hview ie Hie) as (e & He & Ht & Hl & Hs).
    unfold wsmall in Hx. rewrite Hl, Hs in Hx.
    destruct (d_len e =? 0) eqn:E0; [destruct Hx|].
    destruct (d_len e <? MINI_STREAM_CUTOFF) eqn:E1; [|destruct Hx].
    destruct (di_small s HD _ e He Ht ltac:(lia) ltac:(lia)) as (ids & Hc & _).
    rewrite (Hchmf _ _ Hc) in Hx. exists e, ids. repeat split; try assumption; lia. }
  assert (Hsm2 : forall i x, mowns s i x ->
            exists ie, In ie streams /\ fst ie = i /\ In x (wsmall mf (snd ie))).
  { intros i x (e & ids & He & Ht & Hp & Hb & Hc & Hx). exists (i, went (ver s) e).
    split; [exact (Hin_streams i e He Ht)|]. split; [reflexivity|]. cbn [snd].
    pose proof (went_wrep _ _ (Hwf _ _ He)) as W.
    unfold wsmall. rewrite (wr_len _ _ _ W), (wr_start _ _ _ W).
    destruct (d_len e =? 0) eqn:E0; [lia|]. destruct (d_len e <? MINI_STREAM_CUTOFF) eqn:E1; [|lia].
    rewrite (Hchmf _ _ Hc). exact Hx. }
  destruct (fold_streams_ok (slen s) (fat s) mf streams own4 []) as (own5 & mown & Hf & Ho & Hm).
  { unfold streams. apply index_from_filter_fst. }
  { intros ie Hie. destruct (Hview ie Hie) as (e & He & Ht & Hl & Hs).
    unfold went_good. rewrite Hl, Hs.
    destruct (d_len e =? 0) eqn:E0.
    - apply (di_empty s HD _ e He Ht). lia.
    - destruct (d_len e <? MINI_STREAM_CUTOFF) eqn:E1.
      + destruct (di_small s HD _ e He Ht ltac:(lia) ltac:(lia)) as (ids & Hc & Hlen).
        exists ids. split; [exact (Hchmf _ _ Hc)|]. split; [exact Hlen|exact (chain_ids_nodup _ _ _ Hc)].
      + destruct (di_big s HD _ e He Ht ltac:(lia)) as (ids & Hc & Hlen).
        exists ids. split; [exact (chain_of_fat s _ _ C Hc)|]. split; [exact Hlen|exact (chain_ids_nodup _ _ _ Hc)]. }
  { intros ie x Hie Hx Hin. apply Hown4 in Hin. pose proof (Hbig1 ie x Hie Hx) as Hb.
    destruct Hin as [Hq|[Hq|[Hq|Hq]]];
      [apply (Huniq ORoot (OBig (fst ie)) x)|apply (Huniq OMfat (OBig (fst ie)) x)
      |apply (Huniq ODir (OBig (fst ie)) x)|apply (Huniq OFat (OBig (fst ie)) x)]; try assumption; discriminate. }
  { intros ie je x Hie Hje Hne Hx Hx'.
    apply (Huniq (OBig (fst ie)) (OBig (fst je)) x); [exact (Hbig1 ie x Hie Hx)|exact (Hbig1 je x Hje Hx')|].
    intro E. injection E as E. contradiction. }
  { intros ie x _ _ []. }
  { intros ie je x Hie Hje Hne Hx Hx'. apply Hne.
    exact (di_mini_uniq s HD _ _ x (Hsm1 ie x Hie Hx) (Hsm1 je x Hje Hx')). }
  rewrite Hf.
  assert (H43 : forallb (fun '(i, v) => if v =? FREE_SECTOR then negb (memN i own5) else memN i own5)
                        (index_from (fat s) 0) = true).
  { apply forallb_index_from. intros i v Hv. rewrite N.add_0_l.
    destruct (N.eqb_spec v FREE_SECTOR) as [E|E].
    - destruct (memN i own5) eqn:Em; [|reflexivity]. apply WalkProofs.memN_In in Em. exfalso.
      assert (Hex : exists o, fowns s o i).
      { apply Ho in Em. destruct Em as [Em|(ie & Hie & Hx)].
        - apply Hown4 in Em. destruct Em as [Hq|[Hq|[Hq|Hq]]]; eauto.
        - eexists. exact (Hbig1 ie i Hie Hx). }
      destruct Hex as (o & Hown). destruct (fowns_cell s o i C Hown) as (v' & Hv' & Hnf & _).
      congruence.
    - apply WalkProofs.memN_In. apply Ho.
      destruct (di_fat_cover s HD i v Hv E) as (o & Hown).
      destruct o as [| | | |j].
      + left. apply Hown4. tauto.
      + left. apply Hown4. tauto.
      + left. apply Hown4. tauto.
      + left. apply Hown4. tauto.
      + right. destruct (Hbig2 j i Hown) as (ie & Hie & _ & Hx). exists ie. auto. }
  rewrite H43. cbn [negb].
  assert (H44 : forallb (fun '(i, v) => if v =? FREE_SECTOR then negb (memN i mown) else memN i mown)
                        (index_from mf 0) = true).
  { apply forallb_index_from. intros i v Hv. rewrite N.add_0_l.
    destruct (N.eqb_spec v FREE_SECTOR) as [E|E].
    - destruct (memN i mown) eqn:Em; [|reflexivity]. apply WalkProofs.memN_In in Em. exfalso.
      apply Hm in Em. destruct Em as [[]|(ie & Hie & Hx)].
      destruct (mowns_cell s _ i (Hsm1 ie i Hie Hx)) as (v' & Hv' & Hnf).
      unfold mf in Hv. rewrite ReuseProofs.nthN_app_l in Hv by (eapply nthN_Some_lt; exact Hv').
      congruence.
    - apply WalkProofs.memN_In. apply Hm. right.
      assert (Hi : i < lenN (minifat s)).
      { destruct (N.lt_ge_cases i (lenN (minifat s))) as [Hi|Hi]; [exact Hi|].
        unfold mf in Hv. rewrite ReuseProofs.nthN_app_r in Hv by exact Hi.
        apply WalkProofs.nthN_In in Hv. apply In_repeatN in Hv. contradiction. }
      unfold mf in Hv. rewrite ReuseProofs.nthN_app_l in Hv by exact Hi.
      destruct (di_mini_cover s HD i v Hv E) as (j & Hown).
      destruct (Hsm2 j i Hown) as (ie & Hie & _ & Hx). exists ie. auto. }
  rewrite H44. reflexivity.
Qed.

(* ================================================================== *)
(* 1e. the checker accepts the image of every state with data          *)
(* ================================================================== *)

Theorem dinv_image_wf : forall s,
  DBase s -> DInv s -> Tidy (dirs s) -> wf_check (concat_img (img s)) = 0.
Proof.
  intros s HB HD HT. pose proof (db_coh s HB) as C.
  rewrite wf_check_staged. unfold wf_staged, concat_img. cbv zeta.
  rewrite (image_len s C).
  destruct (ch_fat s C) as [_ _ Hpos _].
  pose proof (ReuseProofs.slen_cases s) as Hsl.
  replace (slen s * (nsect s + 1) <? HEADER_LEN) with false
    by (symmetry; apply N.ltb_ge; unfold HEADER_LEN; destruct Hsl as [E|E]; rewrite E; lia).
  destruct (image_split s C) as (R & HR).
  destruct (header_fields (header_of s) R (coherent_header_wf s C))
    as (T0 & F26 & F28 & F30 & F32 & _ & _ & _ & F56 & _).
  rewrite <- HR in T0, F26, F28, F30, F32, F56.
  rewrite T0, CodecProofs.list_eqb_refl. cbn [negb].
  rewrite F26, F28, F30, F32, F56, !N.eqb_refl. cbn [negb].
  change (h_ver (header_of s)) with (ver s).
  assert (Hv : (ver_number (ver s) =? 3) || (ver_number (ver s) =? 4) = true) by (destruct (ver s); reflexivity).
  rewrite Hv. cbn [negb].
  assert (Hsh : (if ver_number (ver s) =? 3 then 9 else 12) = sector_shift (ver s)) by (destruct (ver s); reflexivity).
  rewrite Hsh, N.eqb_refl. cbn [negb].
  rewrite (stage_body_eq s C).
  rewrite (stage_fat_eq' s _ _ _ _ _ C).
  2:{ intros i v Hv' Hnf. destruct (di_fat_cover s HD i v Hv' Hnf) as (o & Hown).
      destruct (fowns_cell s o i C Hown) as (v' & Hv'' & _ & Hcase).
      assert (v' = v) by congruence. subst v'. exact Hcase. }
  destruct (stage_dir_eq' s HB HT) as (dids & reach & root_e & Hids & Hroot & Hreach & Hall & ->).
  exact (stage_mini_eq' s dids reach root_e HB HD Hids Hroot Hreach Hall).
Qed.

(* the theorem of WfPersist.v is the special case of empty streams *)
Corollary pinv_image_wf_again : forall s,
  PInv s -> EmptyStreams s -> Owned s -> RootEmpty s -> Tidy (dirs s) ->
  wf_check (concat_img (img s)) = 0.
Proof.
  intros s HP HES HO HRE HT.
  exact (dinv_image_wf s (PInv_DBase s HP) (empty_dinv s HP HES HO HRE) HT).
Qed.

(* ================================================================== *)
(* 1f. [Tidy] and [DBase] do not look at start / length of an entry     *)
(* ================================================================== *)

Section Relen.
Variables ds ds' : list dirent.
(* [ds'] is [ds] with other start sectors / lengths in stream entries and in
   the root entry *)
Hypothesis Hrel : forall j e, nthN ds j = Some e ->
  exists e', nthN ds' j = Some e' /\ HandleFrame.same_meta_ent e e' /\
             (d_type e = TStorage -> d_len e' = d_len e).

Lemma relen_keeps : forall j, keeps ds ds' j.
Proof.
  intros j e He. destruct (Hrel j e He) as (e' & He' & Hm & _).
  destruct (HandleFrame.same_meta_ent_fields e e' Hm) as (_ & _ & _ & F4 & F5 & _).
  exists e'. auto.
Qed.

Lemma relen_nm : forall j, j < lenN ds -> nm_of ds' j = nm_of ds j.
Proof.
  intros j Hj. destruct (WalkProofs.nthN_lt_Some ds j Hj) as [e He].
  destruct (Hrel j e He) as (e' & He' & Hm & _).
  destruct (HandleFrame.same_meta_ent_fields e e' Hm) as (F1 & _).
  unfold nm_of. rewrite He, He'. exact F1.
Qed.

Lemma NRU_relen : forall n r i nm U,
  MutRefine.NRU ds ctrue r i nm n U -> exists n', MutRefine.NRU ds' ctrue r i nm n' U.
Proof.
  induction n as [st bs|m ks IH] using TreeProofs.node_ind'; intros r i nm U H.
  - apply MutRefine.NRU_leaf in H.
    destruct H as (Hid & e & He & Hn & Hr & Ht & Hc & Hs & Hl & _ & Z1 & Z2 & Z3 & HU).
    destruct (Hrel i e He) as (e' & He' & Hm & _).
    destruct (HandleFrame.same_meta_ent_fields e e' Hm) as (F1 & F2 & F3 & F4 & F5 & F6 & F7 & F8 & F9 & F10).
    exists (Tree.Leaf st (repeatN 0 (d_len e'))). apply MutRefine.NRU_leaf.
    split; [exact Hid|]. exists e'. split; [exact He'|].
    split; [congruence|]. split; [exact Hr|]. split; [congruence|]. split; [congruence|].
    split; [congruence|]. split; [rewrite CodecProofs.lenN_repeatN; reflexivity|].
    split; [exact I|]. split; [congruence|]. split; [congruence|]. split; [congruence|exact HU].
  - apply MutRefine.NRU_dir in H.
    destruct H as (Hid & e & He & Hn & Ht & Hm & Hl & t & Us & HR & HB & ND & HK & HU).
    destruct (Hrel i e He) as (e' & He' & Hsm & Hlen).
    destruct (HandleFrame.same_meta_ent_fields e e' Hsm) as (F1 & F2 & F3 & F4 & F5 & F6 & F7 & F8 & F9 & F10).
    assert (Hks : exists ks', MutRefine.Forall3 (MutRefine.KidU ds' ctrue) (ids t) ks' Us).
    { clear - IH HK. induction HK as [|a kc u la lb lc Hk _ IHK].
      - exists []. constructor.
      - inversion IH as [|? ? Hhd Htl]; subst.
        destruct (Hhd false a (fst kc) u Hk) as (n' & Hn').
        destruct (IHK Htl) as (ks' & Hks'). exists ((fst kc, n') :: ks').
        constructor; [exact Hn'|exact Hks']. }
    destruct Hks as (ks' & Hks').
    exists (Tree.Dir m ks'). apply MutRefine.NRU_dir. split; [exact Hid|]. exists e'.
    split; [exact He'|]. split; [congruence|]. split; [congruence|].
    split; [unfold QueryRefine.meta_of in *; congruence|].
    split. { intro Hr. rewrite Hlen; [exact (Hl Hr)|rewrite Ht, Hr; reflexivity]. }
    exists t, Us. split.
    { rewrite F6. apply (rep_frame_links ds); [exact HR|]. intros j _. apply relen_keeps. }
    split.
    { apply (bst_frame ds); [|exact HB]. intros j Hj. apply relen_nm.
      exact (proj2 (rep_ids _ _ _ HR j Hj)). }
    split; [exact ND|]. split; [exact Hks'|exact HU].
Qed.

Lemma tidy_relen :
  (forall j e', nthN ds' j = Some e' ->
     exists e, nthN ds j = Some e /\ (e = dirent_unallocated -> e' = dirent_unallocated)) ->
  Tidy ds -> Tidy ds'.
Proof.
  intros Hback (t & U & HN & ND & Hb).
  destruct (NRU_relen t true ROOT_STREAM_ID ROOT_DIR_NAME U HN) as (t' & HN').
  exists t', U. split; [exact HN'|]. split; [exact ND|].
  intros i e' He' Hni. destruct (Hback i e' He') as (e & He & Himp).
  apply Himp. exact (Hb i e He Hni).
Qed.
End Relen.

Lemma same_meta_set_start_len : forall e st ln, HandleFrame.same_meta_ent e (set_start_len e st ln).
Proof. intros [] st ln. reflexivity. Qed.

(* one stream entry or the root entry gets another start sector / length *)
Theorem tidy_updN_start_len : forall ds id e st ln,
  Tidy ds -> nthN ds id = Some e -> d_type e <> TStorage -> d_type e <> TUnalloc ->
  Tidy (updN ds id (set_start_len e st ln)).
Proof.
  intros ds id e st ln HT He Hty Hun.
  apply (tidy_relen ds); [| |exact HT].
  - intros j e0 He0. destruct (N.eq_dec j id) as [->|Hj].
    + assert (e0 = e) by congruence. subst e0. exists (set_start_len e st ln).
      split; [apply nthN_updN_same; eapply nthN_Some_lt; exact He|].
      split; [apply same_meta_set_start_len|]. intro Hc. contradiction.
    + exists e0. rewrite nthN_updN_other by congruence.
      split; [exact He0|]. split; [apply HandleFrame.same_meta_ent_refl|reflexivity].
  - intros j e' He'. destruct (N.eq_dec j id) as [->|Hj].
    + exists e. split; [exact He|]. intros ->. exfalso. apply Hun. reflexivity.
    + rewrite nthN_updN_other in He' by congruence. exists e'. auto.
Qed.

(* ================================================================== *)
(* 2. a sound boolean checker for the invariant                        *)
(* ================================================================== *)

Definition cids (tbl : list N) (st : N) : list N :=
  match chain_ids_of tbl st with Ok l => l | _ => [] end.
Definition is_ok {A} (r : res A) : bool := match r with Ok _ => true | _ => false end.

Definition is_stream_b (e : dirent) : bool := objtype_eqb (d_type e) TStream.
Definition big_b (e : dirent) : bool := is_stream_b e && (MINI_STREAM_CUTOFF <=? d_len e).
Definition small_b (e : dirent) : bool :=
  is_stream_b e && (0 <? d_len e) && (d_len e <? MINI_STREAM_CUTOFF).

Definition fowner_eqb (o o' : fowner) : bool :=
  match o, o' with
  | OFat, OFat | ODir, ODir | OMfat, OMfat | ORoot, ORoot => true
  | OBig i, OBig j => i =? j
  | _, _ => false
  end.

Lemma fowner_eqb_eq : forall o o', fowner_eqb o o' = true -> o = o'.
Proof.
  intros [] []; cbn [fowner_eqb]; intro H; try discriminate H; try reflexivity.
  apply N.eqb_eq in H. subst. reflexivity.
Qed.

Definition owners (s : cstate) : list (fowner * list N) :=
  (OFat, difat s) :: (ODir, cids (fat s) (dir_start s)) ::
  (OMfat, cids (fat s) (minifat_start s)) ::
  (ORoot, match nthN (dirs s) ROOT_STREAM_ID with Some r => cids (fat s) (d_start r) | None => [] end) ::
  map (fun ie : N * dirent =>
         (OBig (fst ie), if big_b (snd ie) then cids (fat s) (d_start (snd ie)) else []))
      (index_from (dirs s) 0).

Definition mowners (s : cstate) : list (N * list N) :=
  map (fun ie : N * dirent =>
         (fst ie, if small_b (snd ie) then cids (minifat s) (d_start (snd ie)) else []))
      (index_from (dirs s) 0).

Definition pairwise_b {K} (eqb : K -> K -> bool) (L : list (K * list N)) : bool :=
  forallb (fun p => forallb (fun q => eqb (fst p) (fst q) || StoreProofs.disjoint_b (snd p) (snd q)) L) L.

Definition covered_b {K} (L : list (K * list N)) (tbl : list N) : bool :=
  forallb (fun xv : N * N => (snd xv =? FREE_SECTOR) || existsb (fun p => memN (fst xv) (snd p)) L)
          (index_from tbl 0).

Definition stream_ok_b (s : cstate) (e : dirent) : bool :=
  if is_stream_b e then
    if d_len e =? 0 then d_start e =? END_OF_CHAIN
    else if d_len e <? MINI_STREAM_CUTOFF then
      is_ok (chain_ids_of (minifat s) (d_start e)) &&
      (lenN (cids (minifat s) (d_start e)) =? ceil_div (d_len e) MINI_SECTOR_LEN)
    else
      is_ok (chain_ids_of (fat s) (d_start e)) &&
      (lenN (cids (fat s) (d_start e)) =? ceil_div (d_len e) (slen s))
  else true.

Definition dinv_b (s : cstate) : bool :=
  match nthN (dirs s) ROOT_STREAM_ID with
  | None => false
  | Some r =>
    is_ok (chain_ids_of (fat s) (d_start r)) && is_ok (chain_ids_of (fat s) (minifat_start s)) &&
    (d_len r mod MINI_SECTOR_LEN =? 0) &&
    (d_len r <=? lenN (cids (fat s) (d_start r)) * slen s) &&
    (d_len r / MINI_SECTOR_LEN <=? lenN (cids (fat s) (minifat_start s)) * (slen s / 4)) &&
    (d_len r / MINI_SECTOR_LEN <=? MAX_REGULAR_SECTOR + 1) &&
    forallb (stream_ok_b s) (dirs s) &&
    pairwise_b fowner_eqb (owners s) && covered_b (owners s) (fat s) &&
    pairwise_b N.eqb (mowners s) && covered_b (mowners s) (minifat s)
  end.

Lemma cids_ok : forall tbl st ids, chain_ids_of tbl st = Ok ids -> cids tbl st = ids.
Proof. intros tbl st ids H. unfold cids. rewrite H. reflexivity. Qed.

Lemma cids_in : forall tbl st x, In x (cids tbl st) ->
  exists ids, chain_ids_of tbl st = Ok ids /\ In x ids.
Proof.
  intros tbl st x H. unfold cids in H.
  destruct (chain_ids_of tbl st) as [l| | |]; try (destruct H; fail). exists l. auto.
Qed.

Lemma is_ok_ex : forall A (r : res A), is_ok r = true -> exists a, r = Ok a.
Proof. intros A [a| | |] H; try discriminate H. eauto. Qed.

Lemma is_stream_b_true : forall e, is_stream_b e = true <-> d_type e = TStream.
Proof. intro e. unfold is_stream_b. destruct (d_type e); cbn; split; intro H; try discriminate H; reflexivity. Qed.

Lemma big_b_true : forall e, big_b e = true <-> d_type e = TStream /\ MINI_STREAM_CUTOFF <= d_len e.
Proof.
  intro e. unfold big_b. rewrite andb_true_iff, is_stream_b_true, N.leb_le. tauto.
Qed.

Lemma small_b_true : forall e, small_b e = true <->
  d_type e = TStream /\ 0 < d_len e /\ d_len e < MINI_STREAM_CUTOFF.
Proof.
  intro e. unfold small_b. rewrite !andb_true_iff, is_stream_b_true, !N.ltb_lt. tauto.
Qed.

Lemma fowns_owners : forall s o x, fowns s o x <->
  exists ids, In (o, ids) (owners s) /\ In x ids.
Proof.
  intros s o x. split.
  - intro H. destruct o; cbn [fowns] in H.
    + exists (difat s). split; [left; reflexivity|exact H].
    + destruct H as (ids & Hc & Hx). exists ids. split; [|exact Hx].
      right; left. rewrite (cids_ok _ _ _ Hc). reflexivity.
    + destruct H as (ids & Hc & Hx). exists ids. split; [|exact Hx].
      right; right; left. rewrite (cids_ok _ _ _ Hc). reflexivity.
    + destruct H as (r & ids & Hr & Hc & Hx). exists ids. split; [|exact Hx].
      right; right; right; left. rewrite Hr, (cids_ok _ _ _ Hc). reflexivity.
    + destruct H as (e & ids & He & Ht & Hb & Hc & Hx). exists ids. split; [|exact Hx].
      right; right; right; right. apply in_map_iff. exists (i, e). cbn [fst snd]. split.
      * rewrite (proj2 (big_b_true e) (conj Ht Hb)), (cids_ok _ _ _ Hc). reflexivity.
      * replace i with (0 + i) by lia. apply index_from_In. exact He.
  - intros (ids & Hin & Hx). unfold owners in Hin.
    destruct Hin as [E|[E|[E|[E|Hin]]]]; try (injection E as <- <-).
    + exact Hx.
    + cbn [fowns]. exact (cids_in _ _ _ Hx).
    + cbn [fowns]. exact (cids_in _ _ _ Hx).
    + cbn [fowns]. destruct (nthN (dirs s) ROOT_STREAM_ID) as [r|] eqn:Hr; [|destruct Hx].
      destruct (cids_in _ _ _ Hx) as (l & Hc & Hl). exists r, l. auto.
    + apply in_map_iff in Hin. destruct Hin as ([i e] & E & Hin). cbn [fst snd] in E.
      injection E as <- <-. apply In_index_from in Hin. destruct Hin as [_ He]. rewrite N.sub_0_r in He.
      destruct (big_b e) eqn:Eb; [|destruct Hx]. apply big_b_true in Eb. destruct Eb as [Ht Hb].
      destruct (cids_in _ _ _ Hx) as (l & Hc & Hl). exists e, l. auto.
Qed.

Lemma mowns_mowners : forall s i x, mowns s i x <->
  exists ids, In (i, ids) (mowners s) /\ In x ids.
Proof.
  intros s i x. split.
  - intros (e & ids & He & Ht & Hp & Hb & Hc & Hx). exists ids. split; [|exact Hx].
    apply in_map_iff. exists (i, e). cbn [fst snd]. split.
    + rewrite (proj2 (small_b_true e) (conj Ht (conj Hp Hb))), (cids_ok _ _ _ Hc). reflexivity.
    + replace i with (0 + i) by lia. apply index_from_In. exact He.
  - intros (ids & Hin & Hx). apply in_map_iff in Hin. destruct Hin as ([j e] & E & Hin).
    cbn [fst snd] in E. injection E as <- <-. apply In_index_from in Hin. destruct Hin as [_ He].
    rewrite N.sub_0_r in He.
    destruct (small_b e) eqn:Eb; [|destruct Hx]. apply small_b_true in Eb. destruct Eb as (Ht & Hp & Hb).
    destruct (cids_in _ _ _ Hx) as (l & Hc & Hl). exists e, l. repeat split; assumption.
Qed.

Lemma pairwise_b_sound : forall K (eqb : K -> K -> bool) L,
  (forall a b, eqb a b = true -> a = b) -> pairwise_b eqb L = true ->
  forall k k' ids ids' x, In (k, ids) L -> In (k', ids') L -> In x ids -> In x ids' -> k = k'.
Proof.
  intros K eqb L Heq H k k' ids ids' x H1 H2 Hx Hx'. unfold pairwise_b in H.
  rewrite forallb_forall in H. specialize (H _ H1). rewrite forallb_forall in H. specialize (H _ H2).
  cbn [fst snd] in H. apply orb_true_iff in H. destruct H as [H|H]; [exact (Heq _ _ H)|].
  exfalso. exact (StoreProofs.disjoint_b_sound _ _ H x Hx Hx').
Qed.

Lemma covered_b_sound : forall K (L : list (K * list N)) tbl,
  covered_b L tbl = true -> forall x v, nthN tbl x = Some v -> v <> FREE_SECTOR ->
  exists k ids, In (k, ids) L /\ In x ids.
Proof.
  intros K L tbl H x v Hv Hnf. unfold covered_b in H. rewrite forallb_forall in H.
  assert (Hin : In (x, v) (index_from tbl 0)) by (replace x with (0 + x) by lia; apply index_from_In; exact Hv).
  specialize (H _ Hin). cbn [fst snd] in H. apply orb_true_iff in H. destruct H as [H|H].
  - apply N.eqb_eq in H. contradiction.
  - apply existsb_exists in H. destruct H as ([k ids] & Hp & Hm). cbn [snd] in Hm.
    apply WalkProofs.memN_In in Hm. exists k, ids. auto.
Qed.

Theorem dinv_b_sound : forall s, dinv_b s = true -> DInv s.
Proof.
  intros s H. unfold dinv_b in H.
  destruct (nthN (dirs s) ROOT_STREAM_ID) as [r|] eqn:Hr; [|discriminate H].
  repeat (apply andb_true_iff in H; destruct H as [H ?H]).
  apply is_ok_ex in H. destruct H as (rids & Hrids).
  apply is_ok_ex in H9. destruct H9 as (mids & Hmids).
  rewrite (cids_ok _ _ _ Hrids) in H7. rewrite (cids_ok _ _ _ Hmids) in H6.
  apply N.eqb_eq in H8. apply N.leb_le in H7, H6, H5.
  rewrite forallb_forall in H4.
  assert (Hst : forall i e, nthN (dirs s) i = Some e -> d_type e = TStream -> stream_ok_b s e = true).
  { intros i e He _. apply H4. eapply WalkProofs.nthN_In. exact He. }
  constructor.
  - exists r, rids, mids. repeat split; assumption.
  - intros i e He Ht Hl. specialize (Hst i e He Ht). unfold stream_ok_b in Hst.
    rewrite (proj2 (is_stream_b_true e) Ht), Hl in Hst. cbn in Hst. apply N.eqb_eq. exact Hst.
  - intros i e He Ht Hb. specialize (Hst i e He Ht). unfold stream_ok_b in Hst.
    rewrite (proj2 (is_stream_b_true e) Ht) in Hst. unfold MINI_STREAM_CUTOFF in *.
    destruct (d_len e =? 0) eqn:E0; [lia|]. destruct (d_len e <? 4096) eqn:E1; [lia|].
    apply andb_true_iff in Hst. destruct Hst as [Hok Hlen]. apply is_ok_ex in Hok. destruct Hok as (ids & Hc).
    rewrite (cids_ok _ _ _ Hc) in Hlen. apply N.eqb_eq in Hlen. exists ids. auto.
  - intros i e He Ht Hp Hb. specialize (Hst i e He Ht). unfold stream_ok_b in Hst.
    rewrite (proj2 (is_stream_b_true e) Ht) in Hst.
    destruct (d_len e =? 0) eqn:E0; [lia|]. destruct (d_len e <? MINI_STREAM_CUTOFF) eqn:E1; [|lia].
    apply andb_true_iff in Hst. destruct Hst as [Hok Hlen]. apply is_ok_ex in Hok. destruct Hok as (ids & Hc).
    rewrite (cids_ok _ _ _ Hc) in Hlen. apply N.eqb_eq in Hlen. exists ids. auto.
  - intros o o' x Ho Ho'. apply fowns_owners in Ho, Ho'.
    destruct Ho as (ids & Hin & Hx). destruct Ho' as (ids' & Hin' & Hx').
    exact (pairwise_b_sound _ _ _ fowner_eqb_eq H3 o o' ids ids' x Hin Hin' Hx Hx').
  - intros x v Hv Hnf. destruct (covered_b_sound _ _ _ H2 x v Hv Hnf) as (o & ids & Hin & Hx).
    exists o. apply fowns_owners. exists ids. auto.
  - intros i j x Hi Hj. apply mowns_mowners in Hi, Hj.
    destruct Hi as (ids & Hin & Hx). destruct Hj as (ids' & Hin' & Hx').
    refine (pairwise_b_sound _ _ _ _ H1 i j ids ids' x Hin Hin' Hx Hx').
    intros a b E. apply N.eqb_eq. exact E.
  - intros x v Hv Hnf. destruct (covered_b_sound _ _ _ H0 x v Hv Hnf) as (i & ids & Hin & Hx).
    exists i. apply mowns_mowners. exists ids. auto.
Qed.

(* the directory-table part, decidable as well *)
Definition ent_ok_b (v : version) (e : dirent) : bool :=
  dirent_wf_b v e &&
  (objtype_eqb (d_type e) TUnalloc || match d_color e with Black => true | _ => false end) &&
  negb (d_left e =? ROOT_STREAM_ID) && negb (d_right e =? ROOT_STREAM_ID) && negb (d_child e =? ROOT_STREAM_ID).

Definition dbase_b (s : cstate) : bool :=
  coherent_b s && forallb (ent_ok_b (ver s)) (dirs s) &&
  match nthN (dirs s) ROOT_STREAM_ID with
  | Some r => (d_left r =? NO_STREAM) && (d_right r =? NO_STREAM) &&
              (d_len r mod MINI_SECTOR_LEN =? 0) && (lenN (minifat s) <=? d_len r / MINI_SECTOR_LEN)
  | None => false
  end.

Lemma dbase_b_sound : forall s, dbase_b s = true -> DBase s.
Proof.
  intros s H. unfold dbase_b in H.
  apply andb_true_iff in H. destruct H as [H Hroot]. apply andb_true_iff in H. destruct H as [Hc Hents].
  constructor.
  - apply coherent_b_sound. exact Hc.
  - apply Forall_forall. intros e He. rewrite forallb_forall in Hents. specialize (Hents e He).
    unfold ent_ok_b in Hents.
    apply andb_true_iff in Hents. destruct Hents as [Hents G3].
    apply andb_true_iff in Hents. destruct Hents as [Hents G2].
    apply andb_true_iff in Hents. destruct Hents as [Hents G1].
    apply andb_true_iff in Hents. destruct Hents as [Hents G0].
    split; [apply dirent_wf_b_sound; exact Hents|]. split.
    + intro Hne. apply orb_true_iff in G0. destruct G0 as [G0|G0].
      * destruct (d_type e); try discriminate G0. contradiction.
      * destruct (d_color e); [discriminate G0|reflexivity].
    + apply negb_true_iff in G1, G2, G3. apply N.eqb_neq in G1, G2, G3. repeat split; assumption.
  - destruct (nthN (dirs s) ROOT_STREAM_ID) as [r|] eqn:Hr; [|discriminate Hroot].
    repeat (apply andb_true_iff in Hroot; destruct Hroot as [Hroot ?H]).
    apply N.eqb_eq in Hroot, H1, H0. apply N.leb_le in H. exists r. repeat split; assumption.
Qed.

(* a decidable form of the hypotheses of [tidy_relen] *)
Definition dirent_eqb (a b : dirent) : bool :=
  list_eqb N.eqb (d_name a) (d_name b) && objtype_eqb (d_type a) (d_type b) &&
  color_eqb (d_color a) (d_color b) && (d_left a =? d_left b) && (d_right a =? d_right b) &&
  (d_child a =? d_child b) && (d_clsid a =? d_clsid b) && (d_state a =? d_state b) &&
  (d_ctime a =? d_ctime b) && (d_mtime a =? d_mtime b) && (d_start a =? d_start b) &&
  (d_len a =? d_len b).

Lemma dirent_eqb_eq : forall a b, dirent_eqb a b = true -> a = b.
Proof.
  intros [n1 t1 c1 l1 r1 ch1 g1 s1 ct1 mt1 st1 ln1] [n2 t2 c2 l2 r2 ch2 g2 s2 ct2 mt2 st2 ln2] H.
  unfold dirent_eqb in H.
  cbn [d_name d_type d_color d_left d_right d_child d_clsid d_state d_ctime d_mtime d_start d_len] in H.
  repeat (apply andb_true_iff in H; destruct H as [H ?E]).
  apply StrictProofs.list_eqb_eq in H. apply N.eqb_eq in E, E0, E1, E2, E3, E4, E5, E6, E7.
  subst. f_equal.
  - destruct t1, t2; try discriminate E9; reflexivity.
  - destruct c1, c2; try discriminate E8; reflexivity.
Qed.

Definition relen_b (ds ds' : list dirent) : bool :=
  (lenN ds =? lenN ds') &&
  forallb (fun ie : N * dirent =>
             match nthN ds' (fst ie) with
             | Some e' =>
               dirent_eqb e' (set_start_len (snd ie) (d_start e') (d_len e')) &&
               (negb (objtype_eqb (d_type (snd ie)) TStorage) || (d_len e' =? d_len (snd ie))) &&
               (negb (objtype_eqb (d_type (snd ie)) TUnalloc) || dirent_eqb e' dirent_unallocated)
             | None => false
             end) (index_from ds 0).

Lemma relen_b_tidy : forall ds ds', relen_b ds ds' = true -> Tidy ds -> Tidy ds'.
Proof.
  intros ds ds' H HT. unfold relen_b in H. apply andb_true_iff in H. destruct H as [Hl H].
  apply N.eqb_eq in Hl. rewrite forallb_forall in H.
  assert (Hpt : forall j e, nthN ds j = Some e ->
            exists e', nthN ds' j = Some e' /\ HandleFrame.same_meta_ent e e' /\
              (d_type e = TStorage -> d_len e' = d_len e) /\
              (d_type e = TUnalloc -> e' = dirent_unallocated)).
  { intros j e He. assert (Hin : In (j, e) (index_from ds 0))
      by (replace j with (0 + j) by lia; apply index_from_In; exact He).
    specialize (H _ Hin). cbn [fst snd] in H. destruct (nthN ds' j) as [e'|]; [|discriminate H].
    apply andb_true_iff in H. destruct H as [H H3]. apply andb_true_iff in H. destruct H as [H1 H2].
    exists e'. split; [reflexivity|]. split; [exact (dirent_eqb_eq _ _ H1)|]. split.
    - intro Ht. rewrite Ht in H2. cbn in H2. apply N.eqb_eq. exact H2.
    - intro Ht. rewrite Ht in H3. cbn in H3. apply dirent_eqb_eq. exact H3. }
  apply (tidy_relen ds ds'); [| |exact HT].
  - intros j e He. destruct (Hpt j e He) as (e' & He' & Hm & Hs & _). exists e'. auto.
  - intros j e' He'. assert (Hj : j < lenN ds) by (rewrite Hl; eapply nthN_Some_lt; exact He').
    destruct (WalkProofs.nthN_lt_Some ds j Hj) as [e He]. exists e. split; [exact He|].
    intros ->. destruct (Hpt j _ He) as (e'' & He'' & _ & _ & Hu). rewrite He' in He''.
    injection He'' as <-. apply Hu. reflexivity.
Qed.

(* ================================================================== *)
(* 2a. non-vacuity: states produced by running the model               *)
(* ================================================================== *)

Module Examples.
  Fixpoint run (f : fstate) (ops : list op) : fstate * list (res value) :=
    match ops with
    | [] => (f, [])
    | o :: t => let '(f1, r) := step f 0 o in let '(f2, rs) := run f1 t in (f2, r :: rs)
    end.

  Definition bytesN (n : nat) : list byte := map (fun i => N.of_nat i mod 251 + 1) (seq 0 n).
  Definition pa : list N := [47; 97].   (* "/a" *)
  Definition pb : list N := [47; 98].   (* "/b" *)
  Definition pc : list N := [47; 99].   (* "/c" *)

  (* the namespace part first: the streams are created (handles 0, 1, 2) *)
  Definition mk_small := [OCreateNewStream 0 pa].
  Definition mk_large := [OCreateNewStream 1 pb].
  Definition mk_both := [OCreateNewStream 0 pa; OCreateNewStream 1 pb].
  Definition mk_three := [OCreateNewStream 0 pa; OCreateNewStream 1 pb; OCreateNewStream 2 pc].
  (* then data moves through the handles *)
  Definition wr_small := [OHWrite 0 (bytesN 100); OHFlush 0].
  (* 5000 bytes through the handle (the pieces are the short counts the
     buffered handle accepts; every call returns the full count, see
     [results_ok]), then one flush *)
  Definition wr_large :=
    [OHWrite 1 (bytesN 1024); OHWrite 1 (bytesN 1024); OHWrite 1 (bytesN 1024);
     OHWrite 1 (bytesN 1024); OHWrite 1 (bytesN 904); OHFlush 1].
  (* the same stream written and flushed piecewise: it starts in the mini
     stream and crosses the cutoff on the way *)
  Definition wr_cross :=
    [OHWrite 2 (bytesN 1000); OHFlush 2; OHWrite 2 (bytesN 1000); OHFlush 2;
     OHWrite 2 (bytesN 1000); OHFlush 2; OHWrite 2 (bytesN 1000); OHFlush 2;
     OHWrite 2 (bytesN 1000); OHFlush 2; OHWrite 2 (bytesN 1000); OHFlush 2].
  (* grow, shrink (free sectors), a third stream, shrink of a small stream
     (free mini sectors), large -> small, small -> large *)
  Definition churn :=
    [OHSetLen 1 9000; OHFlush 1; OHSetLen 1 4500; OHFlush 1;
     OHSetLen 2 0; OHFlush 2; OHSeek 2 WStart 0%Z; OHWrite 2 (bytesN 700); OHFlush 2; OHSetLen 2 200; OHFlush 2;
     OHSetLen 1 100; OHFlush 1; OHSetLen 2 5000; OHFlush 2].

  (* Tidy after the creations, by the theorems of WfPersist.v *)
  Lemma tidy_create : forall v, Tidy (dirs (create_state v)).
  Proof. intro v. exact (proj2 (proj2 (create_state_xinv v))). Qed.

  Lemma tidy_after_create : forall f i p f' r,
    Tidy (dirs (cs f)) -> lenN (dirs (cs f)) < MAX_REGULAR_STREAM_ID ->
    step f 0 (OCreateNewStream i p) = (f', r) -> r = Ok VUnit -> Tidy (dirs (cs f')).
  Proof.
    intros f i p f' r HT Hl H Hr. cbn [step] in H. unfold with_new_handle in H.
    destruct (api_create_stream p false (maxbuf f) 0 (cs f)) as [s' [h| | |]] eqn:E;
      injection H as <- <-; try discriminate Hr.
    cbn [cs]. exact (create_new_stream_tidy p (maxbuf f) 0 (cs f) s' h HT Hl E).
  Qed.

  Fixpoint tidy_creates (f : fstate) (l : list (N * list N)) : Prop :=
    match l with
    | [] => True
    | (i, p) :: t =>
      lenN (dirs (cs f)) < MAX_REGULAR_STREAM_ID /\
      snd (step f 0 (OCreateNewStream i p)) = Ok VUnit /\
      tidy_creates (fst (step f 0 (OCreateNewStream i p))) t
    end.

  Lemma run_creates_tidy : forall l f,
    Tidy (dirs (cs f)) -> tidy_creates f l ->
    Tidy (dirs (cs (fst (run f (map (fun ip => OCreateNewStream (fst ip) (snd ip)) l))))).
  Proof.
    induction l as [|[i p] t IH]; intros f HT H; [exact HT|].
    cbn [map run fst snd]. destruct H as (Hl & Hr & Ht).
    destruct (step f 0 (OCreateNewStream i p)) as [f1 r] eqn:E. cbn [fst snd] in *.
    specialize (IH f1 (tidy_after_create f i p f1 r HT Hl E Hr) Ht).
    destruct (run f1 _) as [f2 rs]. exact IH.
  Qed.

  (* a state reached by creations [mk] followed by handle operations [ops] *)
  Definition reach (v : version) (mk : list (N * list N)) (ops : list op) : cstate :=
    cs (fst (run (fst (run (init_fstate v 4096 4)
                           (map (fun ip => OCreateNewStream (fst ip) (snd ip)) mk))) ops)).

  Lemma reach_nil_tidy : forall v mk,
    tidy_creates (init_fstate v 4096 4) mk -> Tidy (dirs (reach v mk [])).
  Proof.
    intros v mk Hc. unfold reach. cbn [run fst]. apply run_creates_tidy; [apply tidy_create|exact Hc].
  Qed.

  Lemma reach_wf : forall v mk ops,
    tidy_creates (init_fstate v 4096 4) mk ->
    relen_b (dirs (reach v mk [])) (dirs (reach v mk ops)) = true ->
    dbase_b (reach v mk ops) = true -> dinv_b (reach v mk ops) = true ->
    DBase (reach v mk ops) /\ DInv (reach v mk ops) /\ Tidy (dirs (reach v mk ops)) /\
    wf_check (concat_img (img (reach v mk ops))) = 0.
  Proof.
    intros v mk ops Hc Hr Hb Hd.
    pose proof (dbase_b_sound _ Hb) as HB. pose proof (dinv_b_sound _ Hd) as HD.
    assert (HT : Tidy (dirs (reach v mk ops))).
    { apply (relen_b_tidy _ _ Hr). unfold reach. cbn [run fst].
      apply run_creates_tidy; [apply tidy_create|exact Hc]. }
    split; [exact HB|]. split; [exact HD|]. split; [exact HT|].
    exact (dinv_image_wf _ HB HD HT).
  Qed.

  Ltac by_running :=
    apply reach_wf; [vm_compute; repeat split; reflexivity|vm_compute; reflexivity..].

  Definition Good (s : cstate) : Prop :=
    DBase s /\ DInv s /\ Tidy (dirs s) /\ wf_check (concat_img (img s)) = 0.

  (* one small stream (100 bytes: two mini sectors, a MiniFAT, a mini stream) *)
  Example small_v3 : Good (reach V3 [(0, pa)] wr_small).
  Proof. by_running. Qed.
  Example small_v4 : Good (reach V4 [(0, pa)] wr_small).
  Proof. by_running. Qed.
  (* one large stream (5000 bytes: ten 512-byte sectors / two 4096-byte sectors) *)
  Example large_v3 : Good (reach V3 [(1, pb)] wr_large).
  Proof. by_running. Qed.
  Example large_v4 : Good (reach V4 [(1, pb)] wr_large).
  Proof. by_running. Qed.
  (* both *)
  Example both_v3 : Good (reach V3 [(0, pa); (1, pb)] (wr_small ++ wr_large)).
  Proof. by_running. Qed.
  Example both_v4 : Good (reach V4 [(0, pa); (1, pb)] (wr_small ++ wr_large)).
  Proof. by_running. Qed.
  (* growth, shrinking (free sectors, free mini sectors) and both migrations *)
  Example churn_v3 :
    Good (reach V3 [(0, pa); (1, pb); (2, pc)] (wr_small ++ wr_large ++ wr_cross ++ churn)).
  Proof. by_running. Qed.
  Example churn_v4 :
    Good (reach V4 [(0, pa); (1, pb); (2, pc)] (wr_small ++ wr_large ++ wr_cross ++ churn)).
  Proof. by_running. Qed.

  (* what the states look like, and the verdict of the checker by evaluation *)
  Definition shape (s : cstate) :=
    (fat s, minifat s, free s, mfree s, map (fun e => (d_type e, d_start e, d_len e)) (dirs s),
     wf_check (concat_img (img s))).
  Example results_ok :
    snd (run (fst (run (init_fstate V3 4096 4) mk_both)) (wr_small ++ wr_large)) =
    [Ok (VNum 100); Ok VUnit; Ok (VNum 1024); Ok (VNum 1024); Ok (VNum 1024); Ok (VNum 1024);
     Ok (VNum 904); Ok VUnit].
  Proof. vm_compute. reflexivity. Qed.
  Example both_v3_shape :
    shape (reach V3 [(0, pa); (1, pb)] (wr_small ++ wr_large)) =
    ([FAT_SECTOR; END_OF_CHAIN; END_OF_CHAIN; END_OF_CHAIN; 5; 6; 7; 8; 9; 10; 11; 12; 13; END_OF_CHAIN],
     [1; END_OF_CHAIN], [], [],
     [(TRoot, 3, 128); (TStream, 0, 100); (TStream, 4, 5000)], 0).
  Proof. vm_compute. reflexivity. Qed.
  Example both_v4_shape :
    shape (reach V4 [(0, pa); (1, pb)] (wr_small ++ wr_large)) =
    ([FAT_SECTOR; END_OF_CHAIN; END_OF_CHAIN; END_OF_CHAIN; 5; END_OF_CHAIN],
     [1; END_OF_CHAIN], [], [],
     [(TRoot, 3, 128); (TStream, 0, 100); (TStream, 4, 5000)], 0).
  Proof. vm_compute. reflexivity. Qed.
  Eval vm_compute in
    (snd (run (fst (run (init_fstate V3 4096 4) mk_three)) (wr_small ++ wr_large ++ wr_cross ++ churn)),
     shape (reach V3 [(0, pa); (1, pb); (2, pc)] (wr_small ++ wr_large ++ wr_cross ++ churn))).
End Examples.

(* ================================================================== *)
(* 3. preservation                                                     *)
(* ================================================================== *)

Lemma chain_transfer : forall tbl tbl' st ids,
  chain_ids_of tbl st = Ok ids -> lenN tbl <= lenN tbl' ->
  (forall x, In x ids -> nthN tbl' x = nthN tbl x) -> chain_ids_of tbl' st = Ok ids.
Proof.
  intros tbl tbl' st ids H Hl Hx. apply WalkProofs.chain_ids_of_path; [|exact (chain_ids_nodup _ _ _ H)].
  apply (StoreProofs.path_ext_le tbl); [apply WalkProofs.chain_ids_path; exact H|exact Hl|exact Hx].
Qed.

Lemma fowner_eq_dec : forall o o' : fowner, {o = o'} + {o <> o'}.
Proof. decide equality. apply N.eq_dec. Qed.

(* ---- 3.0 the general step for a stream that is large or empty before and
   after: its FAT chain [oldids] becomes [newids]; new members were free (or
   beyond the table), dropped members become free, every other FAT cell, the
   MiniFAT and every other entry stay ---- *)
Section BigChange.
Variables s s' : cstate.
Variables (id : N) (e : dirent) (st' ln' : N) (oldids newids : list N).
Hypothesis HC : Coherent s.
Hypothesis HD : DInv s.
Hypothesis Hid : id <> ROOT_STREAM_ID.
Hypothesis He : nthN (dirs s) id = Some e.
Hypothesis Ht : d_type e = TStream.
Hypothesis Hold : (d_len e = 0 /\ oldids = []) \/
                  (MINI_STREAM_CUTOFF <= d_len e /\ chain_ids_of (fat s) (d_start e) = Ok oldids).
Hypothesis Hnew : (ln' = 0 /\ st' = END_OF_CHAIN /\ newids = []) \/
                  (MINI_STREAM_CUTOFF <= ln' /\ chain_ids_of (fat s') st' = Ok newids /\
                   lenN newids = ceil_div ln' (slen s)).
Hypothesis Hslen : slen s' = slen s.
Hypothesis Hdifat : difat s' = difat s.
Hypothesis Hds : dir_start s' = dir_start s.
Hypothesis Hms : minifat_start s' = minifat_start s.
Hypothesis Hmf : minifat s' = minifat s.
Hypothesis Hdirs : dirs s' = updN (dirs s) id (set_start_len e st' ln').
Hypothesis Hlen : lenN (fat s) <= lenN (fat s').
Hypothesis Hframe : forall x, ~ In x oldids -> ~ In x newids -> nthN (fat s') x = nthN (fat s) x.
Hypothesis Hfresh : forall x, In x newids ->
  In x oldids \/ (forall v, nthN (fat s) x = Some v -> v = FREE_SECTOR).
Hypothesis Hfreed : forall x, In x oldids -> ~ In x newids ->
  forall v, nthN (fat s') x = Some v -> v = FREE_SECTOR.

Let e' := set_start_len e st' ln'.

Lemma bc_id : nthN (dirs s') id = Some e'.
Proof. rewrite Hdirs. apply nthN_updN_same. eapply nthN_Some_lt. exact He. Qed.

Lemma bc_other : forall j, j <> id -> nthN (dirs s') j = nthN (dirs s) j.
Proof. intros j Hj. rewrite Hdirs. apply nthN_updN_other. congruence. Qed.

Lemma bc_old : forall x, fowns s (OBig id) x <-> In x oldids.
Proof.
  intro x. cbn [fowns]. split.
  - intros (e0 & ids & He0 & _ & Hb & Hc & Hx). assert (e0 = e) by congruence. subst e0.
    destruct Hold as [[Hl _]|[_ Hc']]; [unfold MINI_STREAM_CUTOFF in Hb; lia|]. congruence.
  - intro Hx. destruct Hold as [[_ ->]|[Hb Hc]]; [destruct Hx|]. exists e, oldids. auto.
Qed.

Lemma bc_new : forall x, fowns s' (OBig id) x <-> In x newids.
Proof.
  intro x. cbn [fowns]. split.
  - intros (e0 & ids & He0 & _ & Hb & Hc & Hx). rewrite bc_id in He0. injection He0 as <-.
    cbn [e' set_start_len d_len d_start] in Hb, Hc.
    destruct Hnew as [(Hl & _)|(_ & Hc' & _)]; [unfold MINI_STREAM_CUTOFF in Hb; lia|]. congruence.
  - intro Hx. destruct Hnew as [(_ & _ & ->)|(Hb & Hc & _)]; [destruct Hx|].
    exists e', newids. split; [exact bc_id|]. split; [exact Ht|]. auto.
Qed.

(* a chain of [s] that avoids the old chain is a chain of [s'] *)
Lemma bc_chain : forall st ids, chain_ids_of (fat s) st = Ok ids ->
  (forall x, In x ids -> ~ In x oldids) -> chain_ids_of (fat s') st = Ok ids.
Proof.
  intros st ids Hc Hdis. apply (chain_transfer (fat s)); [exact Hc|exact Hlen|].
  intros x Hx. apply Hframe; [exact (Hdis x Hx)|]. intro Hn.
  destruct (Hfresh x Hn) as [Ho|Hf]; [exact (Hdis x Hx Ho)|].
  destruct (chain_cell _ _ _ _ Hc Hx) as (v & Hv & Hr). specialize (Hf v Hv). markers. lia.
Qed.

Lemma bc_dis : forall o x, o <> OBig id -> fowns s o x -> ~ In x oldids.
Proof.
  intros o x Hne Ho Hin. apply Hne. apply (di_fat_uniq s HD o (OBig id) x Ho). apply bc_old. exact Hin.
Qed.

Lemma bc_others : forall o x, o <> OBig id -> (fowns s' o x <-> fowns s o x).
Proof.
  intros o x Hne. destruct o as [| | | |j]; cbn [fowns].
  - rewrite Hdifat. tauto.
  - destruct (ch_dir s HC) as (dids & Hdids & _). unfold DirCoherence.dir_ids in Hdids.
    assert (Hc' : chain_ids_of (fat s') (dir_start s') = Ok dids).
    { rewrite Hds. apply bc_chain; [exact Hdids|]. intros y Hy. apply (bc_dis ODir); [discriminate|].
      exists dids. auto. }
    split; intros (ids & Hc & Hx); exists dids; (split; [assumption|congruence]).
  - destruct (di_root s HD) as (_ & _ & mids & _ & _ & Hmids & _).
    assert (Hc' : chain_ids_of (fat s') (minifat_start s') = Ok mids).
    { rewrite Hms. apply bc_chain; [exact Hmids|]. intros y Hy. apply (bc_dis OMfat); [discriminate|].
      exists mids. auto. }
    split; intros (ids & Hc & Hx); exists mids; (split; [assumption|congruence]).
  - destruct (di_root s HD) as (r & rids & _ & Hr & Hrids & _).
    assert (Hr' : nthN (dirs s') ROOT_STREAM_ID = Some r) by (rewrite bc_other by congruence; exact Hr).
    assert (Hc' : chain_ids_of (fat s') (d_start r) = Ok rids).
    { apply bc_chain; [exact Hrids|]. intros y Hy. apply (bc_dis ORoot); [discriminate|].
      exists r, rids. auto. }
    split; intros (r0 & ids & Hr0 & Hc & Hx); exists r, rids;
      (split; [assumption|split; [assumption|congruence]]).
  - assert (Hj : j <> id) by (intro E; apply Hne; rewrite E; reflexivity).
    split; intros (e0 & ids & He0 & Ht0 & Hb & Hc & Hx).
    + rewrite bc_other in He0 by exact Hj.
      destruct (di_big s HD j e0 He0 Ht0 Hb) as (l & Hl & _).
      assert (Hc' : chain_ids_of (fat s') (d_start e0) = Ok l).
      { apply bc_chain; [exact Hl|]. intros y Hy. apply (bc_dis (OBig j)); [exact Hne|].
        exists e0, l. auto. }
      exists e0, l. repeat (split; [assumption|]). congruence.
    + assert (Hc' : chain_ids_of (fat s') (d_start e0) = Ok ids).
      { apply bc_chain; [exact Hc|]. intros y Hy. apply (bc_dis (OBig j)); [exact Hne|].
        exists e0, ids. auto. }
      exists e0, ids. rewrite bc_other by exact Hj. auto.
Qed.

Lemma bc_mowns : forall i x, mowns s' i x <-> mowns s i x.
Proof.
  intros i x. unfold mowns. rewrite Hmf. destruct (N.eq_dec i id) as [->|Hi].
  - split; intros (e0 & ids & He0 & _ & Hp & Hb & _); exfalso.
    + rewrite bc_id in He0. injection He0 as <-. cbn [e' set_start_len d_len] in Hp, Hb.
      destruct Hnew as [(Hl & _)|(Hl & _)]; lia.
    + assert (e0 = e) by congruence. subst e0. destruct Hold as [[Hl _]|[Hl _]]; lia.
  - rewrite bc_other by exact Hi. tauto.
Qed.

Theorem big_change_dinv : DInv s'.
Proof.
  constructor.
  - destruct (di_root s HD) as (r & rids & mids & Hr & Hrids & Hmids & Hmod & Hcap & Hmcap & Hreg).
    exists r, rids, mids. rewrite Hslen.
    split; [rewrite bc_other by congruence; exact Hr|].
    split. { apply bc_chain; [exact Hrids|]. intros y Hy. apply (bc_dis ORoot); [discriminate|].
             exists r, rids. auto. }
    split. { rewrite Hms. apply bc_chain; [exact Hmids|]. intros y Hy. apply (bc_dis OMfat); [discriminate|].
             exists mids. auto. }
    auto.
  - intros j e0 He0 Ht0 Hl. destruct (N.eq_dec j id) as [->|Hj].
    + rewrite bc_id in He0. injection He0 as <-. cbn [e' set_start_len d_len d_start] in *.
      destruct Hnew as [(_ & Hs & _)|(Hb & _)]; [exact Hs|unfold MINI_STREAM_CUTOFF in Hb; lia].
    + rewrite bc_other in He0 by exact Hj. exact (di_empty s HD j e0 He0 Ht0 Hl).
  - intros j e0 He0 Ht0 Hb. rewrite Hslen. destruct (N.eq_dec j id) as [->|Hj].
    + rewrite bc_id in He0. injection He0 as <-. cbn [e' set_start_len d_len d_start] in *.
      destruct Hnew as [(Hl & _)|(_ & Hc & Hlen')]; [unfold MINI_STREAM_CUTOFF in Hb; lia|].
      exists newids. auto.
    + rewrite bc_other in He0 by exact Hj.
      destruct (di_big s HD j e0 He0 Ht0 Hb) as (l & Hl & Hlen'). exists l. split; [|exact Hlen'].
      apply bc_chain; [exact Hl|]. intros y Hy. apply (bc_dis (OBig j)).
      * intro E. injection E as E. contradiction.
      * exists e0, l. auto.
  - intros j e0 He0 Ht0 Hp Hb. rewrite Hmf. destruct (N.eq_dec j id) as [->|Hj].
    + rewrite bc_id in He0. injection He0 as <-. cbn [e' set_start_len d_len] in *.
      destruct Hnew as [(Hl & _)|(Hl & _)]; lia.
    + rewrite bc_other in He0 by exact Hj. exact (di_small s HD j e0 He0 Ht0 Hp Hb).
  - intros o o' x Ho Ho'.
    destruct (fowner_eq_dec o (OBig id)) as [->|Hne]; destruct (fowner_eq_dec o' (OBig id)) as [->|Hne'].
    + reflexivity.
    + exfalso. apply bc_new in Ho. apply (bc_others o' x Hne') in Ho'.
      destruct (Hfresh x Ho) as [Hin|Hf].
      * exact (bc_dis o' x Hne' Ho' Hin).
      * destruct (fowns_cell s o' x HC Ho') as (v & Hv & Hnf & _). exact (Hnf (Hf v Hv)).
    + exfalso. apply bc_new in Ho'. apply (bc_others o x Hne) in Ho.
      destruct (Hfresh x Ho') as [Hin|Hf].
      * exact (bc_dis o x Hne Ho Hin).
      * destruct (fowns_cell s o x HC Ho) as (v & Hv & Hnf & _). exact (Hnf (Hf v Hv)).
    + apply (bc_others o x Hne) in Ho. apply (bc_others o' x Hne') in Ho'.
      exact (di_fat_uniq s HD o o' x Ho Ho').
  - intros x v Hv Hnf. destruct (in_dec N.eq_dec x newids) as [Hn|Hn].
    + exists (OBig id). apply bc_new. exact Hn.
    + destruct (in_dec N.eq_dec x oldids) as [Ho|Ho]; [exfalso; exact (Hnf (Hfreed x Ho Hn v Hv))|].
      rewrite (Hframe x Ho Hn) in Hv. destruct (di_fat_cover s HD x v Hv Hnf) as (o & Hown).
      exists o. apply bc_others; [|exact Hown]. intros ->. apply Ho. apply bc_old. exact Hown.
  - intros i j x Hi Hj. apply bc_mowns in Hi, Hj. exact (di_mini_uniq s HD i j x Hi Hj).
  - intros x v Hv Hnf. rewrite Hmf in Hv. destruct (di_mini_cover s HD x v Hv Hnf) as (i & Hi).
    exists i. apply bc_mowns. exact Hi.
Qed.
End BigChange.

(* ---- 3.0' a small stream whose mini chain stays: only its length changes,
   within the same number of mini sectors; no table changes ---- *)
Section SmallSame.
Variables s s' : cstate.
Variables (id : N) (e : dirent) (ln' : N).
Hypothesis HD : DInv s.
Hypothesis Hid : id <> ROOT_STREAM_ID.
Hypothesis He : nthN (dirs s) id = Some e.
Hypothesis Ht : d_type e = TStream.
Hypothesis Hold : 0 < d_len e /\ d_len e < MINI_STREAM_CUTOFF.
Hypothesis Hnew : 0 < ln' /\ ln' < MINI_STREAM_CUTOFF.
Hypothesis Hceil : ceil_div ln' MINI_SECTOR_LEN = ceil_div (d_len e) MINI_SECTOR_LEN.
Hypothesis Hslen : slen s' = slen s.
Hypothesis Hdifat : difat s' = difat s.
Hypothesis Hfat : fat s' = fat s.
Hypothesis Hds : dir_start s' = dir_start s.
Hypothesis Hms : minifat_start s' = minifat_start s.
Hypothesis Hmf : minifat s' = minifat s.
Hypothesis Hdirs : dirs s' = updN (dirs s) id (set_start_len e (d_start e) ln').

Let e' := set_start_len e (d_start e) ln'.

Lemma ss_id : nthN (dirs s') id = Some e'.
Proof. rewrite Hdirs. apply nthN_updN_same. eapply nthN_Some_lt. exact He. Qed.

Lemma ss_other : forall j, j <> id -> nthN (dirs s') j = nthN (dirs s) j.
Proof. intros j Hj. rewrite Hdirs. apply nthN_updN_other. congruence. Qed.

Lemma ss_fowns : forall o x, fowns s' o x <-> fowns s o x.
Proof.
  intros o x. destruct o as [| | | |j]; cbn [fowns]; rewrite ?Hdifat, ?Hfat, ?Hds, ?Hms; try tauto.
  - rewrite ss_other by congruence. tauto.
  - destruct (N.eq_dec j id) as [->|Hj]; [|rewrite ss_other by exact Hj; tauto].
    split; intros (e0 & ids & He0 & _ & Hb & _); exfalso.
    + rewrite ss_id in He0. injection He0 as <-. cbn [e' set_start_len d_len] in Hb. lia.
    + assert (e0 = e) by congruence. subst e0. lia.
Qed.

Lemma ss_mowns : forall i x, mowns s' i x <-> mowns s i x.
Proof.
  intros i x. unfold mowns. rewrite Hmf. destruct (N.eq_dec i id) as [->|Hi].
  - split; intros (e0 & ids & He0 & _ & _ & _ & Hc & Hx).
    + rewrite ss_id in He0. injection He0 as <-. cbn [e' set_start_len d_start] in Hc.
      exists e, ids. repeat split; try assumption; lia.
    + assert (e0 = e) by congruence. subst e0. exists e', ids. rewrite ss_id.
      cbn [e' set_start_len d_type d_len d_start]. repeat split; try assumption; lia.
  - rewrite ss_other by exact Hi. tauto.
Qed.

Theorem small_same_dinv : DInv s'.
Proof.
  constructor.
  - destruct (di_root s HD) as (r & rids & mids & Hr & Hrids & Hmids & Hrest).
    exists r, rids, mids. rewrite Hslen, Hfat, Hms. rewrite ss_other by congruence. auto.
  - intros j e0 He0 Ht0 Hl. destruct (N.eq_dec j id) as [->|Hj].
    + rewrite ss_id in He0. injection He0 as <-. cbn [e' set_start_len d_len] in Hl. lia.
    + rewrite ss_other in He0 by exact Hj. exact (di_empty s HD j e0 He0 Ht0 Hl).
  - intros j e0 He0 Ht0 Hb. rewrite Hslen, Hfat. destruct (N.eq_dec j id) as [->|Hj].
    + rewrite ss_id in He0. injection He0 as <-. cbn [e' set_start_len d_len] in Hb. lia.
    + rewrite ss_other in He0 by exact Hj. exact (di_big s HD j e0 He0 Ht0 Hb).
  - intros j e0 He0 Ht0 Hp Hb. rewrite Hmf. destruct (N.eq_dec j id) as [->|Hj].
    + rewrite ss_id in He0. injection He0 as <-. cbn [e' set_start_len d_len d_start] in *.
      rewrite Hceil. apply (di_small s HD id e He Ht); lia.
    + rewrite ss_other in He0 by exact Hj. exact (di_small s HD j e0 He0 Ht0 Hp Hb).
  - intros o o' x Ho Ho'. apply ss_fowns in Ho, Ho'. exact (di_fat_uniq s HD o o' x Ho Ho').
  - intros x v Hv Hnf. rewrite Hfat in Hv. destruct (di_fat_cover s HD x v Hv Hnf) as (o & Ho).
    exists o. apply ss_fowns. exact Ho.
  - intros i j x Hi Hj. apply ss_mowns in Hi, Hj. exact (di_mini_uniq s HD i j x Hi Hj).
  - intros x v Hv Hnf. rewrite Hmf in Hv. destruct (di_mini_cover s HD x v Hv Hnf) as (i & Hi).
    exists i. apply ss_mowns. exact Hi.
Qed.
End SmallSame.

(* ---- arithmetic of exact chain lengths ---- *)
Lemma ceil_same_512 : forall d l n, n = ceil_div d 512 -> d <= l -> l <= 512 * n -> ceil_div l 512 = n.
Proof. intros d l n. unfold ceil_div. lia. Qed.
Lemma ceil_same_4096 : forall d l n, n = ceil_div d 4096 -> d <= l -> l <= 4096 * n -> ceil_div l 4096 = n.
Proof. intros d l n. unfold ceil_div. lia. Qed.
Lemma ceil_same_64 : forall d l n, n = ceil_div d 64 -> d <= l -> l <= 64 * n -> ceil_div l 64 = n.
Proof. intros d l n. unfold ceil_div. lia. Qed.

Lemma ceil_same : forall s d l n, n = ceil_div d (slen s) -> d <= l -> l <= slen s * n ->
  ceil_div l (slen s) = n.
Proof.
  intros s d l n. destruct (MiniChainProofs.slen_cases s) as [E|E]; rewrite E;
    [apply ceil_same_512|apply ceil_same_4096].
Qed.

Lemma ceil_tight : forall s l n, 0 < l -> l <= slen s * n -> slen s * n < l + slen s ->
  ceil_div l (slen s) = n.
Proof.
  intros s l n. unfold ceil_div. destruct (MiniChainProofs.slen_cases s) as [E|E]; rewrite E; lia.
Qed.

Lemma coherent_root_type : forall s r, Coherent s -> nthN (dirs s) ROOT_STREAM_ID = Some r -> d_type r = TRoot.
Proof. intros s r C Hr. exact (DataPersist.valid_root_type _ _ _ (ch_dir_valid s C) Hr). Qed.

Lemma stream_not_root : forall s id e, Coherent s -> nthN (dirs s) id = Some e -> d_type e = TStream ->
  id <> ROOT_STREAM_ID.
Proof.
  intros s id e C He Ht ->. rewrite (coherent_root_type s e C He) in Ht. discriminate Ht.
Qed.

(* ---- 3a. write_data / resize that allocate nothing (the covered cases of
   HandleFrame.v / DataPersist.v: inside the capacity of the chain) ---- *)
Import HandleFrame StoreProofs StoreMiniProofs.

Lemma quiet_big_dinv : forall s s' id e ids ln W,
  Coherent s -> DInv s -> nthN (dirs s) id = Some e -> big_ids s id ids ->
  Quiet s s' id e ln W -> MINI_STREAM_CUTOFF <= ln -> ceil_div ln (slen s) = lenN ids -> DInv s'.
Proof.
  intros s s' id e ids ln W C HD He (e0 & He0 & Ht & Hb & Hc) HQ Hln Hceil.
  assert (e0 = e) by congruence. subst e0.
  destruct (Quiet_fields _ _ _ _ _ _ HQ) as (Q1 & Q2 & Q3 & Q4 & Q5 & Q6 & Q7 & Q8 & Q9 & Q10 & Q11 & Q12).
  apply (big_change_dinv s s' id e (d_start e) ln ids ids C HD (stream_not_root s id e C He Ht) He Ht);
    try assumption.
  - right. auto.
  - right. rewrite Q5. auto.
  - rewrite Q5. lia.
  - intros x _ _. rewrite Q5. reflexivity.
  - intros x Hx. left. exact Hx.
  - intros x Hx Hn. contradiction.
Qed.

Lemma quiet_small_dinv : forall s s' id e rids mids V ln W,
  Coherent s -> DInv s -> small_at s id e rids mids V ->
  Quiet s s' id e ln W -> 0 < ln -> ln < MINI_STREAM_CUTOFF ->
  ceil_div ln MINI_SECTOR_LEN = lenN mids -> DInv s'.
Proof.
  intros s s' id e rids mids V ln W C HD (He & Ht & Hcut & Hpos & Hch & _) HQ Hp Hc Hceil.
  destruct (Quiet_fields _ _ _ _ _ _ HQ) as (Q1 & Q2 & Q3 & Q4 & Q5 & Q6 & Q7 & Q8 & Q9 & Q10 & Q11 & Q12).
  destruct (di_small s HD id e He Ht Hpos Hcut) as (m & Hm & Hml).
  assert (m = mids) by congruence. subst m.
  apply (small_same_dinv s s' id e ln HD (stream_not_root s id e C He Ht) He Ht);
    try assumption; try lia; congruence.
Qed.

Theorem covered_write_dinv : forall s id off buf,
  DataPersist.CohData s -> DInv s -> CoveredWrite s id off buf -> DataPersist.LenFits s (off + lenN buf) ->
  exists s', write_data id off buf s = (s', Ok tt) /\ DataPersist.CohData s' /\ DInv s'.
Proof.
  intros s id off buf HCD HD HCW Hfit.
  destruct (DataPersist.write_data_cohdata s id off buf HCD HCW Hfit) as (s' & Hrun & HCD' & _).
  exists s'. split; [exact Hrun|]. split; [exact HCD'|].
  destruct HCD as [C HA].
  destruct HCW as [(V & ids & HB & Hsi & Hoff & Hcap & Hbounds)|(e & rids & mids & V & Hsm & Hoff & Hcap & Hcut)].
  - destruct (big_content_ids s id V ids HB Hsi) as (e & He & Hbig).
    destruct (sw_dir s (aw_store s HA)) as (dids & Hd & _).
    destruct (write_big_quiet s id V ids dids e off buf HB Hsi (aw_store s HA) He Hd Hoff Hcap Hbounds)
      as (s1 & Hrun1 & HQ).
    rewrite Hrun in Hrun1. injection Hrun1 as <-.
    pose proof Hbig as (e0 & He0 & Ht & Hb & Hc). assert (e0 = e) by congruence. subst e0.
    destruct (di_big s HD id e He Ht Hb) as (l & Hl & Hlen). assert (l = ids) by congruence. subst l.
    pose proof (big_content_len _ _ _ _ HB He) as HlV.
    apply (quiet_big_dinv s s' id e ids _ _ C HD He Hbig HQ); [lia|].
    assert (Hle : d_len e <= slen s * lenN ids).
    { destruct HB as (eb & idsb & Heb & _ & _ & Hcb & _ & Hleb & _).
      assert (eb = e) by congruence. subst eb. assert (idsb = ids) by congruence. subst idsb. exact Hleb. }
    apply (ceil_same s (d_len e)); [exact Hlen|lia|lia].
  - pose proof Hsm as (He & Ht & Hcute & Hpos & Hch & _ & Hle & _).
    destruct (sw_dir s (aw_store s HA)) as (dids & Hd & _).
    pose proof (small_at_lenV _ _ _ _ _ _ Hsm) as HlenV.
    destruct (write_small_quiet s id e rids mids dids V off buf Hsm
                (asw_dirwritable s id e HA He) Hd Hoff Hcap Hcut) as (s1 & Hrun1 & _ & HQ).
    rewrite Hrun in Hrun1. injection Hrun1 as <-.
    destruct (di_small s HD id e He Ht Hpos Hcute) as (m & Hm & Hml).
    assert (m = mids) by congruence. subst m.
    apply (quiet_small_dinv s s' id e rids mids V _ _ C HD Hsm HQ); [lia|lia|].
    apply (ceil_same_64 (d_len e)); [exact Hml|lia|lia].
Qed.

Theorem covered_resize_dinv : forall s id n,
  DataPersist.CohData s -> DInv s -> CoveredResize s id n -> DataPersist.LenFits s n ->
  exists s', resize id n s = (s', Ok tt) /\ DataPersist.CohData s' /\ DInv s'.
Proof.
  intros s id n HCD HD HCR Hfit.
  destruct (DataPersist.resize_cohdata s id n HCD HCR Hfit) as (s' & Hrun & HCD' & _).
  exists s'. split; [exact Hrun|]. split; [exact HCD'|].
  destruct HCD as [C HA].
  destruct HCR as [(V & ids & HB & Hsi & Hn & Hcap & Htight & Hmax & Hmask)|(e & rids & mids & V & Hsm & H0 & Hceil & Hcut)].
  - destruct (big_content_ids s id V ids HB Hsi) as (e & He & Hbig).
    destruct (sw_dir s (aw_store s HA)) as (dids & Hd & _).
    destruct (resize_big_quiet s id V ids dids e n HB Hsi (aw_store s HA) He Hd Hn Hcap Htight Hmax Hmask)
      as (s1 & Hrun1 & HQ).
    rewrite Hrun in Hrun1. injection Hrun1 as <-.
    apply (quiet_big_dinv s s' id e ids _ _ C HD He Hbig HQ Hn).
    apply ceil_tight; [unfold MINI_STREAM_CUTOFF in Hn; lia|exact Hcap|exact Htight].
  - pose proof Hsm as (He & _).
    destruct (sw_dir s (aw_store s HA)) as (dids & Hd & _).
    destruct (resize_small_quiet s id e rids mids dids V n Hsm
                (asw_dirwritable s id e HA He) Hd H0 Hceil Hcut) as (s1 & Hrun1 & _ & HQ).
    rewrite Hrun in Hrun1. injection Hrun1 as <-.
    apply (quiet_small_dinv s s' id e rids mids V _ _ C HD Hsm HQ H0 Hcut).
    rewrite <- Hceil. unfold ceil_div, MINI_SECTOR_LEN. f_equal. lia.
Qed.

(* ---- FAT-level operations never touch the MiniFAT, its start, the mini free
   list, the table, the directory start, the version ---- *)
Ltac pose_keeps :=
  pose proof StoreAlloc.keeps_seek_sector; pose proof StoreAlloc.keeps_sector_write;
  pose proof StoreAlloc.keeps_init_sector; pose proof StoreAlloc.keeps_set_fat;
  pose proof StoreAlloc.keeps_free_sector; pose proof StoreAlloc.keeps_next;
  pose proof StoreAlloc.keeps_free_chain_go; pose proof StoreAlloc.keeps_free_chain;
  pose proof StoreAlloc.keeps_header_write; pose proof StoreAlloc.keeps_append_fat_sector;
  pose proof StoreAlloc.keeps_allocate_sector; pose proof StoreAlloc.keeps_extend_chain.

Lemma keeps_chain_new : forall st i, StoreAlloc.keeps (chain_new st i).
Proof. intros. unfold chain_new. repeat StoreAlloc.keeps_step. Qed.

Lemma keeps_chain_grow : forall n c, StoreAlloc.keeps (chain_grow n c).
Proof.
  induction n as [|n IH]; intro c; cbn [chain_grow].
  - apply StoreAlloc.keeps_const.
  - pose_keeps. unfold begin_chain. repeat StoreAlloc.keeps_step.
Qed.

Lemma keeps_free_chain_after : forall sid, StoreAlloc.keeps (free_chain_after sid).
Proof. intros. unfold free_chain_after. pose_keeps. repeat StoreAlloc.keeps_step. Qed.

Lemma keeps_chain_set_len : forall c n, StoreAlloc.keeps (chain_set_len c n).
Proof.
  intros. unfold chain_set_len. pose_keeps.
  pose proof keeps_free_chain_after. pose proof keeps_chain_grow. repeat StoreAlloc.keeps_step.
Qed.

Lemma safe_free_cells : forall s x, WalkSafe.Safe s -> In x (free s) -> nthN (fat s) x = Some FREE_SECTOR.
Proof. intros s x [_ [_ H]] Hx. exact (H x Hx). Qed.

Lemma In_takeN_dropN : forall A (l : list A) n x, In x l -> In x (takeN n l) \/ In x (dropN n l).
Proof.
  intros A l n x H. rewrite <- (ChainProofs.takeN_dropN_id _ l n) in H. apply in_app_or in H. exact H.
Qed.

Lemma ceil_div_comm : forall n sl, ceil_div n sl = (sl + n - 1) / sl.
Proof. intros. unfold ceil_div. f_equal. lia. Qed.

(* ---- 3c. a large stream shrinks to a large length that needs fewer sectors:
   the tail of its chain goes to the free stack; the freed cells are FREE and
   lose their owner ---- *)
Theorem resize_big_shrink_dinv : forall s id V ids new_len,
  Coherent s -> DInv s -> WalkSafe.Safe s ->
  big_content s id V -> stream_ids s id ids -> StoreWf s ->
  MINI_STREAM_CUTOFF <= new_len ->
  (slen s + new_len - 1) / slen s < lenN ids ->
  new_len <= MAX_REGULAR_SECTOR * slen s ->
  new_len <= stream_len_mask (ver s) ->
  exists s',
    resize id new_len s = (s', Ok tt) /\ DInv s' /\ WalkSafe.Safe s' /\
    free s' = free s ++ dropN ((slen s + new_len - 1) / slen s) ids /\
    (forall x, In x (dropN ((slen s + new_len - 1) / slen s) ids) -> nthN (fat s') x = Some FREE_SECTOR) /\
    stream_ids s' id (takeN ((slen s + new_len - 1) / slen s) ids).
Proof.
  intros s id V ids new_len C HD HS HB Hsi Hwf Hnl Hlt Hmax Hmask.
  pose proof (slen_pos s) as Hsp.
  assert (Hnl0 : 0 < new_len) by (rewrite CUTOFF_val in Hnl; lia).
  destruct (ceil_props (slen s) new_len Hsp Hnl0) as [Hc1 Hc2].
  set (n' := (slen s + new_len - 1) / slen s) in *.
  assert (Hfit : new_len <= slen s * lenN ids) by nia.
  pose proof Hsi as (e0 & He0 & _ & Hc0).
  pose proof HB as (e & ids' & He & Ht & Hcut & Hc & Hg & Hle & HV).
  rewrite He in He0. injection He0 as <-. rewrite Hc in Hc0. injection Hc0 as ->.
  destruct (chain_ids_head _ _ _ Hc (ids_nonempty s ids _ Hcut Hle)) as (Hst & t & Eids).
  pose proof (WalkProofs.chain_ids_path _ _ _ Hc) as Hp.
  pose proof (ReuseProofs.path_nodup _ _ _ Hp) as Hnd.
  assert (HF : Forall (fun x => x < nsect s) ids).
  { destruct Hg as (_ & HF & _). eapply Forall_impl; [|exact HF]. cbv beta. tauto. }
  assert (Hbig : big_ids s id ids) by (exists e; ReuseProofs.csplit; assumption).
  destruct (sw_dir s Hwf) as (dids & Hd & Hgd & Hroom).
  pose proof (sw_dir_disj s Hwf id ids dids Hbig Hd) as Hdisj.
  pose proof (overflow_ok s ids new_len Hwf Hg Hfit) as Hov.
  (* Chain::set_len *)
  destruct (chain_set_len_shrink s (d_start e) IZero ids 0 new_len n' (sw_alloc s Hwf) Hp HF
              Hnl0 Hov eq_refl Hlt)
    as (s1 & Hset & W1 & M1 & F1 & P1 & T1 & B1).
  pose proof (meta_same_slen _ _ M1) as Hsl1.
  pose proof M1 as (Mv & Mn & Mdifat & Mdirs & Mds & Mimg & Mfl).
  destruct (StoreAlloc.Q_fields s s1 (keeps_chain_set_len _ _ _ _ _ Hset))
    as (K1 & K2 & K3 & _).
  pose proof (WalkSafe.chain_set_len_preserves (mkChain IZero ids 0) new_len s HS) as S1.
  rewrite Hset in S1. cbn [fst] in S1.
  (* the exact length of the old chain: nothing to zero-fill *)
  destruct (di_big s HD id e He Ht Hcut) as (l & Hl & Hlen). assert (l = ids) by congruence. subst l.
  assert (Hold : new_len <= d_len e).
  { rewrite ceil_div_comm in Hlen.
    destruct (ceil_props (slen s) (d_len e) Hsp ltac:(rewrite CUTOFF_val in Hcut; lia)) as [_ Hd2].
    rewrite <- Hlen in Hd2. nia. }
  (* the entry *)
  set (kept := takeN n' ids) in *.
  assert (Hdir1 : dir_ids s1 dids).
  { unfold dir_ids in *. rewrite Mds.
    pose proof (WalkProofs.chain_ids_path _ _ _ Hd) as Hpd.
    apply WalkProofs.chain_ids_of_path; [|eapply ReuseProofs.path_nodup; exact Hpd].
    apply (StoreProofs.path_ext (fat s)); [exact Hpd | exact Mfl |].
    intros x Hx. apply T1. intro Hin. exact (Hdisj x Hin Hx). }
  assert (Hgd1 : good_chain s1 dids).
  { destruct Hgd as (Hndd & HFd & _). apply good_chain_of_wf; [exact W1 | exact Hndd |].
    eapply Forall_impl; [|exact HFd]. cbv beta. intros a [Ha _]. rewrite Mn. exact Ha. }
  pose proof (nthN_Some_lt _ _ _ _ He) as Hidlt.
  destruct (update_entry_exec s1 id e (d_start e) new_len dids)
    as (s' & Hu & Hdirs' & Hsh' & Hmf' & Hmfr' & _ & _); try assumption.
  { rewrite Mdirs. exact He. }
  { eapply sw_names; eassumption. }
  { rewrite Hsl1. rewrite DEL_val in *. lia. }
  pose proof Hsh' as (Zn & Zv & Zi & Zl & Zfat & Zfree & Zdifat & Zds & Zms).
  exists s'.
  assert (Hrun : resize id new_len s = (s', Ok tt)).
  { unfold resize.
    rewrite (ReuseProofs.bind_exec _ _ _ _ _ (stream_entry_exec s id e He Ht)).
    cbv beta iota zeta.
    rewrite (ReuseProofs.bind_exec _ _ _ _ _ (eq_refl : get s = (s, Ok s))). cbv beta iota zeta.
    replace (MAX_REGULAR_SECTOR * slen s <? new_len) with false by (symmetry; apply N.ltb_ge; exact Hmax).
    rewrite (ReuseProofs.bind_exec _ _ _ _ _ (eq_refl : ret tt s = (s, Ok tt))).
    rewrite (mask_check_false s new_len Hmask).
    rewrite (ReuseProofs.bind_exec _ _ _ _ _ (eq_refl : ret tt s = (s, Ok tt))).
    match goal with |- bind ?m _ s = _ => assert (E : m s = (s1, Ok (d_start e))) end.
    { destruct (d_start e =? END_OF_CHAIN) eqn:E2; [apply N.eqb_eq in E2; contradiction|].
      destruct (d_len e <? MINI_STREAM_CUTOFF) eqn:E3; [lia|].
      destruct (new_len =? 0) eqn:E4; [lia|].
      destruct (new_len <? MINI_STREAM_CUTOFF) eqn:E5; [lia|].
      rewrite (ReuseProofs.bind_exec _ _ _ _ _ (ReuseProofs.chain_new_exec s (d_start e) IZero ids Hc)).
      rewrite ReuseProofs.bind_get.
      rewrite (ReuseProofs.bind_exec _ _ _ _ _ Hset).
      unfold chain_len at 1. cbn [c_ids].
      replace (N.min new_len (slen s * lenN ids)) with new_len by lia.
      unfold zero_fill_chain.
      replace (d_len e <? new_len) with false by (symmetry; apply N.ltb_ge; exact Hold).
      rewrite (ReuseProofs.bind_exec _ _ _ _ _ (eq_refl : ret (mkChain IZero ids 0) s1 = (s1, Ok (mkChain IZero ids 0)))).
      unfold chain_start. cbn [c_ids]. rewrite Eids, N.eqb_refl. reflexivity. }
    rewrite (ReuseProofs.bind_exec _ _ _ _ _ E). exact Hu. }
  assert (Hfreed : forall x, In x (dropN n' ids) -> nthN (fat s') x = Some FREE_SECTOR).
  { intros x Hx. rewrite Zfat. apply (safe_free_cells s1 x S1). rewrite F1. apply in_or_app. right. exact Hx. }
  assert (Hch' : chain_ids_of (fat s') (d_start e) = Ok kept).
  { rewrite Zfat. apply WalkProofs.chain_ids_of_path; [exact P1 | eapply ReuseProofs.path_nodup; exact P1]. }
  split; [exact Hrun|]. split; [|split; [|split; [|split]]].
  - apply (big_change_dinv s s' id e (d_start e) new_len ids kept C HD
             (stream_not_root s id e C He Ht) He Ht).
    + right. auto.
    + right. split; [exact Hnl|]. split; [exact Hch'|].
      unfold kept. rewrite lenN_takeN, ceil_div_comm. fold n'. lia.
    + unfold slen. rewrite Zv, Mv. reflexivity.
    + congruence.
    + congruence.
    + congruence.
    + congruence.
    + rewrite Hdirs', Mdirs. reflexivity.
    + rewrite Zfat, Mfl. lia.
    + intros x Hx _. rewrite Zfat. apply T1. exact Hx.
    + intros x Hx. left. eapply In_takeN. exact Hx.
    + intros x Hx Hn v Hv. destruct (In_takeN_dropN _ ids n' x Hx) as [Hk|Hdr]; [contradiction|].
      rewrite (Hfreed x Hdr) in Hv. congruence.
  - destruct S1 as [S1a S1b]. split; rewrite Zfat; [exact S1a|rewrite Zfree; exact S1b].
  - rewrite Zfree. exact F1.
  - exact Hfreed.
  - exists (set_start_len e (d_start e) new_len). cbn [set_start_len d_type d_start].
    split; [rewrite Hdirs'; apply nthN_updN_same; rewrite Mdirs; exact Hidlt|]. split; [exact Ht|exact Hch'].
Qed.

Lemma keeps_chain_seek : forall c pos, StoreAlloc.keeps (chain_seek c pos).
Proof. intros. unfold chain_seek. repeat StoreAlloc.keeps_step. Qed.

Lemma keeps_chain_write_go : forall fuel c bs, StoreAlloc.keeps (chain_write_go fuel c bs).
Proof.
  induction fuel as [|f IH]; intros c bs; cbn [chain_write_go].
  - apply StoreAlloc.keeps_const.
  - pose_keeps. unfold begin_chain. destruct bs as [|b bs']; [apply StoreAlloc.keeps_const|].
    repeat StoreAlloc.keeps_step.
Qed.

Lemma keeps_chain_write_all : forall c bs, StoreAlloc.keeps (chain_write_all c bs).
Proof. intros. unfold chain_write_all. pose proof keeps_chain_write_go. repeat StoreAlloc.keeps_step. Qed.

Lemma keeps_zero_fill_chain : forall c a b, StoreAlloc.keeps (zero_fill_chain c a b).
Proof.
  intros. unfold zero_fill_chain. destruct (a <? b).
  - apply StoreAlloc.keeps_bind; [apply keeps_chain_seek|intro; apply keeps_chain_write_all].
  - apply StoreAlloc.keeps_const.
Qed.

Lemma safe_same_tables : forall s s', fat s' = fat s -> free s' = free s -> WalkSafe.Safe s -> WalkSafe.Safe s'.
Proof. intros s s' Hf Hr H. unfold WalkSafe.Safe in *. rewrite Hf, Hr. exact H. Qed.

(* ---- 3b. a large stream grows by sectors taken from the free stack: the
   reused cells were FREE and get the stream as their owner ---- *)
Theorem resize_big_grow_reuse_dinv : forall s id V ids new_len base nw,
  Coherent s -> DInv s -> WalkSafe.Safe s ->
  big_content s id V -> stream_ids s id ids -> StoreWf s ->
  slen s * lenN ids < new_len ->
  free s = base ++ rev nw ->
  lenN ids + lenN nw = (slen s + new_len - 1) / slen s ->
  new_len <= MAX_REGULAR_SECTOR * slen s ->
  new_len <= stream_len_mask (ver s) ->
  exists s',
    resize id new_len s = (s', Ok tt) /\ DInv s' /\ WalkSafe.Safe s' /\
    free s' = base /\ stream_ids s' id (ids ++ nw).
Proof.
  intros s id V ids new_len base nw C HD HS HB Hsi Hwf Hgt Hfree Hcount Hmax Hmask.
  pose proof (slen_pos s) as Hsp.
  pose proof Hsi as (e0 & He0 & _ & Hc0).
  pose proof HB as (e & ids' & He & Ht & Hcut & Hc & Hg & Hle & HV).
  rewrite He in He0. injection He0 as <-. rewrite Hc in Hc0. injection Hc0 as ->.
  pose proof (good_chain_len _ _ Hg) as HCL.
  assert (Hnl : MINI_STREAM_CUTOFF <= new_len) by lia.
  assert (Hnl0 : 0 < new_len) by (rewrite CUTOFF_val in Hnl; lia).
  destruct (ceil_props (slen s) new_len Hsp Hnl0) as [Hc1 Hc2].
  rewrite <- Hcount in Hc1, Hc2.
  pose proof (ids_nonempty s ids _ Hcut Hle) as Hne.
  destruct (chain_ids_head _ _ _ Hc Hne) as (Hst & t & Eids).
  pose proof (WalkProofs.chain_ids_path _ _ _ Hc) as Hp.
  pose proof (ReuseProofs.path_nodup _ _ _ Hp) as Hnd.
  assert (HF : Forall (fun x => x < nsect s) ids).
  { destruct Hg as (_ & HF & _). eapply Forall_impl; [|exact HF]. cbv beta. tauto. }
  assert (Hbig : big_ids s id ids) by (exists e; ReuseProofs.csplit; assumption).
  destruct (sw_dir s Hwf) as (dids & Hd & Hgd & Hroom).
  pose proof (sw_dir_disj s Hwf id ids dids Hbig Hd) as Hdisj.
  pose proof (sw_alloc s Hwf) as Wa.
  assert (Hnw_free : forall x, In x nw -> In x (free s)).
  { intros x Hx. rewrite Hfree. apply in_or_app. right. apply in_rev in Hx. exact Hx. }
  assert (Hnw_nd : NoDup nw).
  { pose proof (sw_free_nodup s Hwf) as H. rewrite Hfree in H.
    apply NoDup_app_r in H. apply NoDup_rev in H. rewrite rev_involutive in H. exact H. }
  assert (Hnw_lt : Forall (fun x => x < nsect s) nw).
  { rewrite Forall_forall. intros x Hx. apply (ReuseProofs.wf_free s Wa). apply Hnw_free. exact Hx. }
  assert (Hnew : forall x, In x nw -> ~ In x ids /\ ~ In x (difat s)).
  { intros x Hx. destruct (sw_free_disj s Hwf x (Hnw_free x Hx)) as (D1 & _ & D3).
    split; [exact (D1 id ids Hbig) | exact D3]. }
  assert (Hov : slen s + new_len < two64).
  { pose proof (good_chain_count _ _ Hg) as B1.
    pose proof (WalkProofs.bounded_nodup_length _ _ Hnw_nd Hnw_lt) as B2.
    assert (B2' : lenN nw <= nsect s) by (rewrite WalkProofs.lenN_length; lia).
    pose proof (wf_nsect_u32 s Hwf) as B3.
    destruct (MiniChainProofs.slen_cases s) as [Es|Es]; rewrite Es in *;
      unfold u32_max in *; rewrite two64_val; nia. }
  (* Chain::set_len *)
  destruct (chain_grow_reuse nw s (d_start e) ids base 0 Wa (sw_nsect s Hwf) Hne Hp Hfree
              (sw_free_nodup s Hwf) Hnew)
    as (s1 & Hgrow & W1 & M1 & F1 & P1 & T1 & B1 & Z1).
  pose proof (meta_same_slen _ _ M1) as Hsl1.
  pose proof M1 as (Mv & Mn & Mdifat & Mdirs & Mds & Mimg & Mfl).
  assert (Hset : chain_set_len (mkChain IZero ids 0) new_len s
                 = (s1, Ok (mkChain IZero (ids ++ nw) 0))).
  { rewrite chain_set_len_grow by (cbn [c_ids]; lia). cbn [c_ids].
    rewrite <- Hcount.
    replace (N.to_nat (lenN ids + lenN nw - lenN ids)) with (length nw)
      by (rewrite (WalkProofs.lenN_length nw); lia).
    exact Hgrow. }
  destruct (StoreAlloc.Q_fields s s1 (keeps_chain_set_len _ _ _ _ _ Hset)) as (K1 & K2 & K3 & _).
  pose proof (WalkSafe.chain_set_len_preserves (mkChain IZero ids 0) new_len s HS) as S1.
  rewrite Hset in S1. cbn [fst] in S1.
  assert (HFall : Forall (fun x => x < nsect s) (ids ++ nw)).
  { apply Forall_app. split; assumption. }
  assert (Hg1 : good_chain s1 (ids ++ nw)).
  { apply good_chain_of_wf; [exact W1 | eapply ReuseProofs.path_nodup; exact P1 | rewrite Mn; exact HFall]. }
  (* zero fill of the tail of the old last sector *)
  destruct (zero_fill_chain_spec s1 (mkChain IZero (ids ++ nw) 0) (d_len e) (slen s * lenN ids) Hg1)
    as (s2 & c2 & Hz & Hids2 & _ & Hg2 & Hsh2 & Hd2 & _).
  { unfold chain_len. cbn [c_ids]. rewrite Hsl1, lenN_app. nia. }
  cbn [c_ids] in *.
  destruct (StoreAlloc.Q_fields s1 s2 (keeps_zero_fill_chain _ _ _ _ _ _ Hz)) as (L1 & L2 & L3 & _).
  pose proof (ReuseProofs.same_shape_slen _ _ Hsh2) as Hsl2.
  pose proof Hsh2 as (Sn & Sv & Si & Sl & Sfat & Sfree & Sdifat & Sds & _).
  pose proof (AllocWf_shape _ _ W1 Hsh2) as W2.
  assert (Hdids_nw : forall x, In x dids -> ~ In x nw).
  { intros x Hx Hin. destruct (sw_free_disj s Hwf x (Hnw_free x Hin)) as (_ & D2 & _).
    exact (D2 dids Hd Hx). }
  assert (Hdir2 : dir_ids s2 dids).
  { unfold dir_ids in *. rewrite Sfat, Sds, Mds.
    pose proof (WalkProofs.chain_ids_path _ _ _ Hd) as Hpd.
    apply WalkProofs.chain_ids_of_path; [|eapply ReuseProofs.path_nodup; exact Hpd].
    apply (StoreProofs.path_ext (fat s)); [exact Hpd | exact Mfl |].
    intros x Hx. apply T1; [intro Hin; exact (Hdisj x Hin Hx) | apply Hdids_nw; exact Hx]. }
  assert (Hgd2 : good_chain s2 dids).
  { destruct Hgd as (Hndd & HFd & _). apply good_chain_of_wf; [exact W2 | exact Hndd |].
    eapply Forall_impl; [|exact HFd]. cbv beta. intros a [Ha _]. rewrite Sn, Mn. exact Ha. }
  pose proof (nthN_Some_lt _ _ _ _ He) as Hidlt.
  destruct (update_entry_exec s2 id e (d_start e) new_len dids)
    as (s' & Hu & Hdirs' & Hsh' & Hmf' & Hmfr' & _ & _); try assumption.
  { rewrite Hd2, Mdirs. exact He. }
  { eapply sw_names; eassumption. }
  { rewrite Hsl2, Hsl1. rewrite DEL_val in *. lia. }
  pose proof Hsh' as (Zn & Zv & Zi & Zl & Zfat & Zfree & Zdifat & Zds & Zms).
  exists s'.
  assert (Hrun : resize id new_len s = (s', Ok tt)).
  { unfold resize.
    rewrite (ReuseProofs.bind_exec _ _ _ _ _ (stream_entry_exec s id e He Ht)).
    cbv beta iota zeta.
    rewrite (ReuseProofs.bind_exec _ _ _ _ _ (eq_refl : get s = (s, Ok s))). cbv beta iota zeta.
    replace (MAX_REGULAR_SECTOR * slen s <? new_len) with false by (symmetry; apply N.ltb_ge; exact Hmax).
    rewrite (ReuseProofs.bind_exec _ _ _ _ _ (eq_refl : ret tt s = (s, Ok tt))).
    rewrite (mask_check_false s new_len Hmask).
    rewrite (ReuseProofs.bind_exec _ _ _ _ _ (eq_refl : ret tt s = (s, Ok tt))).
    match goal with |- bind ?m _ s = _ => assert (E : m s = (s2, Ok (d_start e))) end.
    { destruct (d_start e =? END_OF_CHAIN) eqn:E2; [apply N.eqb_eq in E2; contradiction|].
      destruct (d_len e <? MINI_STREAM_CUTOFF) eqn:E3; [lia|].
      destruct (new_len =? 0) eqn:E4; [lia|].
      destruct (new_len <? MINI_STREAM_CUTOFF) eqn:E5; [lia|].
      rewrite (ReuseProofs.bind_exec _ _ _ _ _ (ReuseProofs.chain_new_exec s (d_start e) IZero ids Hc)).
      rewrite ReuseProofs.bind_get.
      rewrite (ReuseProofs.bind_exec _ _ _ _ _ Hset).
      unfold chain_len at 1. cbn [c_ids].
      replace (N.min new_len (slen s * lenN ids)) with (slen s * lenN ids) by lia.
      rewrite (ReuseProofs.bind_exec _ _ _ _ _ Hz).
      unfold chain_start. rewrite Hids2, Eids. cbn [app]. rewrite N.eqb_refl. reflexivity. }
    rewrite (ReuseProofs.bind_exec _ _ _ _ _ E). exact Hu. }
  assert (Hch' : chain_ids_of (fat s') (d_start e) = Ok (ids ++ nw)).
  { rewrite Zfat, Sfat. apply WalkProofs.chain_ids_of_path; [exact P1 | eapply ReuseProofs.path_nodup; exact P1]. }
  split; [exact Hrun|]. split; [|split; [|split]].
  - apply (big_change_dinv s s' id e (d_start e) new_len ids (ids ++ nw) C HD
             (stream_not_root s id e C He Ht) He Ht).
    + right. auto.
    + right. split; [exact Hnl|]. split; [exact Hch'|].
      rewrite lenN_app, ceil_div_comm. exact Hcount.
    + unfold slen. rewrite Zv, Sv, Mv. reflexivity.
    + congruence.
    + congruence.
    + congruence.
    + congruence.
    + rewrite Hdirs', Hd2, Mdirs. reflexivity.
    + rewrite Zfat, Sfat, Mfl. lia.
    + intros x Hx Hn. rewrite Zfat, Sfat. apply T1; [exact Hx|].
      intro Hin. apply Hn. apply in_or_app. right. exact Hin.
    + intros x Hx. apply in_app_or in Hx. destruct Hx as [Hx|Hx]; [left; exact Hx|right].
      intros v Hv. rewrite (safe_free_cells s x HS (Hnw_free x Hx)) in Hv. congruence.
    + intros x Hx Hn. exfalso. apply Hn. apply in_or_app. left. exact Hx.
  - apply (safe_same_tables s2 s' Zfat Zfree). apply (safe_same_tables s1 s2 Sfat Sfree). exact S1.
  - rewrite Zfree, Sfree. exact F1.
  - exists (set_start_len e (d_start e) new_len). cbn [set_start_len d_type d_start].
    split; [rewrite Hdirs'; apply nthN_updN_same; rewrite Hd2, Mdirs; exact Hidlt|]. split; [exact Ht|exact Hch'].
Qed.

Lemma seqN_In : forall k a x, a <= x -> x < a + N.of_nat k -> In x (seqN a k).
Proof.
  induction k as [|k IH]; intros a x H1 H2; [lia|]. cbn [seqN].
  destruct (N.eq_dec a x) as [E|E]; [left; exact E|right]. apply IH; lia.
Qed.

(* ---- 3b'. a large stream grows by sectors appended to the file (empty free
   stack, no new FAT sector needed): the FAT gets one new cell per sector ---- *)
Theorem resize_big_grow_append_dinv : forall s id V ids new_len k,
  Coherent s -> DInv s ->
  big_content s id V -> stream_ids s id ids -> StoreWf s -> free s = [] ->
  slen s * lenN ids < new_len ->
  lenN ids + N.of_nat k = (slen s + new_len - 1) / slen s ->
  nsect s + N.of_nat k <= MAX_REGULAR_SECTOR + 1 ->
  (forall j, j < N.of_nat k -> (nsect s + j) mod fat_per_sector s <> 0) ->
  new_len <= MAX_REGULAR_SECTOR * slen s ->
  new_len <= stream_len_mask (ver s) ->
  exists s',
    resize id new_len s = (s', Ok tt) /\ DInv s' /\
    free s' = [] /\ nsect s' = nsect s + N.of_nat k /\
    stream_ids s' id (ids ++ seqN (nsect s) k).
Proof.
  intros s id V ids new_len k C HD HB Hsi Hwf Hfree Hgt Hcount Hbound Hmod Hmax Hmask.
  destruct (ch_fat s C) as [[_ _ _ _ Hdlt] Hlen _ _].
  pose proof (slen_pos s) as Hsp.
  pose proof Hsi as (e0 & He0 & _ & Hc0).
  pose proof HB as (e & ids' & He & Ht & Hcut & Hc & Hg & Hle & HV).
  rewrite He in He0. injection He0 as <-. rewrite Hc in Hc0. injection Hc0 as ->.
  assert (Hnl : MINI_STREAM_CUTOFF <= new_len) by lia.
  assert (Hnl0 : 0 < new_len) by (rewrite CUTOFF_val in Hnl; lia).
  destruct (ceil_props (slen s) new_len Hsp Hnl0) as [Hc1 Hc2].
  rewrite <- Hcount in Hc1, Hc2.
  pose proof (ids_nonempty s ids _ Hcut Hle) as Hne.
  destruct (chain_ids_head _ _ _ Hc Hne) as (Hst & t & Eids).
  pose proof (WalkProofs.chain_ids_path _ _ _ Hc) as Hp.
  assert (HF : Forall (fun x => x < nsect s) ids).
  { destruct Hg as (_ & HF & _). eapply Forall_impl; [|exact HF]. cbv beta. tauto. }
  assert (Hbig : big_ids s id ids) by (exists e; ReuseProofs.csplit; assumption).
  destruct (sw_dir s Hwf) as (dids & Hd & Hgd & Hroom).
  pose proof (sw_dir_disj s Hwf id ids dids Hbig Hd) as Hdisj.
  pose proof (sw_alloc s Hwf) as Wa.
  set (nw := seqN (nsect s) k) in *.
  assert (Hnw_ge : forall x, In x nw -> nsect s <= x < nsect s + N.of_nat k).
  { intros x Hx. apply In_seqN. exact Hx. }
  assert (Hlnw : lenN nw = N.of_nat k) by apply lenN_seqN.
  assert (Hov : slen s + new_len < two64).
  { pose proof (good_chain_count _ _ Hg) as B1. rewrite MAXREG_val in Hbound.
    destruct (MiniChainProofs.slen_cases s) as [Es|Es]; rewrite Es in *; rewrite two64_val; nia. }
  destruct (chain_grow_append k s (d_start e) ids 0 Wa Hfree Hlen Hne Hdlt Hbound Hmod Hp)
    as (s1 & Hgrow & W1 & F1 & L1 & N1 & V1 & D1 & R1 & S1 & P1 & T1 & B1 & Z1).
  fold nw in Hgrow, P1, Z1.
  assert (Hsl1 : slen s1 = slen s) by (unfold slen; rewrite V1; reflexivity).
  assert (Hset : chain_set_len (mkChain IZero ids 0) new_len s
                 = (s1, Ok (mkChain IZero (ids ++ nw) 0))).
  { rewrite chain_set_len_grow by (cbn [c_ids]; lia). cbn [c_ids].
    rewrite <- Hcount.
    replace (N.to_nat (lenN ids + N.of_nat k - lenN ids)) with k by lia.
    exact Hgrow. }
  destruct (StoreAlloc.Q_fields s s1 (keeps_chain_set_len _ _ _ _ _ Hset)) as (K1 & K2 & K3 & _).
  assert (HFall : Forall (fun x => x < nsect s1) (ids ++ nw)).
  { apply Forall_app. split.
    - eapply Forall_impl; [|exact HF]. cbv beta. intros a Ha. rewrite N1. lia.
    - rewrite Forall_forall. intros x Hx. apply Hnw_ge in Hx. rewrite N1. lia. }
  assert (Hg1 : good_chain s1 (ids ++ nw)).
  { apply good_chain_of_wf; [exact W1 | eapply ReuseProofs.path_nodup; exact P1 | exact HFall]. }
  destruct (zero_fill_chain_spec s1 (mkChain IZero (ids ++ nw) 0) (d_len e) (slen s * lenN ids) Hg1)
    as (s2 & c2 & Hz & Hids2 & _ & Hg2 & Hsh2 & Hd2 & _).
  { unfold chain_len. cbn [c_ids]. rewrite Hsl1, lenN_app. nia. }
  cbn [c_ids] in *.
  destruct (StoreAlloc.Q_fields s1 s2 (keeps_zero_fill_chain _ _ _ _ _ _ Hz)) as (L1' & L2 & L3 & _).
  pose proof (ReuseProofs.same_shape_slen _ _ Hsh2) as Hsl2.
  pose proof Hsh2 as (Sn & Sv & Si & Sl & Sfat & Sfree & Sdifat & Sds & _).
  pose proof (AllocWf_shape _ _ W1 Hsh2) as W2.
  assert (Hdids_lt : forall x, In x dids -> x < nsect s).
  { destruct Hgd as (_ & HFd & _). rewrite Forall_forall in HFd. intros x Hx. apply HFd. exact Hx. }
  assert (Hfl1 : lenN (fat s) <= lenN (fat s1)) by (rewrite L1, N1, Hlen; lia).
  assert (Hdir2 : dir_ids s2 dids).
  { unfold dir_ids in *. rewrite Sfat, Sds, S1.
    pose proof (WalkProofs.chain_ids_path _ _ _ Hd) as Hpd.
    apply WalkProofs.chain_ids_of_path; [|eapply ReuseProofs.path_nodup; exact Hpd].
    apply (StoreProofs.path_ext_le (fat s)); [exact Hpd | exact Hfl1 |].
    intros x Hx. apply T1; [intro Hin; exact (Hdisj x Hin Hx) | apply Hdids_lt; exact Hx]. }
  assert (Hgd2 : good_chain s2 dids).
  { destruct Hgd as (Hndd & HFd & _). apply good_chain_of_wf; [exact W2 | exact Hndd |].
    eapply Forall_impl; [|exact HFd]. cbv beta. intros a [Ha _]. rewrite Sn, N1. lia. }
  pose proof (nthN_Some_lt _ _ _ _ He) as Hidlt.
  destruct (update_entry_exec s2 id e (d_start e) new_len dids)
    as (s' & Hu & Hdirs' & Hsh' & Hmf' & Hmfr' & _ & _); try assumption.
  { rewrite Hd2, R1. exact He. }
  { eapply sw_names; eassumption. }
  { rewrite Hsl2, Hsl1. rewrite DEL_val in *. lia. }
  pose proof Hsh' as (Zn & Zv & Zi & Zl & Zfat & Zfree & Zdifat & Zds & Zms).
  exists s'.
  assert (Hrun : resize id new_len s = (s', Ok tt)).
  { unfold resize.
    rewrite (ReuseProofs.bind_exec _ _ _ _ _ (stream_entry_exec s id e He Ht)).
    cbv beta iota zeta.
    rewrite (ReuseProofs.bind_exec _ _ _ _ _ (eq_refl : get s = (s, Ok s))). cbv beta iota zeta.
    replace (MAX_REGULAR_SECTOR * slen s <? new_len) with false by (symmetry; apply N.ltb_ge; exact Hmax).
    rewrite (ReuseProofs.bind_exec _ _ _ _ _ (eq_refl : ret tt s = (s, Ok tt))).
    rewrite (mask_check_false s new_len Hmask).
    rewrite (ReuseProofs.bind_exec _ _ _ _ _ (eq_refl : ret tt s = (s, Ok tt))).
    match goal with |- bind ?m _ s = _ => assert (E : m s = (s2, Ok (d_start e))) end.
    { destruct (d_start e =? END_OF_CHAIN) eqn:E2; [apply N.eqb_eq in E2; contradiction|].
      destruct (d_len e <? MINI_STREAM_CUTOFF) eqn:E3; [lia|].
      destruct (new_len =? 0) eqn:E4; [lia|].
      destruct (new_len <? MINI_STREAM_CUTOFF) eqn:E5; [lia|].
      rewrite (ReuseProofs.bind_exec _ _ _ _ _ (ReuseProofs.chain_new_exec s (d_start e) IZero ids Hc)).
      rewrite ReuseProofs.bind_get.
      rewrite (ReuseProofs.bind_exec _ _ _ _ _ Hset).
      unfold chain_len at 1. cbn [c_ids].
      replace (N.min new_len (slen s * lenN ids)) with (slen s * lenN ids) by lia.
      rewrite (ReuseProofs.bind_exec _ _ _ _ _ Hz).
      unfold chain_start. rewrite Hids2, Eids. cbn [app]. rewrite N.eqb_refl. reflexivity. }
    rewrite (ReuseProofs.bind_exec _ _ _ _ _ E). exact Hu. }
  assert (Hch' : chain_ids_of (fat s') (d_start e) = Ok (ids ++ nw)).
  { rewrite Zfat, Sfat. apply WalkProofs.chain_ids_of_path; [exact P1 | eapply ReuseProofs.path_nodup; exact P1]. }
  split; [exact Hrun|]. split; [|split; [|split]].
  - apply (big_change_dinv s s' id e (d_start e) new_len ids (ids ++ nw) C HD
             (stream_not_root s id e C He Ht) He Ht).
    + right. auto.
    + right. split; [exact Hnl|]. split; [exact Hch'|].
      rewrite lenN_app, ceil_div_comm, Hlnw. exact Hcount.
    + unfold slen. rewrite Zv, Sv, V1. reflexivity.
    + congruence.
    + congruence.
    + congruence.
    + congruence.
    + rewrite Hdirs', Hd2, R1. reflexivity.
    + rewrite Zfat, Sfat. exact Hfl1.
    + intros x Hx Hn. rewrite Zfat, Sfat.
      destruct (N.lt_ge_cases x (nsect s)) as [Hlt|Hge]; [apply T1; assumption|].
      destruct (N.lt_ge_cases x (nsect s + N.of_nat k)) as [Hlt2|Hge2].
      * exfalso. apply Hn. apply in_or_app. right. apply seqN_In; assumption.
      * rewrite (StrictProofs.nthN_none (fat s1)) by (rewrite L1, N1; exact Hge2).
        rewrite (StrictProofs.nthN_none (fat s)) by (rewrite Hlen; exact Hge). reflexivity.
    + intros x Hx. apply in_app_or in Hx. destruct Hx as [Hx|Hx]; [left; exact Hx|right].
      intros v Hv. apply Hnw_ge in Hx. apply nthN_Some_lt in Hv. lia.
    + intros x Hx Hn. exfalso. apply Hn. apply in_or_app. left. exact Hx.
  - rewrite Zfree, Sfree. exact F1.
  - rewrite Zn, Sn. exact N1.
  - exists (set_start_len e (d_start e) new_len). cbn [set_start_len d_type d_start].
    split; [rewrite Hdirs'; apply nthN_updN_same; rewrite Hd2, R1; exact Hidlt|]. split; [exact Ht|exact Hch'].
Qed.

(* ================================================================== *)
(* 4. histories of covered handle operations and queries               *)
(* ================================================================== *)

(* [Tidy] after an operation on stream [id]: the table changed as Part A of
   HandleFrame.v says (entries [id] and ROOT, start / length only) *)
Theorem tidy_DF : forall ds ds' id,
  Tidy ds -> DF (PR id) ds ds' ->
  (forall e, nthN ds id = Some e -> d_type e = TStream) ->
  Tidy ds'.
Proof.
  intros ds ds' id HT [HL HDF] Hid.
  assert (Hroot : forall r, nthN ds ROOT_STREAM_ID = Some r -> d_type r = TRoot).
  { intros r Hr. destruct HT as (t & U & HN & _).
    pose proof HN as [HNR _]. destruct (QueryRefine.NodeRep_root_dir _ _ _ _ _ HNR) as (m & ks & ->).
    apply MutRefine.NRU_dir in HN. destruct HN as (_ & e & He & _ & Ht & _). congruence. }
  assert (Hpr : forall j e, nthN ds j = Some e -> PR id j = true -> d_type e = TStream \/ d_type e = TRoot).
  { intros j e He Hp. unfold PR in Hp. apply orb_true_iff in Hp. destruct Hp as [Hp|Hp]; apply N.eqb_eq in Hp; subst j.
    - left. exact (Hid e He).
    - right. exact (Hroot e He). }
  apply (tidy_relen ds ds'); [| |exact HT].
  - intros j e He. destruct (HDF j e He) as (e' & He' & Rel). exists e'. split; [exact He'|].
    destruct (PR id j) eqn:Ep.
    + split; [exact Rel|]. intro Hs. destruct (Hpr j e He Ep) as [Hx|Hx]; rewrite Hx in Hs; discriminate Hs.
    + subst e'. split; [apply same_meta_ent_refl|reflexivity].
  - intros j e' He'. assert (Hj : j < lenN ds) by (rewrite <- HL; eapply nthN_Some_lt; exact He').
    destruct (WalkProofs.nthN_lt_Some ds j Hj) as [e He]. exists e. split; [exact He|].
    destruct (HDF j e He) as (e'' & He'' & Rel). assert (e'' = e') by congruence. subst e''.
    destruct (PR id j) eqn:Ep.
    + intros ->. destruct (Hpr j _ He Ep) as [Hx|Hx]; discriminate Hx.
    + intro Hx. congruence.
Qed.

Lemma In_nthN_ex : forall A (l : list A) x, In x l -> exists i, nthN l i = Some x.
Proof.
  intros A l. induction l as [|a t IH]; intros x H; [destruct H|].
  destruct H as [<-|H]; [exists 0; reflexivity|]. destruct (IH x H) as [i Hi]. exists (N.succ i).
  rewrite ChainProofs.nthN_cons_pos by lia. rewrite N.pred_succ. exact Hi.
Qed.

Theorem dbase_DF : forall (P : N -> bool) s s',
  DBase s -> Coherent s' -> DInv s' -> DF P (dirs s) (dirs s') -> DBase s'.
Proof.
  intros P s s' [C Hents Hroot] C' HD' [HL HDF]. constructor; [exact C'| |].
  - apply Forall_forall. intros e' Hin. destruct (In_nthN_ex _ _ _ Hin) as [j He'].
    assert (Hj : j < lenN (dirs s)) by (rewrite <- HL; eapply nthN_Some_lt; exact He').
    destruct (WalkProofs.nthN_lt_Some (dirs s) j Hj) as [e He].
    destruct (HDF j e He) as (e'' & He'' & Rel). assert (e'' = e') by congruence. subst e''.
    rewrite Forall_nthN in Hents. destruct (Hents j e He) as (_ & Hb & Hl1 & Hl2 & Hl3).
    split; [apply (ch_dir_wf s' C'); exact Hin|].
    assert (Hm : same_meta_ent e e') by (destruct (P j); [exact Rel|subst e'; apply same_meta_ent_refl]).
    destruct (same_meta_ent_fields e e' Hm) as (F1 & F2 & F3 & F4 & F5 & F6 & _).
    split; [|unfold noroot_links; rewrite F4, F5, F6; repeat split; assumption].
    intro Hne. rewrite F3. apply Hb. rewrite <- F2. exact Hne.
  - destruct Hroot as (r & Hr & RL & RR & _).
    destruct (HDF _ r Hr) as (r' & Hr' & Rel).
    assert (Hm : same_meta_ent r r') by (destruct (P ROOT_STREAM_ID); [exact Rel|subst r'; apply same_meta_ent_refl]).
    destruct (same_meta_ent_fields r r' Hm) as (_ & _ & _ & F4 & F5 & _).
    exists r'. split; [exact Hr'|]. split; [congruence|]. split; [congruence|].
    destruct (di_root s' HD') as (r0 & _ & _ & Hr0 & _ & _ & Hmod & _).
    assert (r0 = r') by congruence. subst r0. split; [exact Hmod|exact (ch_mini_fits s' C' r' Hr')].
Qed.

(* the full invariant of a file with data: the tables on disk equal the cached
   ones and the chains are disjoint ([CohData]); the entries are well-formed
   ([DBase]); exact chain lengths and ownership ([DInv]); blank slots outside
   the tree ([Tidy]) *)
Definition WInv (s : cstate) : Prop :=
  DataPersist.CohData s /\ DBase s /\ DInv s /\ Tidy (dirs s).

Theorem winv_image_wf : forall s, WInv s -> wf_check (concat_img (img s)) = 0.
Proof. intros s (_ & HB & HD & HT). exact (dinv_image_wf s HB HD HT). Qed.

Lemma winv_after : forall s s' id e,
  WInv s -> nthN (dirs s) id = Some e -> d_type e = TStream ->
  DataPersist.CohData s' -> DInv s' -> DF (PR id) (dirs s) (dirs s') -> WInv s'.
Proof.
  intros s s' id e (HCD & HB & HD & HT) He Ht HCD' HD' HDF.
  split; [exact HCD'|]. split; [exact (dbase_DF _ s s' HB (proj1 HCD') HD' HDF)|]. split; [exact HD'|].
  apply (tidy_DF _ _ id HT HDF). intros e0 He0. congruence.
Qed.

Lemma covered_write_stream : forall s id off buf, CoveredWrite s id off buf ->
  exists e, nthN (dirs s) id = Some e /\ d_type e = TStream.
Proof.
  intros s id off buf [(V & ids & (e & l & He & Ht & _) & _)|(e & rids & mids & V & (He & Ht & _) & _)];
    exists e; auto.
Qed.

Lemma covered_resize_stream : forall s id n, CoveredResize s id n ->
  exists e, nthN (dirs s) id = Some e /\ d_type e = TStream.
Proof.
  intros s id n [(V & ids & (e & l & He & Ht & _) & _)|(e & rids & mids & V & (He & Ht & _) & _)];
    exists e; auto.
Qed.

Lemma wi_rd : forall id off n s, WInv s ->
  WInv (fst (read_data id off n s)) /\ StoreFrame id s (fst (read_data id off n s)).
Proof. intros. rewrite read_data_pure. split; [assumption|apply StoreFrame_refl]. Qed.
Lemma wi_sl : forall id s, WInv s ->
  WInv (fst (stream_len_of id s)) /\ StoreFrame id s (fst (stream_len_of id s)).
Proof. intros. rewrite stream_len_of_pure. split; [assumption|apply StoreFrame_refl]. Qed.
Lemma wi_wr : forall id off bs s, WInv s -> DataPersist.CWd id off bs s ->
  WInv (fst (write_data id off bs s)) /\ StoreFrame id s (fst (write_data id off bs s)).
Proof.
  intros id off bs s HW [HC HL]. pose proof HW as (HCD & _ & HD & _).
  destruct (DataPersist.write_data_cohdata s id off bs HCD HC HL) as (s' & E & HCD' & HSF).
  destruct (covered_write_dinv s id off bs HCD HD HC HL) as (s2 & E2 & _ & HD').
  rewrite E in E2. injection E2 as <-.
  destruct (covered_write_stream s id off bs HC) as (e & He & Ht).
  pose proof (framesR_write_data id off bs s) as HDF. rewrite E in *. cbn [fst] in *.
  split; [exact (winv_after s s' id e HW He Ht HCD' HD' HDF)|exact HSF].
Qed.
Lemma wi_rs : forall id n s, WInv s -> DataPersist.CRd id n s ->
  WInv (fst (resize id n s)) /\ StoreFrame id s (fst (resize id n s)).
Proof.
  intros id n s HW [HC HL]. pose proof HW as (HCD & _ & HD & _).
  destruct (DataPersist.resize_cohdata s id n HCD HC HL) as (s' & E & HCD' & HSF).
  destruct (covered_resize_dinv s id n HCD HD HC HL) as (s2 & E2 & _ & HD').
  rewrite E in E2. injection E2 as <-.
  destruct (covered_resize_stream s id n HC) as (e & He & Ht).
  pose proof (framesR_resize id n s) as HDF. rewrite E in *. cbn [fst] in *.
  split; [exact (winv_after s s' id e HW He Ht HCD' HD' HDF)|exact HSF].
Qed.

(* every covered handle operation keeps the full invariant *)
Theorem hop_run_winv : forall o h s,
  WInv s -> DataPersist.covered_op_d o h s -> WInv (fst (hop_run o h s)).
Proof.
  intros o h s HA HC.
  pose proof (h_read_C cstate read_data write_data stream_len_of WInv StoreFrame DataPersist.CWd
                StoreFrame_refl StoreFrame_trans wi_rd wi_sl wi_wr) as Xread.
  pose proof (h_fill_buf_C cstate read_data write_data stream_len_of WInv StoreFrame DataPersist.CWd
                StoreFrame_refl StoreFrame_trans wi_rd wi_sl wi_wr) as Xfill.
  pose proof (h_write_C cstate write_data stream_len_of WInv StoreFrame DataPersist.CWd
                StoreFrame_refl StoreFrame_trans wi_sl wi_wr) as Xwrite.
  pose proof (h_seek_C cstate write_data stream_len_of WInv StoreFrame DataPersist.CWd
                StoreFrame_refl StoreFrame_trans wi_sl wi_wr) as Xseek.
  pose proof (h_set_len_C cstate write_data resize stream_len_of WInv StoreFrame DataPersist.CWd DataPersist.CRd
                StoreFrame_refl StoreFrame_trans wi_sl wi_wr wi_rs) as Xsetlen.
  pose proof (h_flush_C cstate write_data stream_len_of WInv StoreFrame DataPersist.CWd
                StoreFrame_refl StoreFrame_trans wi_sl wi_wr) as Xflush.
  pose proof (flush_changes_C cstate write_data stream_len_of WInv StoreFrame DataPersist.CWd
                StoreFrame_refl StoreFrame_trans wi_sl wi_wr) as Xfc.
  destruct o; cbn [hop_run DataPersist.covered_op_d] in *; cbv zeta; cbn [fst snd]; try exact HA.
  - exact (proj1 (proj1 (Xread h n s HA HC))).
  - exact (proj1 (proj1 (Xfill h s HA HC))).
  - exact (proj1 (proj1 (Xwrite h bs s HA HC))).
  - exact (proj1 (proj1 (Xseek h w z s HA HC))).
  - destruct HC as [HC1 HC2]. exact (proj1 (proj1 (Xsetlen h n s HA HC1 HC2))).
  - exact (proj1 (proj1 (Xflush h s HA HC))).
  - exact (proj1 (proj1 (Xfc h s HA HC))).
Qed.

(* one step of a history: a covered handle operation or a query *)
Definition wdata_step_ok (f : fstate) (o : op) : Prop :=
  match handle_slot o with
  | Some i => forall h, nthN (hs f) i = Some (Some h) -> DataPersist.covered_op_d o h (cs f)
  | None => DataPersist.query_op o
  end.

Fixpoint wdata_hist_ok (f : fstate) (l : list (N * op)) : Prop :=
  match l with
  | [] => True
  | (now, o) :: t => wdata_step_ok f o /\ wdata_hist_ok (fst (step f now o)) t
  end.

Theorem wdata_step_winv : forall f now o,
  WInv (cs f) -> wdata_step_ok f o -> WInv (cs (fst (step f now o))).
Proof.
  intros f now o HG Hok. unfold wdata_step_ok in Hok.
  destruct (handle_slot o) as [i|] eqn:Eslot.
  - destruct (nthN (hs f) i) as [[h|]|] eqn:Eh.
    + destruct (step f now o) as [f' r] eqn:Es. cbn [fst].
      destruct (step_handle_shape f now o i h f' r Eslot Eh Es) as (E1 & _ & _).
      rewrite E1. exact (hop_run_winv o h (cs f) HG (Hok h eq_refl)).
    + rewrite (step_no_handle f now o i Eslot); [exact HG|]. intros h E. rewrite Eh in E. discriminate E.
    + rewrite (step_no_handle f now o i Eslot); [exact HG|]. intros h E. rewrite Eh in E. discriminate E.
  - assert (Hsame : cs (fst (step f now o)) = cs f -> WInv (cs (fst (step f now o)))).
    { intros ->. exact HG. }
    destruct o; cbn [DataPersist.query_op] in Hok; try contradiction; cbn [handle_slot] in Eslot;
      try discriminate Eslot; cbn [step].
    + apply Hsame, DataPersist.with_new_handle_pure, DataPersist.pure_api_open_stream.
    + apply Hsame, PersistProofs.with_cs_pure, PersistProofs.pure_api_exists.
    + apply Hsame, PersistProofs.with_cs_pure, PersistProofs.pure_api_is_stream.
    + apply Hsame, PersistProofs.with_cs_pure, PersistProofs.pure_api_is_storage.
    + apply Hsame, PersistProofs.with_cs_pure, PersistProofs.pure_api_entry.
    + apply Hsame, PersistProofs.with_cs_pure, PersistProofs.pure_api_root_entry.
    + apply Hsame, PersistProofs.with_cs_pure, PersistProofs.pure_api_read_storage.
    + apply Hsame, PersistProofs.with_cs_pure, PersistProofs.pure_api_read_root.
    + apply Hsame, PersistProofs.with_cs_pure, PersistProofs.pure_api_walk.
    + apply Hsame, PersistProofs.with_cs_pure, PersistProofs.pure_api_walk_storage.
    + apply Hsame. reflexivity.
    + apply Hsame. reflexivity.
Qed.

Theorem wdata_history_winv : forall l f,
  WInv (cs f) -> wdata_hist_ok f l -> WInv (cs (fst (ReadonlyTotal.run_ops f l))).
Proof.
  induction l as [|[now o] t IH]; intros f HG Hrun; [exact HG|].
  cbn [wdata_hist_ok] in Hrun. destruct Hrun as [Hok Hrun].
  rewrite PersistProofs.run_ops_cons. apply IH; [|exact Hrun].
  apply wdata_step_winv; assumption.
Qed.

Lemma wdata_hist_ok_app : forall l1 l2 f,
  wdata_hist_ok f (l1 ++ l2) -> wdata_hist_ok f l1.
Proof.
  induction l1 as [|[now o] t IH]; intros l2 f H; [exact I|].
  cbn [app wdata_hist_ok] in *. destruct H as [H1 H2]. split; [exact H1|]. eapply IH. exact H2.
Qed.

(* C03 along a history that moves stream data: the independent checker accepts
   the bytes after every prefix *)
Theorem wf_data_history : forall (l1 l2 : list (N * op)) f,
  WInv (cs f) -> wdata_hist_ok f (l1 ++ l2) ->
  wf_check (concat_img (img (cs (fst (ReadonlyTotal.run_ops f l1))))) = 0.
Proof.
  intros l1 l2 f HG Hrun. apply winv_image_wf.
  apply wdata_history_winv; [exact HG|]. eapply wdata_hist_ok_app. exact Hrun.
Qed.

(* non-vacuity of the history theorem: HandleFrame's example file ("/a" 100
   bytes in the mini stream, "/b" 5000 bytes in ten sectors, built by running
   the model), then a write and a flush through the handle of "/a" *)
Module HistoryExample.
  Import HandleFrame.Example.

  Lemma fA_winv : WInv (cs fA).
  Proof.
    split; [exact DataPersist.Example.fA_cd|].
    split; [apply dbase_b_sound; vm_compute; reflexivity|].
    split; [apply dinv_b_sound; vm_compute; reflexivity|].
    apply (relen_b_tidy (dirs (Examples.reach V3 [(0, Examples.pa); (1, Examples.pb)] []))).
    - vm_compute. reflexivity.
    - apply Examples.reach_nil_tidy. vm_compute. repeat split; reflexivity.
  Qed.

  Definition hist : list (N * op) := [(0, OHWrite 0 [9; 9; 9]); (0, OHFlush 0); (0, OExists [47; 97])].

  Lemma hist_ok : wdata_hist_ok fA hist.
  Proof.
    unfold hist. cbn [wdata_hist_ok]. split; [|split; [|split; [|exact I]]].
    - unfold wdata_step_ok. cbn [handle_slot]. intros h Hh.
      assert (E : nthN (hs fA) 0 = Some (Some hA0)) by (vm_compute; reflexivity).
      rewrite E in Hh. injection Hh as <-. exact DataPersist.Example.write_covered_d.
    - replace (fst (step fA 0 (OHWrite 0 [9; 9; 9]))) with fB by (vm_compute; reflexivity).
      unfold wdata_step_ok. cbn [handle_slot]. intros h Hh.
      assert (E : nthN (hs fB) 0 = Some (Some hB0)) by (vm_compute; reflexivity).
      rewrite E in Hh. injection Hh as <-. exact DataPersist.Example.flush_covered_d.
    - unfold wdata_step_ok. cbn [handle_slot DataPersist.query_op]. exact I.
  Qed.

  Example history_wf :
    wf_check (concat_img (img (cs (fst (ReadonlyTotal.run_ops fA hist))))) = 0.
  Proof. exact (wf_data_history hist [] fA fA_winv ltac:(rewrite app_nil_r; exact hist_ok)). Qed.

  (* ... and by evaluation *)
  Example history_wf_evaluated :
    wf_check (concat_img (img (cs (fst (ReadonlyTotal.run_ops fA hist))))) = 0.
  Proof. vm_compute. reflexivity. Qed.
End HistoryExample.

(* non-vacuity of the theorems with allocation (3b, 3b', 3c): their hypotheses
   hold in states produced by the model *)
Module AllocExamples.
  Import Examples.

  Definition safe_b (s : cstate) : bool :=
    is_ok_tt (check_pointees false (fat s) (lenN (fat s)) []) && StoreProofs.nodup_b (free s) &&
    forallb (fun x => match nthN (fat s) x with Some v => v =? FREE_SECTOR | None => false end) (free s).

  Lemma safe_b_sound : forall s, safe_b s = true -> WalkSafe.Safe s.
  Proof.
    intros s H. unfold safe_b in H. apply andb_true_iff in H. destruct H as [H H3].
    apply andb_true_iff in H. destruct H as [H1 H2]. split.
    - apply (WalkSafe.walksafe_of_injective false). apply is_ok_tt_sound. exact H1.
    - split; [apply StoreProofs.nodup_b_sound; exact H2|]. intros x Hx.
      rewrite forallb_forall in H3. specialize (H3 x Hx).
      destruct (nthN (fat s) x) as [v|]; [|discriminate H3]. apply N.eqb_eq in H3. subst v. reflexivity.
  Qed.

  (* "/a" = 100 bytes (entry 1), "/b" = 5000 bytes (entry 2, sectors 4..13), version 3 *)
  Definition s0 : cstate := Eval vm_compute in reach V3 [(0, pa); (1, pb)] (wr_small ++ wr_large).
  Definition ids0 : list N := [4; 5; 6; 7; 8; 9; 10; 11; 12; 13].

  Lemma big_at2 : forall s ids, StoreProofs.storewf_b s = true ->
    (match nthN (dirs s) 2 with
     | Some e => objtype_eqb (d_type e) TStream && (MINI_STREAM_CUTOFF <=? d_len e) &&
                 match chain_ids_of (fat s) (d_start e) with
                 | Ok l => list_eqb N.eqb l ids && StoreProofs.nodup_b ids &&
                           forallb (fun x => x <? nsect s) ids && (d_len e <=? slen s * lenN ids)
                 | _ => false end
     | None => false end) = true ->
    exists V, big_content s 2 V /\ stream_ids s 2 ids.
  Proof.
    intros s ids Hwf H. destruct (nthN (dirs s) 2) as [e|] eqn:He; [|discriminate H].
    apply andb_true_iff in H. destruct H as [H H2]. apply andb_true_iff in H. destruct H as [Ht Hc].
    destruct (chain_ids_of (fat s) (d_start e)) as [l| | |] eqn:Hch; try discriminate H2.
    apply andb_true_iff in H2. destruct H2 as [H2 Hle]. apply andb_true_iff in H2. destruct H2 as [H2 Hlt].
    apply andb_true_iff in H2. destruct H2 as [Heq Hnd]. apply StrictProofs.list_eqb_eq in Heq. subst l.
    exists (takeN (d_len e) (chain_content s ids)).
    apply (StoreProofs.StoreExamples.big_content_check s 2 _ ids e (StoreProofs.storewf_b_sound s Hwf) He);
      try assumption; [|reflexivity].
    destruct (d_type e); try discriminate Ht. reflexivity.
  Qed.

  (* 3c: "/b" shrinks from ten sectors to nine; sector 13 becomes free *)
  Example shrink_applies :
    exists s', resize 2 4500 s0 = (s', Ok tt) /\ DInv s' /\ WalkSafe.Safe s' /\ free s' = [13] /\
               nthN (fat s') 13 = Some FREE_SECTOR.
  Proof.
    destruct (big_at2 s0 ids0) as (V & HB & Hsi); [vm_compute; reflexivity..|].
    destruct (resize_big_shrink_dinv s0 2 V ids0 4500) as (s' & Hrun & HD' & HS' & Hfree & Hcells & _);
      try assumption.
    - apply coherent_b_sound. vm_compute. reflexivity.
    - apply dinv_b_sound. vm_compute. reflexivity.
    - apply safe_b_sound. vm_compute. reflexivity.
    - apply StoreProofs.storewf_b_sound. vm_compute. reflexivity.
    - vm_compute. discriminate.
    - vm_compute. reflexivity.
    - vm_compute. discriminate.
    - vm_compute. discriminate.
    - exists s'. split; [exact Hrun|]. split; [exact HD'|]. split; [exact HS'|]. split.
      + rewrite Hfree. vm_compute. reflexivity.
      + apply Hcells. vm_compute. left. reflexivity.
  Qed.

  (* the state after that shrink, by evaluation: the checker accepts it *)
  Definition s1 : cstate := Eval vm_compute in fst (resize 2 4500 s0).
  Example s1_wf : free s1 = [13] /\ dinv_b s1 = true /\ wf_check (concat_img (img s1)) = 0.
  Proof. repeat split; vm_compute; reflexivity. Qed.

  (* 3b: "/b" grows again and takes sector 13 back from the free stack *)
  Example grow_reuse_applies :
    exists s', resize 2 5000 s1 = (s', Ok tt) /\ DInv s' /\ free s' = [] /\
               stream_ids s' 2 ids0.
  Proof.
    destruct (big_at2 s1 [4; 5; 6; 7; 8; 9; 10; 11; 12]) as (V & HB & Hsi); [vm_compute; reflexivity..|].
    destruct (resize_big_grow_reuse_dinv s1 2 V [4; 5; 6; 7; 8; 9; 10; 11; 12] 5000 [] [13])
      as (s' & Hrun & HD' & _ & Hfree & Hsi'); try assumption.
    - apply coherent_b_sound. vm_compute. reflexivity.
    - apply dinv_b_sound. vm_compute. reflexivity.
    - apply safe_b_sound. vm_compute. reflexivity.
    - apply StoreProofs.storewf_b_sound. vm_compute. reflexivity.
    - vm_compute. reflexivity.
    - vm_compute. reflexivity.
    - vm_compute. reflexivity.
    - vm_compute. discriminate.
    - vm_compute. discriminate.
    - exists s'. auto.
  Qed.

  (* 3b': "/b" grows by two sectors appended to the file *)
  Example grow_append_applies :
    exists s', resize 2 6000 s0 = (s', Ok tt) /\ DInv s' /\ nsect s' = 16 /\
               stream_ids s' 2 (ids0 ++ [14; 15]).
  Proof.
    destruct (big_at2 s0 ids0) as (V & HB & Hsi); [vm_compute; reflexivity..|].
    destruct (resize_big_grow_append_dinv s0 2 V ids0 6000 2)
      as (s' & Hrun & HD' & _ & Hns & Hsi'); try assumption.
    - apply coherent_b_sound. vm_compute. reflexivity.
    - apply dinv_b_sound. vm_compute. reflexivity.
    - apply StoreProofs.storewf_b_sound. vm_compute. reflexivity.
    - reflexivity.
    - vm_compute. reflexivity.
    - vm_compute. reflexivity.
    - vm_compute. discriminate.
    - intros j Hj. assert (j = 0 \/ j = 1) as [->| ->] by lia; vm_compute; discriminate.
    - vm_compute. discriminate.
    - vm_compute. discriminate.
    - exists s'. split; [exact Hrun|]. split; [exact HD'|]. split; [rewrite Hns; reflexivity|exact Hsi'].
  Qed.
End AllocExamples.

(* ================================================================== *)
(* 5. metadata calls on files that hold data                           *)
(* ================================================================== *)

(* [DInv] looks at type, start sector and length of the entries only *)
Section SamePayload.
Variables s s' : cstate.
Hypothesis HD : DInv s.
Hypothesis Hslen : slen s' = slen s.
Hypothesis Hdifat : difat s' = difat s.
Hypothesis Hfat : fat s' = fat s.
Hypothesis Hds : dir_start s' = dir_start s.
Hypothesis Hms : minifat_start s' = minifat_start s.
Hypothesis Hmf : minifat s' = minifat s.
Hypothesis Hfwd : forall j e, nthN (dirs s) j = Some e ->
  exists e', nthN (dirs s') j = Some e' /\ tsl e e'.
Hypothesis Hbwd : forall j e', nthN (dirs s') j = Some e' ->
  exists e, nthN (dirs s) j = Some e /\ tsl e e'.

Lemma sp_fowns : forall o x, fowns s' o x <-> fowns s o x.
Proof.
  intros o x. destruct o as [| | | |j]; cbn [fowns]; rewrite ?Hdifat, ?Hfat, ?Hds, ?Hms; try tauto.
  - split.
    + intros (r' & ids & Hr' & Hc & Hx). destruct (Hbwd _ r' Hr') as (r & Hr & _ & Hs & _).
      exists r, ids. rewrite <- Hs. auto.
    + intros (r & ids & Hr & Hc & Hx). destruct (Hfwd _ r Hr) as (r' & Hr' & _ & Hs & _).
      exists r', ids. rewrite Hs. auto.
  - split.
    + intros (e' & ids & He' & Ht & Hb & Hc & Hx). destruct (Hbwd _ e' He') as (e & He & Hty & Hs & Hl).
      exists e, ids. rewrite <- Hty, <- Hs, <- Hl. auto.
    + intros (e & ids & He & Ht & Hb & Hc & Hx). destruct (Hfwd _ e He) as (e' & He' & Hty & Hs & Hl).
      exists e', ids. rewrite Hty, Hs, Hl. auto.
Qed.

Lemma sp_mowns : forall i x, mowns s' i x <-> mowns s i x.
Proof.
  intros i x. unfold mowns. rewrite Hmf. split.
  - intros (e' & ids & He' & Ht & Hp & Hb & Hc & Hx). destruct (Hbwd _ e' He') as (e & He & Hty & Hs & Hl).
    exists e, ids. rewrite <- Hty, <- Hs, <- Hl. auto 10.
  - intros (e & ids & He & Ht & Hp & Hb & Hc & Hx). destruct (Hfwd _ e He) as (e' & He' & Hty & Hs & Hl).
    exists e', ids. rewrite Hty, Hs, Hl. auto 10.
Qed.

Theorem same_payload_dinv : DInv s'.
Proof.
  constructor.
  - destruct (di_root s HD) as (r & rids & mids & Hr & Hrids & Hmids & Hrest).
    destruct (Hfwd _ r Hr) as (r' & Hr' & _ & Hs & Hl).
    exists r', rids, mids. rewrite Hslen, Hfat, Hms, Hs, Hl. auto.
  - intros j e' He' Ht Hl. destruct (Hbwd _ e' He') as (e & He & Hty & Hs & Hln).
    rewrite Hs. apply (di_empty s HD j e He); congruence.
  - intros j e' He' Ht Hb. destruct (Hbwd _ e' He') as (e & He & Hty & Hs & Hln).
    rewrite Hslen, Hfat, Hs, Hln. apply (di_big s HD j e He); congruence.
  - intros j e' He' Ht Hp Hb. destruct (Hbwd _ e' He') as (e & He & Hty & Hs & Hln).
    rewrite Hmf, Hs, Hln. apply (di_small s HD j e He); congruence.
  - intros o o' x Ho Ho'. apply sp_fowns in Ho, Ho'. exact (di_fat_uniq s HD o o' x Ho Ho').
  - intros x v Hv Hnf. rewrite Hfat in Hv. destruct (di_fat_cover s HD x v Hv Hnf) as (o & Ho).
    exists o. apply sp_fowns. exact Ho.
  - intros i j x Hi Hj. apply sp_mowns in Hi, Hj. exact (di_mini_uniq s HD i j x Hi Hj).
  - intros x v Hv Hnf. rewrite Hmf in Hv. destruct (di_mini_cover s HD x v Hv Hnf) as (i & Hi).
    exists i. apply sp_mowns. exact Hi.
Qed.
End SamePayload.

(* the read-modify-write of one entry by a setter that keeps name, type,
   colour, links, start and length *)
Theorem wdem_winv : forall s s' id f e,
  WInv s -> DataPersist.payload_keep f -> nthN (dirs s) id = Some e ->
  CodecProofs.dirent_wf (ver s) (f e) ->
  with_dir_entry_mut id f s = (s', Ok tt) -> Tidy (dirs s') -> WInv s'.
Proof.
  intros s s' id f e (HCD & HB & HD & _) Hf He Hwf H HT'.
  destruct (DataPersist.wdem_cohdata s s' id f e HCD Hf He Hwf H) as [HCD' _].
  destruct HCD as [HC HA]. destruct (Hf e) as (Hnav & Hst & Hln).
  destruct (DataPersist.wdem_coherent s s' id f e HC (DataPersist.cohdata_dir_mini s HA) He Hnav Hln Hwf H)
    as (HC' & Ed & dids & Hdids & F).
  pose proof (dframe_slen _ _ _ F) as Hsl.
  pose proof F as (F1 & F2 & F3 & F4 & F5 & F6 & F7 & F8 & F9 & F10 & _).
  destruct Hnav as (N1 & N2 & N3 & N4 & N5 & N6).
  pose proof (nthN_Some_lt _ _ _ _ He) as Hidlt.
  assert (HD' : DInv s').
  { apply (same_payload_dinv s s' HD); try assumption.
    - intros j e0 He0. rewrite Ed. destruct (N.eq_dec j id) as [->|Hj].
      + assert (e0 = e) by congruence. subst e0. exists (f e).
        split; [apply nthN_updN_same; exact Hidlt|]. repeat split; assumption.
      + exists e0. rewrite nthN_updN_other by congruence. split; [exact He0|]. repeat split.
    - intros j e' He'. rewrite Ed in He'. destruct (N.eq_dec j id) as [->|Hj].
      + rewrite nthN_updN_same in He' by exact Hidlt. injection He' as <-. exists e.
        split; [exact He|]. repeat split; assumption.
      + rewrite nthN_updN_other in He' by congruence. exists e'. split; [exact He'|]. repeat split. }
  split; [exact HCD'|]. split; [|split; [exact HD'|exact HT']].
  destruct HB as [_ Hents Hroot]. constructor; [exact HC'| |].
  - apply Forall_forall. intros e' Hin. rewrite Ed in Hin. rewrite F1.
    rewrite Forall_forall in Hents.
    destruct (In_updN _ _ _ _ _ Hin) as [->|Hold]; [|apply Hents; exact Hold].
    destruct (Hents e (nthN_In _ _ _ _ He)) as (_ & Hb & L1 & L2 & L3).
    split; [exact Hwf|]. split.
    + intro Hne. rewrite N3. apply Hb. rewrite <- N2. exact Hne.
    + unfold noroot_links. rewrite N4, N5, N6. repeat split; assumption.
  - destruct Hroot as (r & Hr & RL & RR & Hmod & Hfit). unfold RootOK. rewrite F8.
    destruct (N.eq_dec id ROOT_STREAM_ID) as [->|Hid].
    + assert (r = e) by congruence. subst r. exists (f e).
      split; [rewrite Ed; apply nthN_updN_same; exact Hidlt|]. rewrite N4, N5, Hln. auto.
    + exists r. split; [rewrite Ed, nthN_updN_other by congruence; exact Hr|]. auto.
Qed.

(* a metadata call of the API keeps the full invariant, whatever it returns *)
Theorem meta_step_winv : forall f now o,
  WInv (cs f) -> DataPersist.meta_op o -> WInv (cs (fst (step f now o))).
Proof.
  intros f now o HG Ho. pose proof HG as ([HC HA] & _ & _ & HT).
  destruct o; cbn [DataPersist.meta_op] in Ho; try contradiction; cbn [step]; unfold with_cs.
  - destruct (api_set_clsid p g (cs f)) as [s' r] eqn:E. cbn [fst cs].
    destruct (DataPersist.set_clsid_cases p g (cs f) s' r HC E) as [(-> & id & e & He & Ht & Hw)|Hs];
      [|subst s'; exact HG].
    refine (wdem_winv (cs f) s' id _ e HG _ He _ Hw (set_clsid_tidy p g (cs f) s' HT E)).
    + intro e0. unfold DataPersist.nav_eq.
      cbn [set_clsid d_name d_type d_color d_left d_right d_child d_start d_len]. repeat split.
    + apply DataPersist.wf_set_clsid; [apply (ch_dir_wf _ HC); eapply nthN_In; exact He|exact Ho|exact Ht].
  - destruct (api_set_state p bits (cs f)) as [s' r] eqn:E. cbn [fst cs].
    pose proof E as E0. unfold api_set_state in E.
    destruct (DataPersist.set_entry_cases p (fun e0 => set_state e0 bits) (cs f) s' r HC ltac:(reflexivity) E)
      as [(-> & id & e & He & Hw)|Hs]; [|subst s'; exact HG].
    refine (wdem_winv (cs f) s' id _ e HG _ He _ Hw (set_state_tidy p bits (cs f) s' HT E0)).
    + intro e0. unfold DataPersist.nav_eq.
      cbn [set_state d_name d_type d_color d_left d_right d_child d_start d_len]. repeat split.
    + apply DataPersist.wf_set_state; [apply (ch_dir_wf _ HC); eapply nthN_In; exact He|exact Ho].
  - destruct (api_set_created p before secs nanos (cs f)) as [s' r] eqn:E. cbn [fst cs].
    pose proof E as E0. unfold api_set_created in E.
    destruct (DataPersist.set_entry_cases p (fun e0 => if objtype_eqb (d_type e0) TStream then e0
                                           else set_ctime e0 (from_system_time before secs nanos)) (cs f) s' r HC
                ltac:(intro e0; cbv beta; destruct (objtype_eqb (d_type e0) TStream); reflexivity) E)
      as [(-> & id & e & He & Hw)|Hs]; [|subst s'; exact HG].
    refine (wdem_winv (cs f) s' id _ e HG _ He _ Hw (set_created_tidy p before secs nanos (cs f) s' HT E0)).
    + intro e0. cbv beta. unfold DataPersist.nav_eq. destruct (objtype_eqb (d_type e0) TStream);
        cbn [set_ctime d_name d_type d_color d_left d_right d_child d_start d_len]; repeat split.
    + cbv beta. pose proof (ch_dir_wf _ HC e (nthN_In _ _ _ _ He)) as W.
      destruct (objtype_eqb (d_type e) TStream) eqn:T; [exact W|].
      apply DataPersist.wf_set_ctime; [exact W|apply TimeProofs.from_time_range|apply objtype_eqb_false; exact T].
  - destruct (api_set_modified p before secs nanos (cs f)) as [s' r] eqn:E. cbn [fst cs].
    pose proof E as E0. unfold api_set_modified in E.
    destruct (DataPersist.set_entry_cases p (fun e0 => if objtype_eqb (d_type e0) TStream then e0
                                           else set_mtime e0 (from_system_time before secs nanos)) (cs f) s' r HC
                ltac:(intro e0; cbv beta; destruct (objtype_eqb (d_type e0) TStream); reflexivity) E)
      as [(-> & id & e & He & Hw)|Hs]; [|subst s'; exact HG].
    refine (wdem_winv (cs f) s' id _ e HG _ He _ Hw (set_modified_tidy p before secs nanos (cs f) s' HT E0)).
    + intro e0. cbv beta. unfold DataPersist.nav_eq. destruct (objtype_eqb (d_type e0) TStream);
        cbn [set_mtime d_name d_type d_color d_left d_right d_child d_start d_len]; repeat split.
    + cbv beta. pose proof (ch_dir_wf _ HC e (nthN_In _ _ _ _ He)) as W.
      destruct (objtype_eqb (d_type e) TStream) eqn:T; [exact W|].
      apply DataPersist.wf_set_mtime; [exact W|apply TimeProofs.from_time_range|apply objtype_eqb_false; exact T].
Qed.

(* the histories of DataPersist.v (covered handle operations, queries and
   metadata calls): the checker accepts the bytes after every prefix *)
Theorem data_step_winv : forall f now o,
  WInv (cs f) -> DataPersist.data_step_ok f o -> WInv (cs (fst (step f now o))).
Proof.
  intros f now o HG Hok. unfold DataPersist.data_step_ok in Hok.
  destruct (handle_slot o) as [i|] eqn:Eslot.
  - apply wdata_step_winv; [exact HG|]. unfold wdata_step_ok. rewrite Eslot. exact Hok.
  - destruct Hok as [Hq|Hm]; [|exact (meta_step_winv f now o HG Hm)].
    apply wdata_step_winv; [exact HG|]. unfold wdata_step_ok. rewrite Eslot. exact Hq.
Qed.

Theorem data_history_winv : forall l f,
  WInv (cs f) -> DataPersist.data_hist_ok f l -> WInv (cs (fst (ReadonlyTotal.run_ops f l))).
Proof.
  induction l as [|[now o] t IH]; intros f HG Hrun; [exact HG|].
  cbn [DataPersist.data_hist_ok] in Hrun. destruct Hrun as [Hok Hrun].
  rewrite PersistProofs.run_ops_cons. apply IH; [|exact Hrun].
  apply data_step_winv; assumption.
Qed.

Theorem wf_data_history_meta : forall (l1 l2 : list (N * op)) f,
  WInv (cs f) -> DataPersist.data_hist_ok f (l1 ++ l2) ->
  wf_check (concat_img (img (cs (fst (ReadonlyTotal.run_ops f l1))))) = 0.
Proof.
  intros l1 l2 f HG Hrun. apply winv_image_wf.
  apply data_history_winv; [exact HG|]. eapply DataPersist.data_hist_ok_app. exact Hrun.
Qed.

(* ================================================================== *)
(* 6. evidence by evaluation for the operations not yet covered by a    *)
(*    preservation theorem (3d small growth with allocation, 3e         *)
(*    migrations, 3f removal of a stream with data)                     *)
(* ================================================================== *)
Module Evaluated.
  Import Examples.

  Definition good_b (s : cstate) : bool :=
    dinv_b s && (wf_check (concat_img (img s)) =? 0).

  (* every state along a run satisfies the (decidable) invariant and is
     accepted by the checker *)
  Fixpoint all_good (f : fstate) (ops : list op) : bool :=
    match ops with
    | [] => true
    | o :: t => let f1 := fst (step f 0 o) in good_b (cs f1) && all_good f1 t
    end.

  Definition pd : list N := [47; 100].
  Definition wr (h : N) (n : nat) := [OHWrite h (bytesN n); OHFlush h].
  (* three streams of 4000 bytes (188 mini sectors: a second MiniFAT sector in
     version 3, several container sectors), shrinking to 10 and to 0, removal
     of streams that hold data (small and large), both migrations at
     4095 / 4096, reuse of freed sectors and mini sectors, removal of everything *)
  Definition long_run : list op :=
    [OCreateNewStream 0 pa; OCreateNewStream 1 pb; OCreateNewStream 2 pc; OCreateNewStream 3 pd] ++
    wr 0 4000 ++ wr 1 4000 ++ wr 2 4000 ++ wr 3 100 ++
    [OHSetLen 0 10; OHFlush 0; OHSetLen 1 0; OHFlush 1; OHDrop 2; ORemoveStream pc;
     OHSetLen 3 3000; OHFlush 3; OHSetLen 0 4095; OHFlush 0; OHSetLen 0 4096; OHFlush 0;
     OHSetLen 0 4095; OHFlush 0; OHDrop 0; ORemoveStream pa; OHDrop 1; ORemoveStream pb;
     OHSetLen 3 0; OHFlush 3; OHSetLen 3 64; OHFlush 3; OCreateNewStream 0 pa] ++
    wr 0 8000 ++
    [OHSetLen 0 20000; OHFlush 0; OHSetLen 0 600; OHFlush 0; OHDrop 0; ORemoveStream pa;
     OHDrop 3; ORemoveStream pd].

  Example long_run_v3 : all_good (init_fstate V3 4096 4) long_run = true.
  Proof. vm_compute. reflexivity. Qed.
  Example long_run_v4 : all_good (init_fstate V4 4096 4) long_run = true.
  Proof. vm_compute. reflexivity. Qed.

  (* small scope, exhaustively: every sequence of two set_len calls on two
     streams, over lengths on both sides of the cutoff and of sector and mini
     sector boundaries, from the file with two empty streams (210 states per
     version; the same search to depth 3 in version 4 (2954 states) and to
     depth 4 in version 3 was run outside the build and finds no rejected state) *)
  Definition sizes : list N := [0; 64; 100; 4095; 4096; 5000; 9000].
  Definition alphabet : list op := map (OHSetLen 0) sizes ++ map (OHSetLen 1) sizes.
  Fixpoint explore (d : nat) (f : fstate) : bool :=
    match d with
    | O => true
    | S d' => forallb (fun o => let f1 := fst (step f 0 o) in good_b (cs f1) && explore d' f1) alphabet
    end.
  Definition f0 (v : version) : fstate := fst (run (init_fstate v 4096 4) mk_both).

  Example explore2_v3 : explore 2 (f0 V3) = true.
  Proof. vm_compute. reflexivity. Qed.
  Example explore2_v4 : explore 2 (f0 V4) = true.
  Proof. vm_compute. reflexivity. Qed.
End Evaluated.

(* ================================================================== *)
(* summary                                                             *)
(* ================================================================== *)
Check dinv_image_wf.
Check empty_dinv.
Check pinv_image_wf_again.
Check dinv_b_sound.
Check dbase_b_sound.
Check tidy_updN_start_len.
Check big_change_dinv.
Check small_same_dinv.
Check covered_write_dinv.
Check covered_resize_dinv.
Check resize_big_grow_reuse_dinv.
Check resize_big_grow_append_dinv.
Check resize_big_shrink_dinv.
Check wf_data_history.
Check wf_data_history_meta.
Print Assumptions dinv_image_wf.
Print Assumptions empty_dinv.
Print Assumptions pinv_image_wf_again.
Print Assumptions dinv_b_sound.
Print Assumptions dbase_b_sound.
Print Assumptions big_change_dinv.
Print Assumptions small_same_dinv.
Print Assumptions covered_write_dinv.
Print Assumptions covered_resize_dinv.
Print Assumptions resize_big_grow_reuse_dinv.
Print Assumptions resize_big_grow_append_dinv.
Print Assumptions resize_big_shrink_dinv.
Print Assumptions wf_data_history.
Print Assumptions wf_data_history_meta.
Print Assumptions Examples.churn_v3.
Print Assumptions Examples.churn_v4.
Print Assumptions HistoryExample.history_wf.
Print Assumptions AllocExamples.shrink_applies.
Print Assumptions AllocExamples.grow_reuse_applies.
Print Assumptions AllocExamples.grow_append_applies.
