(* HistoryRefine.v — C01 for whole histories: the per-step refinement theorems
   of QueryRefine.v / MutRefine.v lifted, by induction over the list of calls,
   to arbitrary sequences of namespace operations and queries.

   Covered calls (spec_of): the seven namespace mutations of MutRefine.ns_spec
   (create_storage, remove_storage, remove_stream, set_storage_clsid,
   set_state_bits, set_created_time, set_modified_time), the nine queries of
   QueryRefine.query_spec (exists, is_stream, is_storage, entry, root_entry,
   read_storage, read_root, walk, walk_storage), open_stream, create_new_stream,
   and create_stream as long as it does not hit an existing stream
   (no_truncate; the static class [covered] simply leaves create_stream out).

   H1  fresh_sim                 the freshly created file represents empty_tree
   H2  step_forward              model Ok  ==> spec Ok, related values, Sim kept,
                                 the table grows by at most one slot
   H3  step_refusal              spec Err k ==> model Err k, both states unchanged
   H4  step_agreement            hence the two sides agree on every step unless
                                 the spec says Ok and the model fails late
                                 (late_failure: Err / Panic / OutOfFuel raised
                                 after the model's own checks, by allocation,
                                 I/O or fuel, which the per-step theorems do
                                 not exclude)
   H5  history_refines(_from)    Forall2 result_rel on the whole history under
                                 NoLateFailure, and Sim at the end
   H6  history_agrees_until_late_failure   without NoLateFailure: agreement up
                                 to the first late failure, and the first
                                 difference, if any, is one
   H7  fresh_history_refines, fresh_history_agrees_until_late_failure
   H8  Example: 18 calls (5 refused) and 6 calls through create_stream, both
       format versions; NoLateFailure decided by computation.

   Not covered: create_stream over an existing stream (truncation goes through
   Handle/resize; create_stream_overwrite_refines needs chain-level hypotheses
   that cannot be re-established from Sim), create_storage_all /
   remove_storage_all (no per-step refinement theorem), everything on handles
   (content), OCat, OReopen, OFlushFile / OVersion (no counterpart in sop).
   Handles opened or created along the way stay in the handle table; Sim does
   not speak about them since no covered call uses one. *)
From Coq Require Import List NArith Lia Bool Sorted Permutation ZifyN ZifyBool Arith.
From Cfb.model Require Import Base Names Time DirEnt State Alloc Dir Mini Store Handle Open Cfb.
From Cfb.gen Require Import Consts.
From Cfb.spec Require Import Tree.
From Cfb.proofs Require Import NamesProofs DirProofs TreeProofs QueryRefine MutRefine ReadonlyTotal.
Import ListNotations.
Open Scope N_scope.


(* ================================================================== *)
(* 0. the freshly created file                                         *)
(* ================================================================== *)
Lemma base_rep : forall v c, TreeRep (dirs (create_state v)) c empty_tree.
Proof.
  intros v c. unfold TreeRep, empty_tree. cbn [NodeRep]. split; [vm_compute; reflexivity|].
  exists dirent_empty_root. split; [reflexivity|]. split; [reflexivity|].
  split; [reflexivity|]. split; [reflexivity|]. split; [discriminate|].
  exists BL. cbn. repeat split. constructor.
Qed.

Lemma base_unshared : forall v, Unshared (dirs (create_state v)) empty_tree.
Proof.
  intros v. exists [ROOT_STREAM_ID]. split.
  - unfold empty_tree. cbn [AllIds]. exists dirent_empty_root, BL. split; [reflexivity|].
    split; [reflexivity|]. exists []. split; [exact I|reflexivity].
  - constructor; [intros []|constructor].
Qed.

(* ================================================================== *)
(* 1. growth of the directory table: at most one slot per call         *)
(* ================================================================== *)
Lemma lenN_app1 : forall A (a : list A) x, lenN (a ++ [x]) = lenN a + 1.
Proof. intros A a x. rewrite !lenN_length, app_length. cbn [length]. lia. Qed.

Lemma alloc_tbl_len : forall ds ds0 id, (ds0, id) = alloc_tbl ds -> lenN ds0 <= lenN ds + 1.
Proof.
  intros ds ds0 id H. unfold alloc_tbl in H. destruct (first_unalloc ds 0).
  - injection H as -> _. lia.
  - injection H as -> _. rewrite lenN_app1. lia.
Qed.

Lemma tbl_link_len : forall ds parent prev ord id, lenN (tbl_link ds parent prev ord id) = lenN ds.
Proof.
  intros ds parent prev ord id. unfold tbl_link. destruct ord.
  - destruct (nthN ds prev); [apply lenN_updN|reflexivity].
  - apply lenN_modN.
  - apply lenN_modN.
Qed.

Lemma insert_len : forall parent nm ty now s s' id,
  insert_dir_entry parent nm ty now s = (s', Ok id) -> lenN (dirs s') <= lenN (dirs s) + 1.
Proof.
  intros parent nm ty now s s' id H.
  destruct (insert_proj _ _ _ _ _ _ _ H) as (ds0 & p1 & prev & ord & Hal & _ & Hrest).
  cbv zeta in Hrest. destruct Hrest as (_ & _ & ->).
  rewrite tbl_link_len, lenN_updN. eapply alloc_tbl_len. exact Hal.
Qed.

Lemma create_storage_len : forall p now s s' u,
  api_create_storage p now s = (s', Ok u) -> lenN (dirs s') <= lenN (dirs s) + 1.
Proof.
  intros p now s s' u H. unfold api_create_storage, create_storage_names in H.
  destruct (names_lookup_inv _ _ _ _ _ _ H) as (names & r & En & Hlk & HK).
  destruct r as [id0|].
  { binv HK e0 s1 H1 H2. discriminate H2. }
  destruct (lastN names) as [nm|] eqn:Hlast; [|discriminate HK].
  binv HK u1 s1 H1 H2. apply lift_inv in H1. destruct H1 as [-> Hv].
  destruct (lookup_inv _ _ _ _ _ _ H2) as (pr & Hlkp & H3). clear H2.
  destruct pr as [pid|]; [|discriminate H3].
  binv H3 pe s1 H1 H2. apply dir_entry_inv in H1. destruct H1 as [-> Hpe].
  destruct (objtype_eqb (d_type pe) TStream) eqn:Ty; [discriminate H2|].
  binv H2 nid s1 H1 H2. apply ret_inv in H2. destruct H2 as [-> _].
  eapply insert_len. exact H1.
Qed.

(* a creation that goes through the insertion path *)
Lemma create_stream_len : forall p overwrite mb now s s' h,
  (overwrite = false \/
   forall names, name_chain_from_path p = Ok names ->
     lookup_chain (dirs s) names ROOT_STREAM_ID = Ok None) ->
  api_create_stream p overwrite mb now s = (s', Ok h) -> lenN (dirs s') <= lenN (dirs s) + 1.
Proof.
  intros p overwrite mb now s s' h Hnew H. unfold api_create_stream in H.
  destruct (names_lookup_inv _ _ _ _ _ _ H) as (names & r & En & Hlk & HK).
  destruct r as [id0|].
  { destruct Hnew as [->|Hnew].
    - binv HK e0 s1 H1 H2. destruct (negb (objtype_eqb (d_type e0) TStream)); discriminate H2.
    - rewrite (Hnew names En) in Hlk. discriminate Hlk. }
  destruct (lastN names) as [nm|]; [|discriminate HK].
  binv HK u1 s1 H1 H2. apply lift_inv in H1. destruct H1 as [-> Hv].
  destruct (lookup_inv _ _ _ _ _ _ H2) as (pr & Hlkp & H3). clear H2.
  destruct pr as [pid|]; [|discriminate H3].
  binv H3 pe s1 H1 H2. apply dir_entry_inv in H1. destruct H1 as [-> Hpe].
  destruct (objtype_eqb (d_type pe) TStream); [discriminate H2|].
  binv H2 nid s1 H1 H2.
  unfold handle_new', handle_new, stream_len_of in H2. rewrite q_bind_eq, q_dir_entry_run in H2.
  destruct (dir_entry_of (dirs s1) nid) as [e| | |]; try discriminate H2.
  cbn [ret] in H2. injection H2 as <- _.
  eapply insert_len. exact H1.
Qed.

Lemma remove_storage_len : forall p s s' u,
  api_remove_storage p s = (s', Ok u) -> lenN (dirs s') = lenN (dirs s).
Proof.
  intros p s s' u H. unfold api_remove_storage, remove_storage_names in H.
  destruct (names_lookup_inv _ _ _ _ _ _ H) as (names & r & En & Hlk & HK).
  destruct r as [id0|]; [|discriminate HK].
  binv HK e s1 H1 H2. apply dir_entry_inv in H1. destruct H1 as [-> He].
  destruct (objtype_eqb (d_type e) TRoot); [discriminate H2|].
  destruct (objtype_eqb (d_type e) TStream); [discriminate H2|].
  destruct (objtype_eqb (d_type e) TStorage); cbn [negb] in H2; [|discriminate H2].
  destruct (d_child e =? NO_STREAM); cbn [negb] in H2; [|discriminate H2].
  destruct (lastN names) as [nm|]; [|discriminate H2].
  destruct (lookup_inv _ _ _ _ _ _ H2) as (pr & Hlkp & H3). clear H2.
  destruct pr as [pid|]; [|discriminate H3].
  destruct (remove_ids_stable_raw _ _ _ _ _ H3) as (x & ex & _ & _ & _ & _ & _ & L & _). exact L.
Qed.

Lemma remove_stream_len : forall p s s' u,
  api_remove_stream p s = (s', Ok u) -> lenN (dirs s') = lenN (dirs s).
Proof.
  intros p s s' u H. unfold api_remove_stream, remove_stream_names in H.
  destruct (names_lookup_inv _ _ _ _ _ _ H) as (names & r & En & Hlk & HK).
  destruct r as [id0|]; [|discriminate HK].
  binv HK e s1 H1 H2. apply dir_entry_inv in H1. destruct H1 as [-> He].
  destruct (objtype_eqb (d_type e) TStream); cbn [negb] in H2; [|discriminate H2].
  destruct (d_child e =? NO_STREAM); cbn [negb] in H2; [|discriminate H2].
  binv H2 u1 s1 H1 H2.
  assert (RootLen (dirs s) (dirs s1)) as HRL.
  { destruct (d_len e <? MINI_STREAM_CUTOFF).
    - eapply free_mini_chain_rootlen. exact H1.
    - apply RootLen_eq. eapply frames_run; [apply frames_free_chain|exact H1]. }
  destruct HRL as [L1 _].
  destruct (lastN names) as [nm|]; [|discriminate H2].
  destruct (lookup_inv _ _ _ _ _ _ H2) as (pr & Hlkp & H3). clear H2.
  destruct pr as [pid|]; [|discriminate H3].
  destruct (remove_ids_stable_raw _ _ _ _ _ H3) as (x & ex & _ & _ & _ & _ & _ & L & _). congruence.
Qed.

Lemma set_entry_len : forall p g s s' u,
  set_entry_with_path p g s = (s', Ok u) -> lenN (dirs s') = lenN (dirs s).
Proof.
  intros p g s s' u H. unfold set_entry_with_path in H.
  destruct (names_lookup_inv _ _ _ _ _ _ H) as (names & r & En & Hlk & HK).
  destruct r as [id0|]; [|discriminate HK].
  destruct (wdem_inv _ _ _ _ _ HK) as (e & _ & ->). apply lenN_modN.
Qed.

Lemma set_clsid_len : forall p g s s' u,
  api_set_clsid p g s = (s', Ok u) -> lenN (dirs s') = lenN (dirs s).
Proof.
  intros p g s s' u H. unfold api_set_clsid in H.
  destruct (names_lookup_inv _ _ _ _ _ _ H) as (names & r & En & Hlk & HK).
  destruct r as [id0|]; [|discriminate HK].
  binv HK e s1 H1 H2. apply dir_entry_inv in H1. destruct H1 as [-> He].
  destruct (objtype_eqb (d_type e) TStream); [discriminate H2|].
  destruct (wdem_inv _ _ _ _ _ H2) as (e' & _ & ->). apply lenN_modN.
Qed.

(* ================================================================== *)
(* 2. the operations covered and their specification counterparts      *)
(* ================================================================== *)
Definition spec_of (o : op) : option sop :=
  match o with
  | OCreateStream _ p => Some (SCreateStream p true)
  | OCreateNewStream _ p => Some (SCreateStream p false)
  | OOpenStream _ p => Some (SOpenStream p)
  | _ => match ns_spec o with Some so => Some so | None => query_spec o end
  end.

(* [create_stream] over an EXISTING stream truncates it through the handle /
   resize machinery, which the per-step theorems cover only under hypotheses
   about the chain level; it is excluded by a condition on the abstract tree *)
Definition no_truncate (t : node) (o : op) : Prop :=
  match o with
  | OCreateStream _ p =>
    forall names st bs, name_chain_from_path p = Ok names -> Tree.get t names <> Some (Leaf st bs)
  | _ => True
  end.

(* the state-independent class *)
Definition covered (o : op) : Prop :=
  spec_of o <> None /\ match o with OCreateStream _ _ => False | _ => True end.

Lemma covered_no_truncate : forall t o, covered o -> no_truncate t o.
Proof. intros t o [_ H]. destruct o; try exact I. contradiction. Qed.

Inductive op_class (o : op) (so : sop) : Prop :=
| OC_ns : ns_spec o = Some so -> op_class o so
| OC_query : query_spec o = Some so -> op_class o so
| OC_open : forall i p, o = OOpenStream i p -> so = SOpenStream p -> op_class o so
| OC_create : forall i p (fresh_only : bool),
    o = (if fresh_only then OCreateNewStream i p else OCreateStream i p) ->
    so = SCreateStream p (negb fresh_only) -> op_class o so.

Lemma spec_of_class : forall o so, spec_of o = Some so -> op_class o so.
Proof.
  intros o so H.
  destruct o; cbn [spec_of ns_spec query_spec] in H; try discriminate H; injection H as <-;
    try (apply OC_ns; reflexivity); try (apply OC_query; reflexivity).
  - apply (OC_create _ _ h p false); reflexivity.
  - apply (OC_create _ _ h p true); reflexivity.
  - apply (OC_open _ _ h p); reflexivity.
Qed.

(* ================================================================== *)
(* 3. the simulation relation                                          *)
(* ================================================================== *)
Definition TableRep (f : fstate) (t : node) : Prop :=
  exists c : N -> list byte -> Prop,
    TreeRep (dirs (cs f)) c t /\ Unshared (dirs (cs f)) t.

Definition Sim (f : fstate) (t : node) : Prop :=
  TableRep f t /\ lenN (dirs (cs f)) < NO_STREAM.

Definition result_rel (r : res value) (r' : res svalue) : Prop := res_rel val_rel r r'.

(* ---- the specification never panics / runs out of fuel ---- *)
Lemma spec_not_bad : forall o so t now,
  spec_of o = Some so -> is_bad (snd (spec_step t now so)) = false.
Proof.
  intros o so t now H.
  destruct o; cbn [spec_of ns_spec query_spec] in H; try discriminate H; injection H as <-;
    cbn [spec_step]; unfold with_names, create_storage_at; try reflexivity;
    (destruct (name_chain_cases p) as [(names & ->)| ->]; [|reflexivity]);
    repeat (break_match; try reflexivity).
Qed.

Lemma spec_ok_or_err : forall o so t now,
  spec_of o = Some so ->
  (exists t' sv, spec_step t now so = (t', Ok sv)) \/ (exists k, spec_step t now so = (t, Err k)).
Proof.
  intros o so t now H. pose proof (spec_not_bad o so t now H) as B.
  pose proof (spec_refused_no_effect t now so) as R.
  destruct (spec_step t now so) as [t' [sv|k|n|]]; cbn [snd fst is_bad] in *; try discriminate B.
  - left. eauto.
  - right. exists k. rewrite (R k eq_refl). reflexivity.
Qed.

(* ---- growth of the table in one successful step ---- *)
Lemma ns_step_len : forall f f' now o so v,
  ns_spec o = Some so -> step f now o = (f', Ok v) ->
  lenN (dirs (cs f')) <= lenN (dirs (cs f)) + 1.
Proof.
  intros f f' now o so v Hs H.
  destruct o; cbn [ns_spec] in Hs; try discriminate Hs; clear Hs; cbn [step] in H;
    destruct (with_cs_inv _ _ _ _ _ _ H) as (s' & a & Hm & -> & _); cbn [cs].
  - eapply create_storage_len. exact Hm.
  - rewrite (remove_storage_len _ _ _ _ Hm). lia.
  - rewrite (remove_stream_len _ _ _ _ Hm). lia.
  - rewrite (set_clsid_len _ _ _ _ _ Hm). lia.
  - unfold api_set_state in Hm. rewrite (set_entry_len _ _ _ _ _ Hm). lia.
  - unfold api_set_created in Hm. rewrite (set_entry_len _ _ _ _ _ Hm). lia.
  - unfold api_set_modified in Hm. rewrite (set_entry_len _ _ _ _ _ Hm). lia.
Qed.

Lemma walk_size_from_unshared : forall o ds t, Unshared ds t -> walk_size_ok o ds t.
Proof. intros o ds t HU. destruct o; cbn [walk_size_ok]; try exact I; apply unshared_fuel; exact HU. Qed.

Lemma with_new_handle_inv : forall f f' i m v,
  with_new_handle f i m = (f', Ok v) ->
  exists s' h, m (cs f) = (s', Ok h) /\ f' = mkF s' (updN (hs f) i (Some h)) (maxbuf f) /\ v = VUnit.
Proof.
  intros f f' i m v H. unfold with_new_handle in H.
  destruct (m (cs f)) as [s' [h|k|n|]]; try discriminate H. injection H as <- <-. eauto.
Qed.

Lemma with_new_handle_refused : forall f i m k,
  m (cs f) = (cs f, Err k) -> with_new_handle f i m = (f, Err k).
Proof. intros f i m k H. unfold with_new_handle. rewrite H. destruct f; reflexivity. Qed.

Lemma with_cs_refused : forall A f (m : M A) (g : A -> value) k,
  m (cs f) = (cs f, Err k) -> with_cs f m g = (f, Err k).
Proof. intros A f m g k H. unfold with_cs. rewrite H. destruct f; reflexivity. Qed.

Lemma create_step_eq : forall f now i p (fresh_only : bool),
  step f now (if fresh_only then OCreateNewStream i p else OCreateStream i p) =
  with_new_handle f i (api_create_stream p (negb fresh_only) (maxbuf f) now).
Proof.
  intros f now i p [|]; cbn [step negb]; [reflexivity|].
  destruct f as [s h mb]; cbn [cs hs maxbuf].
  destruct (with_new_handle _ _ _); reflexivity.
Qed.

(* ================================================================== *)
(* 4. one step, forward: the model's success is the specification's    *)
(* ================================================================== *)
Theorem step_forward : forall f f' t now o so v,
  Sim f t -> spec_of o = Some so -> no_truncate t o ->
  step f now o = (f', Ok v) ->
  exists t' sv, spec_step t now so = (t', Ok sv) /\ val_rel v sv /\
    TableRep f' t' /\ lenN (dirs (cs f')) <= lenN (dirs (cs f)) + 1.
Proof.
  intros f f' t now o so v [(c & HT & HU) Hlen] Hs Hnt H.
  destruct (spec_of_class o so Hs) as [Hns|Hq|i p -> ->|i p fresh_only -> ->].
  - (* namespace mutation *)
    destruct (namespace_step_refines c c f f' t now o so v Hns HT HU Hlen (fun i bs _ X => X) H)
      as (t' & H1 & H2 & H3 & -> & _).
    exists t', SVUnit. split; [exact H1|]. split; [exact I|]. split; [exists c; auto|].
    eapply ns_step_len; eassumption.
  - (* query *)
    destruct (query_step_refines c f t HT now o so Hq (walk_size_from_unshared _ _ _ HU))
      as (r & r' & H1 & H2 & H3).
    rewrite H1 in H. injection H as <- ->.
    destruct r' as [sv|k|n|]; try contradiction.
    exists t, sv. split; [exact H2|]. split; [exact H3|]. split; [exists c; auto|lia].
  - (* open_stream *)
    destruct (open_stream_step_refines c f t HT now i p) as (f1 & r & r' & H1 & H2 & H3 & H4 & _).
    rewrite H1 in H. injection H as <- ->.
    destruct r' as [sv|k|n|]; try contradiction.
    exists t, sv. split; [exact H2|]. split; [exact H3|]. unfold TableRep. rewrite H4. split; [exists c; auto|lia].
  - (* create_stream / create_new_stream at a fresh path *)
    assert (forall names, name_chain_from_path p = Ok names -> Tree.get t names = None) as Hnew.
    { intros names En. destruct (Tree.get t names) as [n|] eqn:G; [exfalso|reflexivity].
      assert (exists k, spec_step t now (SCreateStream p (negb fresh_only)) = (t, Err k)) as (k & Hk).
      { cbn [spec_step]. unfold with_names. rewrite En, G. destruct n as [st bs|m ks]; [|eauto].
        destruct fresh_only; cbn [negb]; [eauto|]. exfalso. eapply (Hnt names st bs); eauto. }
      pose proof (create_stream_refusal c (cs f) t HT now p _ (maxbuf f) k t Hk) as Hr.
      rewrite create_step_eq, (with_new_handle_refused _ _ _ _ Hr) in H. discriminate H. }
    set (c' := fun j bs => (j <> next_slot (cs f) /\ c j bs) \/ (j = next_slot (cs f) /\ bs = [])).
    destruct (create_stream_step_refines c c' f f' t now i p fresh_only v HT HU Hlen Hnew)
      as (t' & h & H1 & H2 & H3 & -> & _); [| |exact H|].
    { intros j bs Hj Hc. left. auto. }
    { right. auto. }
    exists t', SVUnit. split; [exact H1|]. split; [exact I|]. split; [exists c'; auto|].
    rewrite create_step_eq in H.
    destruct (with_new_handle_inv _ _ _ _ _ H) as (s' & h' & Hm & -> & _). cbn [cs].
    eapply create_stream_len; [|exact Hm]. right. intros names En.
    destruct (lookup_refines_get _ _ _ HT names) as (res & Hl & Hmm). rewrite (Hnew names En) in Hmm.
    destruct res; [contradiction|exact Hl].
Qed.

(* ================================================================== *)
(* 5. one step, refusal: the specification's refusal is the model's    *)
(* ================================================================== *)
Theorem step_refusal : forall f t t' now o so k,
  Sim f t -> spec_of o = Some so ->
  spec_step t now so = (t', Err k) ->
  step f now o = (f, Err k) /\ t' = t.
Proof.
  intros f t t' now o so k [(c & HT & HU) Hlen] Hs H.
  assert (t' = t) as ->.
  { pose proof (spec_refused_no_effect t now so k) as R. rewrite H in R. exact (R eq_refl). }
  split; [|reflexivity].
  destruct (spec_of_class o so Hs) as [Hns|Hq|i p -> ->|i p fresh_only -> ->].
  - destruct o; cbn [ns_spec] in Hns; try discriminate Hns; injection Hns as <-; cbn [step];
      apply with_cs_refused.
    + eapply create_storage_refusal; eassumption.
    + eapply remove_storage_refusal; eassumption.
    + eapply remove_stream_refusal; eassumption.
    + eapply set_clsid_refusal; eassumption.
    + eapply set_state_refusal; eassumption.
    + eapply set_created_refusal; eassumption.
    + eapply set_modified_refusal; eassumption.
  - destruct (query_step_refines c f t HT now o so Hq (walk_size_from_unshared _ _ _ HU))
      as (r & r' & H1 & H2 & H3).
    rewrite H2 in H. injection H as ->. rewrite H1.
    destruct r as [v|k'|n|]; try contradiction. cbn [res_rel] in H3. subst k'. reflexivity.
  - destruct (open_stream_step_refines c f t HT now i p) as (f1 & r & r' & H1 & H2 & H3 & _ & _ & H6).
    rewrite H2 in H. injection H as ->. rewrite H1.
    destruct r as [v|k'|n|]; try contradiction. cbn [res_rel] in H3. subst k' f1. reflexivity.
  - rewrite create_step_eq. apply with_new_handle_refused.
    eapply create_stream_refusal; eassumption.
Qed.

(* ================================================================== *)
(* 6. one step, both directions together                               *)
(* ================================================================== *)
(* the only way the two sides can differ: the specification accepts the call
   and the model fails after its own checks (allocation / I/O / fuel) *)
Definition late_failure (r : res value) (r' : res svalue) : Prop :=
  is_ok r' = true /\ is_ok r = false.

Theorem step_agreement : forall f f' t t' now o so r r',
  Sim f t -> spec_of o = Some so -> no_truncate t o ->
  step f now o = (f', r) -> spec_step t now so = (t', r') ->
  (result_rel r r' /\ TableRep f' t' /\ lenN (dirs (cs f')) <= lenN (dirs (cs f)) + 1) \/
  late_failure r r'.
Proof.
  intros f f' t t' now o so r r' HS Hs Hnt H H'.
  destruct (spec_ok_or_err o so t now Hs) as [(t1 & sv & E)|(k & E)]; rewrite E in H'; injection H' as <- <-.
  - destruct r as [v|k|n|]; try (right; split; reflexivity).
    destruct (step_forward _ _ _ _ _ _ _ HS Hs Hnt H) as (t2 & sv2 & E2 & Hv & HR & Hg).
    rewrite E in E2. injection E2 as <- <-. left. auto.
  - destruct (step_refusal _ _ _ _ _ _ _ HS Hs E) as [E2 _]. rewrite E2 in H. injection H as <- <-.
    left. split; [reflexivity|]. split; [exact (proj1 HS)|lia].
Qed.

(* ================================================================== *)
(* 7. histories                                                        *)
(* ================================================================== *)
(* the specification run along the same list of calls; a call outside the
   covered class reports nothing *)
Fixpoint spec_run (t : node) (l : list (N * op)) : node * list (res svalue) :=
  match l with
  | [] => (t, [])
  | (now, o) :: rest =>
    match spec_of o with
    | Some so =>
      let '(t1, r) := spec_step t now so in
      let '(t2, rs) := spec_run t1 rest in (t2, r :: rs)
    | None => spec_run t rest
    end
  end.

(* every call is covered, and no create_stream hits an existing stream *)
Fixpoint CoveredFrom (t : node) (l : list (N * op)) : Prop :=
  match l with
  | [] => True
  | (now, o) :: rest =>
    match spec_of o with
    | Some so => no_truncate t o /\ CoveredFrom (fst (spec_step t now so)) rest
    | None => False
    end
  end.

(* at every point of the history: if the specification accepts the next call,
   the model returns Ok for it *)
Fixpoint NoLateFailure (f : fstate) (t : node) (l : list (N * op)) : Prop :=
  match l with
  | [] => True
  | (now, o) :: rest =>
    match spec_of o with
    | Some so =>
      (is_ok (snd (spec_step t now so)) = true -> is_ok (snd (step f now o)) = true) /\
      NoLateFailure (fst (step f now o)) (fst (spec_step t now so)) rest
    | None => True
    end
  end.

(* room in the table: one slot per remaining call *)
Definition budget (f : fstate) (l : list (N * op)) : Prop :=
  lenN (dirs (cs f)) + lenN l < NO_STREAM.

Lemma covered_from_static : forall l t,
  Forall (fun p => covered (snd p)) l -> CoveredFrom t l.
Proof.
  induction l as [|[now o] rest IH]; intros t HF; cbn [CoveredFrom]; [exact I|].
  inversion HF as [|x y Hc Hr]; subst. cbn [snd] in Hc.
  destruct (spec_of o) as [so|] eqn:E; [|exact (proj1 Hc E)].
  split; [apply covered_no_truncate; exact Hc|apply IH; exact Hr].
Qed.

Theorem history_refines_from : forall (l : list (N * op)) f t,
  Sim f t -> CoveredFrom t l -> budget f l -> NoLateFailure f t l ->
  Forall2 result_rel (snd (run_ops f l)) (snd (spec_run t l)) /\
  Sim (fst (run_ops f l)) (fst (spec_run t l)).
Proof.
  induction l as [|[now o] rest IH]; intros f t HS HC HB HN.
  - cbn [run_ops spec_run fst snd]. split; [constructor|exact HS].
  - cbn [run_ops spec_run CoveredFrom NoLateFailure] in *.
    destruct (spec_of o) as [so|] eqn:Hs; [|contradiction].
    destruct HC as [Hnt HC]. destruct HN as [HN1 HN].
    destruct (step f now o) as [f1 r] eqn:E1. destruct (spec_step t now so) as [t1 r'] eqn:E2.
    cbn [fst snd] in *.
    destruct (step_agreement _ _ _ _ _ _ _ _ _ HS Hs Hnt E1 E2) as [(Hr & HR & Hg)|[L1 L2]].
    2: { rewrite (HN1 L1) in L2. discriminate L2. }
    assert (Sim f1 t1) as HS1.
    { split; [exact HR|]. unfold budget in HB. cbn [lenN] in HB. lia. }
    assert (budget f1 rest) as HB1.
    { unfold budget in *. cbn [lenN] in HB. lia. }
    destruct (IH f1 t1 HS1 HC HB1 HN) as [IH1 IH2].
    destruct (run_ops f1 rest) as [f2 rs]. destruct (spec_run t1 rest) as [t2 rs'].
    cbn [fst snd] in *. split; [constructor; assumption|exact IH2].
Qed.

(* the form asked for: a state-independent class of calls *)
Theorem history_refines : forall (l : list (N * op)) f t,
  Sim f t -> Forall (fun p => covered (snd p)) l -> budget f l -> NoLateFailure f t l ->
  Forall2 result_rel (snd (run_ops f l)) (snd (spec_run t l)) /\
  Sim (fst (run_ops f l)) (fst (spec_run t l)).
Proof.
  intros l f t HS HF HB HN. apply history_refines_from; try assumption.
  apply covered_from_static. exact HF.
Qed.

(* without NoLateFailure: the two result lists are related call by call up to
   the first late failure, and the first difference (if any) IS a late failure *)
Inductive agree_until_late : list (res value) -> list (res svalue) -> Prop :=
| AU_nil : agree_until_late [] []
| AU_cons : forall r r' rs rs', result_rel r r' -> agree_until_late rs rs' ->
    agree_until_late (r :: rs) (r' :: rs')
| AU_late : forall r r' rs rs', late_failure r r' -> length rs = length rs' ->
    agree_until_late (r :: rs) (r' :: rs').

Lemma run_ops_length : forall l f, length (snd (run_ops f l)) = length l.
Proof.
  induction l as [|[now o] rest IH]; intros f; cbn [run_ops]; [reflexivity|].
  destruct (step f now o) as [f1 r]. specialize (IH f1). destruct (run_ops f1 rest) as [f2 rs].
  cbn [snd length] in *. congruence.
Qed.

Lemma spec_run_length : forall l t, CoveredFrom t l -> length (snd (spec_run t l)) = length l.
Proof.
  induction l as [|[now o] rest IH]; intros t HC; cbn [spec_run CoveredFrom] in *; [reflexivity|].
  destruct (spec_of o) as [so|]; [|contradiction]. destruct HC as [_ HC].
  destruct (spec_step t now so) as [t1 r]. cbn [fst] in HC. specialize (IH t1 HC).
  destruct (spec_run t1 rest) as [t2 rs]. cbn [snd length] in *. congruence.
Qed.

Theorem history_agrees_until_late_failure : forall (l : list (N * op)) f t,
  Sim f t -> CoveredFrom t l -> budget f l ->
  agree_until_late (snd (run_ops f l)) (snd (spec_run t l)).
Proof.
  induction l as [|[now o] rest IH]; intros f t HS HC HB.
  - cbn [run_ops spec_run snd]. constructor.
  - pose proof (run_ops_length rest) as LR. pose proof (spec_run_length rest) as LS.
    cbn [run_ops spec_run CoveredFrom] in *.
    destruct (spec_of o) as [so|] eqn:Hs; [|contradiction].
    destruct HC as [Hnt HC].
    destruct (step f now o) as [f1 r] eqn:E1. destruct (spec_step t now so) as [t1 r'] eqn:E2.
    cbn [fst snd] in *. specialize (LR f1). specialize (LS t1 HC).
    destruct (step_agreement _ _ _ _ _ _ _ _ _ HS Hs Hnt E1 E2) as [(Hr & HR & Hg)|HL].
    + assert (Sim f1 t1) as HS1.
      { split; [exact HR|]. unfold budget in HB. cbn [lenN] in HB. lia. }
      assert (budget f1 rest) as HB1.
      { unfold budget in *. cbn [lenN] in HB. lia. }
      specialize (IH f1 t1 HS1 HC HB1).
      destruct (run_ops f1 rest) as [f2 rs]. destruct (spec_run t1 rest) as [t2 rs'].
      cbn [snd] in *. apply AU_cons; assumption.
    + destruct (run_ops f1 rest) as [f2 rs]. destruct (spec_run t1 rest) as [t2 rs'].
      cbn [snd] in *. apply AU_late; [exact HL|congruence].
Qed.

(* the two formulations fit: without a late failure, agreement is Forall2 *)
Lemma agree_no_late : forall rs rs',
  agree_until_late rs rs' ->
  Forall2 (fun r r' => ~ late_failure r r') rs rs' -> Forall2 result_rel rs rs'.
Proof.
  induction 1 as [|r r' rs rs' Hr _ IH|r r' rs rs' HL _]; intros HF.
  - constructor.
  - inversion HF; subst. constructor; auto.
  - inversion HF; subst. contradiction.
Qed.

(* ================================================================== *)
(* 8. histories of a freshly created file                              *)
(* ================================================================== *)
Theorem fresh_sim : forall v mb nh, Sim (init_fstate v mb nh) empty_tree.
Proof.
  intros v mb nh. split.
  - exists (fun _ _ => False). split; [apply base_rep|apply base_unshared].
  - cbn. reflexivity.
Qed.

Corollary fresh_history_refines : forall v mb nh (l : list (N * op)),
  Forall (fun p => covered (snd p)) l -> 1 + lenN l < NO_STREAM ->
  NoLateFailure (init_fstate v mb nh) empty_tree l ->
  Forall2 result_rel (snd (run_ops (init_fstate v mb nh) l)) (snd (spec_run empty_tree l)) /\
  Sim (fst (run_ops (init_fstate v mb nh) l)) (fst (spec_run empty_tree l)).
Proof.
  intros v mb nh l HF HB HN. apply history_refines; [apply fresh_sim|exact HF|exact HB|exact HN].
Qed.

Corollary fresh_history_agrees_until_late_failure : forall v mb nh (l : list (N * op)),
  Forall (fun p => covered (snd p)) l -> 1 + lenN l < NO_STREAM ->
  agree_until_late (snd (run_ops (init_fstate v mb nh) l)) (snd (spec_run empty_tree l)).
Proof.
  intros v mb nh l HF HB. apply history_agrees_until_late_failure;
    [apply fresh_sim|apply covered_from_static; exact HF|exact HB].
Qed.

(* ---- a decision procedure for NoLateFailure on concrete histories ---- *)
Fixpoint no_late_b (f : fstate) (t : node) (l : list (N * op)) : bool :=
  match l with
  | [] => true
  | (now, o) :: rest =>
    match spec_of o with
    | Some so =>
      let '(f1, r) := step f now o in
      let '(t1, r') := spec_step t now so in
      (negb (is_ok r') || is_ok r) && no_late_b f1 t1 rest
    | None => true
    end
  end.

Lemma no_late_b_sound : forall l f t, no_late_b f t l = true -> NoLateFailure f t l.
Proof.
  induction l as [|[now o] rest IH]; intros f t H; cbn [no_late_b NoLateFailure] in *; [exact I|].
  destruct (spec_of o) as [so|]; [|exact I].
  destruct (step f now o) as [f1 r]. destruct (spec_step t now so) as [t1 r'].
  cbn [fst snd]. apply andb_prop in H. destruct H as [H1 H2]. split; [|apply IH; exact H2].
  intros Hok. rewrite Hok in H1. exact H1.
Qed.

(* ---- and one for CoveredFrom ---- *)
Definition no_truncate_b (t : node) (o : op) : bool :=
  match o with
  | OCreateStream _ p =>
    match name_chain_from_path p with
    | Ok names => match Tree.get t names with Some (Leaf _ _) => false | _ => true end
    | _ => true
    end
  | _ => true
  end.

Lemma no_truncate_b_sound : forall t o, no_truncate_b t o = true -> no_truncate t o.
Proof.
  intros t o H. destruct o; try exact I. cbn [no_truncate_b no_truncate] in *.
  intros names st bs En G. rewrite En, G in H. discriminate H.
Qed.

Fixpoint covered_from_b (t : node) (l : list (N * op)) : bool :=
  match l with
  | [] => true
  | (now, o) :: rest =>
    match spec_of o with
    | Some so => no_truncate_b t o && covered_from_b (fst (spec_step t now so)) rest
    | None => false
    end
  end.

Lemma covered_from_b_sound : forall l t, covered_from_b t l = true -> CoveredFrom t l.
Proof.
  induction l as [|[now o] rest IH]; intros t H; cbn [covered_from_b CoveredFrom] in *; [exact I|].
  destruct (spec_of o) as [so|]; [|discriminate H].
  apply andb_prop in H. destruct H as [H1 H2]. split; [apply no_truncate_b_sound; exact H1|apply IH; exact H2].
Qed.

(* ================================================================== *)
(* 9. non-vacuity                                                      *)
(* ================================================================== *)
Module Example.

(* "/a", "/a/b", "/a/s", "/x" *)
Definition p_a : list N := [47; 97].
Definition p_ab : list N := [47; 97; 47; 98].
Definition p_as : list N := [47; 97; 47; 115].
Definition p_x : list N := [47; 120].

Definition ex_ops : list (N * op) :=
  [ (1000, OCreateStorage p_a);
    (1001, OCreateStorage p_ab);
    (1002, OCreateStorage p_a);            (* refused: AlreadyExists *)
    (1003, OSetState p_ab 5);
    (1004, OExists p_ab);
    (1005, ORemoveStorage p_a);            (* refused: not empty *)
    (1006, OCreateNewStream 0 p_as);
    (1007, OCreateNewStream 1 p_as);       (* refused: AlreadyExists *)
    (1008, OReadStorage p_a);
    (1009, OEntry p_x);                    (* refused: NotFound *)
    (1010, OSetClsid p_as 7);              (* refused: a stream has no CLSID *)
    (1011, ORemoveStorage p_ab);
    (1012, OWalk);
    (1013, OOpenStream 2 p_as);
    (1014, ORemoveStream p_as);
    (1015, OIsStorage p_a);
    (1016, ORemoveStorage p_a);
    (1017, OReadRoot) ].

Definition f0 (v : version) : fstate := init_fstate v 4096 4.

Lemma ex_covered : Forall (fun p => covered (snd p)) ex_ops.
Proof. unfold ex_ops. repeat constructor; discriminate. Qed.

Lemma ex_budget : 1 + lenN ex_ops < NO_STREAM.
Proof. vm_compute. reflexivity. Qed.

Lemma ex_no_late : forall v, NoLateFailure (f0 v) empty_tree ex_ops.
Proof. intros v. apply no_late_b_sound. destruct v; vm_compute; reflexivity. Qed.

(* the conclusion of the history theorem, for both versions *)
Example ex_history : forall v,
  Forall2 result_rel (snd (run_ops (f0 v) ex_ops)) (snd (spec_run empty_tree ex_ops)) /\
  Sim (fst (run_ops (f0 v) ex_ops)) (fst (spec_run empty_tree ex_ops)).
Proof.
  intros v. apply fresh_history_refines; [exact ex_covered|exact ex_budget|apply ex_no_late].
Qed.

(* what the specification answers along this history: 13 calls accepted,
   5 refused with four different reasons; the tree ends up empty again *)
Example ex_spec_results :
  map (fun r => match r with Ok _ => None | Err k => Some k | _ => Some ENotFound end)
      (snd (spec_run empty_tree ex_ops)) =
  [None; None; Some EAlreadyExists; None; None; Some EInvalidInput; None; Some EAlreadyExists;
   None; Some ENotFound; Some EInvalidInput; None; None; None; None; None; None; None] /\
  fst (spec_run empty_tree ex_ops) = Dir (mkMeta 0 0 0 0) [].
Proof. split; vm_compute; reflexivity. Qed.

(* hence the model refuses the same five calls with the same kinds (read off
   ex_history, not recomputed) *)
Example ex_model_refusals : forall v,
  nth 2 (snd (run_ops (f0 v) ex_ops)) OutOfFuel = Err EAlreadyExists /\
  nth 5 (snd (run_ops (f0 v) ex_ops)) OutOfFuel = Err EInvalidInput /\
  nth 9 (snd (run_ops (f0 v) ex_ops)) OutOfFuel = Err ENotFound.
Proof.
  intros v. destruct (ex_history v) as [H _].
  assert (forall n k, nth n (snd (spec_run empty_tree ex_ops)) OutOfFuel = Err k ->
            nth n (snd (run_ops (f0 v) ex_ops)) OutOfFuel = Err k) as T.
  { revert H. generalize (snd (run_ops (f0 v) ex_ops)) (snd (spec_run empty_tree ex_ops)).
    induction 1 as [|r r' rs rs' Hr _ IH]; intros n k Hn.
    - destruct n; discriminate Hn.
    - destruct n as [|n]; cbn [nth] in *; [|apply IH; exact Hn].
      subst r'. destruct r as [x|k'|m|]; try contradiction. cbn in Hr. congruence. }
  repeat split; apply T; vm_compute; reflexivity.
Qed.

(* create_stream (overwrite allowed) at a fresh path, through the
   state-dependent class *)
Definition ex_ops2 : list (N * op) :=
  [ (2000, OCreateStorage p_a);
    (2001, OCreateStream 0 p_as);
    (2002, OIsStream p_as);
    (2003, OCreateStream 1 p_a);           (* refused: a storage is in the way *)
    (2004, OWalkStorage p_a);
    (2005, ORemoveStream p_as) ].

Example ex_history2 : forall v,
  Forall2 result_rel (snd (run_ops (f0 v) ex_ops2)) (snd (spec_run empty_tree ex_ops2)) /\
  Sim (fst (run_ops (f0 v) ex_ops2)) (fst (spec_run empty_tree ex_ops2)).
Proof.
  intros v. apply history_refines_from.
  - apply fresh_sim.
  - apply covered_from_b_sound. vm_compute. reflexivity.
  - vm_compute. reflexivity.
  - apply no_late_b_sound. destruct v; vm_compute; reflexivity.
Qed.

End Example.

Check step_forward.
Check step_refusal.
Check step_agreement.
Check history_refines_from.
Check history_refines.
Check history_agrees_until_late_failure.
Check fresh_history_refines.
Check fresh_history_agrees_until_late_failure.

Print Assumptions fresh_sim.
Print Assumptions step_forward.
Print Assumptions step_refusal.
Print Assumptions step_agreement.
Print Assumptions history_refines_from.
Print Assumptions history_refines.
Print Assumptions history_agrees_until_late_failure.
Print Assumptions fresh_history_refines.
Print Assumptions fresh_history_agrees_until_late_failure.
Print Assumptions Example.ex_history.
Print Assumptions Example.ex_model_refusals.
Print Assumptions Example.ex_history2.
