(* StoreProofs.v — C08 and the store half of C06 for LARGE streams: the
   stream-storage layer (Store.v: read_data / write_data / resize, branches
   "Case 3" and "3c", which never touch the MiniFAT) behaves as a byte vector.
   Stdlib only; no axioms, no admits. *)
From Coq Require Import List NArith Lia Bool ZifyN ZifyBool.
From Cfb.model Require Import Base Names DirEnt State Alloc Dir Mini Store.
From Cfb.gen Require Import Consts.
From Cfb.proofs Require Import ChainProofs ReuseProofs.
From Cfb.proofs Require CodecProofs WalkProofs.
Import ListNotations.
Open Scope N_scope.

Ltac Zify.zify_post_hook ::= Z.div_mod_to_equations.

(* ------------------------------------------------------------------ *)
(* numeric facts about the (partly opaque) constants                   *)
(* ------------------------------------------------------------------ *)

Lemma CUTOFF_val : MINI_STREAM_CUTOFF = 4096. Proof. reflexivity. Qed.
Lemma DEL_val : DIR_ENTRY_LEN = 128. Proof. reflexivity. Qed.
Lemma MAXNAME_val : MAX_NAME_LEN = 31. Proof. reflexivity. Qed.
Lemma two64_val : two64 = 18446744073709551616. Proof. reflexivity. Qed.

(* ------------------------------------------------------------------ *)
(* list helpers                                                        *)
(* ------------------------------------------------------------------ *)

Lemma takeN_takeN : forall A (l : list A) a b, takeN a (takeN b l) = takeN (N.min a b) l.
Proof.
  intros A l. induction l as [|x l IH]; intros a b.
  - reflexivity.
  - destruct (N.eq_dec b 0) as [->|Hb].
    + rewrite takeN_0. replace (N.min a 0) with 0 by lia. rewrite takeN_0. reflexivity.
    + rewrite (takeN_cons _ b) by lia.
      destruct (N.eq_dec a 0) as [->|Ha].
      * replace (N.min 0 b) with 0 by lia. rewrite !takeN_0. reflexivity.
      * rewrite (takeN_cons _ a) by lia. rewrite (takeN_cons _ (N.min a b)) by lia.
        rewrite IH. do 2 f_equal. lia.
Qed.

Lemma dropN_takeN : forall A (l : list A) o n, dropN o (takeN n l) = takeN (n - o) (dropN o l).
Proof.
  intros A l. induction l as [|x l IH]; intros o n.
  - reflexivity.
  - destruct (N.eq_dec n 0) as [->|Hn].
    + rewrite takeN_0. cbn [dropN]. rewrite takeN_0. reflexivity.
    + rewrite (takeN_cons _ n) by lia.
      destruct (N.eq_dec o 0) as [->|Ho].
      * rewrite !dropN_0, N.sub_0_r. rewrite (takeN_cons _ n) by lia. reflexivity.
      * rewrite !(dropN_cons _ o) by lia. rewrite IH. f_equal. lia.
Qed.

Lemma takeN_repeatN : forall A (x : A) n k, k <= n -> takeN k (repeatN x n) = repeatN x k.
Proof.
  intros A x n. induction n as [|n IH] using N.peano_ind; intros k Hk.
  - assert (k = 0) by lia. subst. reflexivity.
  - rewrite repeatN_succ. destruct (N.eq_dec k 0) as [->|Hk0].
    + rewrite takeN_0. reflexivity.
    + rewrite takeN_cons by lia. rewrite IH by lia.
      rewrite <- repeatN_succ. f_equal. lia.
Qed.

(* ------------------------------------------------------------------ *)
(* the property                                                        *)
(* ------------------------------------------------------------------ *)

Definition stream_ids (s : cstate) (id : N) (ids : list N) : Prop :=
  exists e, nthN (dirs s) id = Some e /\ d_type e = TStream /\
            chain_ids_of (fat s) (d_start e) = Ok ids.

(* "the large stream [id] holds exactly V" *)
Definition big_content (s : cstate) (id : N) (V : list byte) : Prop :=
  exists e ids,
    nthN (dirs s) id = Some e /\ d_type e = TStream /\
    MINI_STREAM_CUTOFF <= d_len e /\
    chain_ids_of (fat s) (d_start e) = Ok ids /\
    good_chain s ids /\
    d_len e <= slen s * lenN ids /\
    V = takeN (d_len e) (chain_content s ids).

Lemma big_content_len : forall s id V e,
  big_content s id V -> nthN (dirs s) id = Some e -> lenN V = d_len e.
Proof.
  intros s id V e (e' & ids & He & _ & _ & _ & Hg & Hle & ->) He2.
  rewrite He in He2. injection He2 as ->.
  rewrite lenN_takeN, (good_chain_len _ _ Hg). blia.
Qed.

Lemma big_content_fun : forall s id V V',
  big_content s id V -> big_content s id V' -> V = V'.
Proof.
  intros s id V V' (e & ids & He & _ & _ & Hc & _ & _ & ->)
                   (e' & ids' & He' & _ & _ & Hc' & _ & _ & ->).
  rewrite He in He'. injection He' as <-. rewrite Hc in Hc'. injection Hc' as <-.
  reflexivity.
Qed.

Lemma stream_entry_exec : forall s id e,
  nthN (dirs s) id = Some e -> d_type e = TStream ->
  stream_entry id s = (s, Ok (d_start e, d_len e)).
Proof.
  intros s id e He Ht. unfold stream_entry.
  rewrite (bind_exec _ _ _ _ _ (dir_entry_exec s id e He)).
  rewrite Ht. reflexivity.
Qed.

(* the head of a non-empty walk is its start, which is then not END_OF_CHAIN *)
Lemma chain_ids_head : forall fat start ids,
  chain_ids_of fat start = Ok ids -> ids <> [] ->
  start <> END_OF_CHAIN /\ exists t, ids = start :: t.
Proof.
  intros fat start ids H Hne.
  destruct (chain_ids_of_walk _ _ _ H) as (_ & Hiff & Hhd & _).
  split.
  - intro E. apply Hne. apply Hiff. exact E.
  - destruct ids as [|a t]; [contradiction|]. exists t.
    rewrite (Hhd a eq_refl). reflexivity.
Qed.

(* ------------------------------------------------------------------ *)
(* S1                                                                  *)
(* ------------------------------------------------------------------ *)

Theorem read_data_big : forall s id V off n,
  big_content s id V -> off < lenN V -> 0 < n ->
  read_data id off n s
  = (s, Ok (takeN (N.min n (lenN V - off)) (dropN off V))).
Proof.
  intros s id V off n HB Hoff Hn.
  pose proof HB as (e & ids & He & Ht & Hcut & Hc & Hg & Hle & HV).
  pose proof (big_content_len _ _ _ _ HB He) as HlV.
  rewrite HlV in *.
  unfold read_data.
  rewrite (bind_exec _ _ _ _ _ (stream_entry_exec s id e He Ht)).
  cbv beta iota zeta.
  destruct (d_len e <=? off) eqn:E1; [lia|].
  destruct (N.min (d_len e - off) n =? 0) eqn:E2; [lia|].
  destruct (d_len e <? MINI_STREAM_CUTOFF) eqn:E3; [lia|].
  rewrite (bind_exec _ _ _ _ _ (chain_new_exec s (d_start e) IZero ids Hc)).
  destruct (chain_seek_spec s (mkChain IZero ids 0) off) as [Hseek _].
  rewrite (bind_exec _ _ _ _ _ (Hseek ltac:(unfold chain_len; cbn [c_ids]; lia))).
  cbn [c_init c_ids].
  rewrite (bind_exec _ _ _ _ _
             (chain_read_spec s (mkChain IZero ids off) (N.min (d_len e - off) n) Hg
                ltac:(unfold chain_len; cbn [c_ids c_off]; lia))).
  cbn [c_ids c_off]. unfold ret. f_equal. f_equal.
  rewrite HV, dropN_takeN, takeN_takeN. f_equal. lia.
Qed.

(* ------------------------------------------------------------------ *)
(* well-formedness assumed of the store                                *)
(* ------------------------------------------------------------------ *)

(* the FAT chain of a large stream *)
Definition big_ids (s : cstate) (id : N) (ids : list N) : Prop :=
  exists e, nthN (dirs s) id = Some e /\ d_type e = TStream /\
            MINI_STREAM_CUTOFF <= d_len e /\
            chain_ids_of (fat s) (d_start e) = Ok ids.

Definition disjoint (a b : list N) : Prop := forall x, In x a -> ~ In x b.

Definition dir_ids (s : cstate) (dids : list N) : Prop :=
  chain_ids_of (fat s) (dir_start s) = Ok dids.

Record StoreWf (s : cstate) : Prop := mkStoreWf {
  (* the image has nsect+1 elements, every sector is whole, free sectors exist,
     every FAT index is backed by a FAT sector that exists *)
  sw_alloc : AllocWf s;
  (* sector numbers are 32-bit: no u64 overflow in Chain::set_len *)
  sw_nsect : nsect s <= u32_max;
  (* the directory chain is a good chain with room for every slot *)
  sw_dir : exists dids, dir_ids s dids /\ good_chain s dids /\
             DIR_ENTRY_LEN * lenN (dirs s) <= slen s * lenN dids;
  (* names fit: write_dir_entry does not hit Panic 404 *)
  sw_names : forall id e, nthN (dirs s) id = Some e ->
             lenN (utf16 (d_name e)) <= MAX_NAME_LEN;
  (* the directory chain shares no sector with a large stream *)
  sw_dir_disj : forall id ids dids, big_ids s id ids -> dir_ids s dids -> disjoint ids dids;
  (* the free stack has no duplicates and is disjoint from everything in use *)
  sw_free_nodup : NoDup (free s);
  sw_free_disj : forall x, In x (free s) ->
             (forall id ids, big_ids s id ids -> ~ In x ids) /\
             (forall dids, dir_ids s dids -> ~ In x dids) /\
             ~ In x (difat s);
  (* FAT sectors are not data sectors *)
  sw_difat_disj : forall f, In f (difat s) ->
             (forall id ids, big_ids s id ids -> ~ In f ids) /\
             (forall dids, dir_ids s dids -> ~ In f dids)
}.

(* ------------------------------------------------------------------ *)
(* writing the directory entry back                                    *)
(* ------------------------------------------------------------------ *)

Lemma same_shape_w_dirs : forall s d, same_shape s (w_dirs s d).
Proof. intros s d. unfold same_shape. repeat split. Qed.

Lemma update_entry_exec : forall s id e st ln dids,
  nthN (dirs s) id = Some e ->
  lenN (utf16 (d_name e)) <= MAX_NAME_LEN ->
  dir_ids s dids -> good_chain s dids ->
  DIR_ENTRY_LEN * id + DIR_ENTRY_LEN <= slen s * lenN dids ->
  exists s',
    update_entry id st ln s = (s', Ok tt) /\
    dirs s' = updN (dirs s) id (set_start_len e st ln) /\
    same_shape s s' /\ minifat s' = minifat s /\ mfree s' = mfree s /\
    difat_ids s' = difat_ids s /\
    (forall x, ~ In x dids -> sector_bytes s' x = sector_bytes s x).
Proof.
  intros s id e st ln dids He Hname Hd Hg Hroom.
  unfold dir_ids in Hd. rewrite DEL_val in Hroom. rewrite MAXNAME_val in Hname.
  set (e' := set_start_len e st ln).
  set (s2 := w_dirs s (updN (dirs s) id e')).
  pose proof (nthN_Some_lt _ _ _ _ He) as Hid.
  assert (He2 : nthN (dirs s2) id = Some e')
    by (cbn [s2 dirs w_dirs]; apply nthN_updN_same; exact Hid).
  assert (Hg2 : good_chain s2 dids)
    by (apply (good_chain_shape s s2 dids Hg); apply same_shape_w_dirs).
  assert (Hlen : lenN (dirent_encode e') = 128).
  { apply CodecProofs.dirent_encode_length. cbn [e' set_start_len d_name]. lia. }
  destruct (chain_write_spec s2 (mkChain IDir dids (DIR_ENTRY_LEN * id)) (dirent_encode e') Hg2)
    as (s' & Hw & _ & _ & _ & Hfr & Hl & Hi & Hm).
  { unfold chain_len. cbn [c_ids c_off]. rewrite Hlen, DEL_val.
    change (slen s2) with (slen s). lia. }
  cbn [c_init c_ids c_off] in Hw, Hfr.
  exists s'. split.
  - unfold update_entry, with_dir_entry_mut.
    rewrite (bind_exec _ _ _ _ _ (dir_entry_exec s id e He)).
    rewrite (bind_exec _ _ _ _ _ (set_dir_entry_exec s id e e' He)).
    fold e'. fold s2. unfold write_dir_entry. rewrite bind_get.
    rewrite (bind_exec _ _ _ _ _ (chain_new_exec s2 (dir_start s2) IDir dids Hd)).
    destruct (chain_seek_spec s2 (mkChain IDir dids 0) (DIR_ENTRY_LEN * id)) as [Hseek _].
    rewrite (bind_exec _ _ _ _ _
               (Hseek ltac:(unfold chain_len; cbn [c_ids]; rewrite DEL_val;
                            change (slen s2) with (slen s); lia))).
    cbn [c_init c_ids].
    rewrite (bind_exec _ _ _ _ _ (dir_entry_exec s2 id e' He2)).
    rewrite MAXNAME_val.
    destruct (31 <? lenN (utf16 (d_name e'))) eqn:En;
      [cbn [e' set_start_len d_name] in En; lia|].
    rewrite bind_ret. rewrite (bind_exec _ _ _ _ _ Hw). reflexivity.
  - destruct (same_meta_fields s2 s' Hm)
      as (A1 & A2 & A3 & A4 & A5 & A6 & A7 & A8 & A9 & A10 & A11 & A12).
    split; [rewrite A7; reflexivity|].
    split; [|split; [exact A9|split; [exact A11|split; [exact A3|]]]].
    + unfold same_shape. repeat split; assumption.
    + intros x Hx. rewrite (Hfr x Hx). reflexivity.
Qed.

(* ------------------------------------------------------------------ *)
(* StoreWf is about the shape of the state only                        *)
(* ------------------------------------------------------------------ *)

Lemma AllocWf_shape : forall s s', AllocWf s -> same_shape s s' -> AllocWf s'.
Proof.
  intros s s' [H1 H2 H3 H4] Hsh.
  pose proof (same_shape_slen _ _ Hsh) as Hsl.
  destruct Hsh as (Hn & Hv & Hi & Hl & Hfat & Hfree & Hdifat & _ & _).
  constructor.
  - rewrite Hi, Hn. exact H1.
  - intros x Hx. rewrite Hl, Hsl. apply H2. rewrite <- Hn. exact Hx.
  - intros x Hx. rewrite Hfree in Hx. rewrite Hn, Hfat. apply H3. exact Hx.
  - intros i Hi'. rewrite Hfat in Hi'. unfold fat_per_sector. rewrite Hsl, Hdifat, Hn.
    apply H4. exact Hi'.
Qed.

Lemma chain_content_ext : forall s s' ids,
  (forall x, In x ids -> sector_bytes s' x = sector_bytes s x) ->
  chain_content s' ids = chain_content s ids.
Proof.
  intros s s' ids H. unfold chain_content. f_equal. apply map_ext_in. exact H.
Qed.

Lemma StoreWf_update : forall s s' id e ln,
  StoreWf s -> same_shape s s' ->
  nthN (dirs s) id = Some e -> d_type e = TStream ->
  MINI_STREAM_CUTOFF <= d_len e -> MINI_STREAM_CUTOFF <= ln ->
  dirs s' = updN (dirs s) id (set_start_len e (d_start e) ln) ->
  StoreWf s'.
Proof.
  intros s s' id e ln [Wa Wn Wd Wnm Wdd Wfn Wfd Wdf] Hsh He Ht Hc Hln Hdirs.
  pose proof (same_shape_slen _ _ Hsh) as Hsl.
  pose proof Hsh as (Hn & Hv & Hi & Hl & Hfat & Hfree & Hdifat & Hds & _).
  assert (Hbig : forall i l, big_ids s' i l -> big_ids s i l).
  { intros i l (e2 & He2 & Ht2 & Hc2 & Hch2). rewrite Hdirs in He2. rewrite Hfat in Hch2.
    destruct (N.eq_dec i id) as [->|Hne].
    - rewrite nthN_updN_same in He2 by (eapply nthN_Some_lt; exact He).
      injection He2 as <-. cbn [set_start_len d_start] in Hch2.
      exists e. repeat split; assumption.
    - rewrite nthN_updN_other in He2 by lia. exists e2. repeat split; assumption. }
  assert (Hdir : forall l, dir_ids s' l -> dir_ids s l).
  { intros l H. unfold dir_ids in *. rewrite Hfat, Hds in H. exact H. }
  constructor.
  - eapply AllocWf_shape; eassumption.
  - rewrite Hn. exact Wn.
  - destruct Wd as (dids & D1 & D2 & D3). exists dids. split; [|split].
    + unfold dir_ids in *. rewrite Hfat, Hds. exact D1.
    + eapply good_chain_shape; eassumption.
    + rewrite Hdirs, lenN_updN, Hsl. exact D3.
  - intros i e2 He2. rewrite Hdirs in He2.
    destruct (N.eq_dec i id) as [->|Hne].
    + rewrite nthN_updN_same in He2 by (eapply nthN_Some_lt; exact He).
      injection He2 as <-. cbn [set_start_len d_name]. eapply Wnm. exact He.
    + rewrite nthN_updN_other in He2 by lia. eapply Wnm. exact He2.
  - intros i l dl Hb Hd. eapply Wdd; [apply Hbig; exact Hb | apply Hdir; exact Hd].
  - rewrite Hfree. exact Wfn.
  - intros x Hx. rewrite Hfree in Hx. destruct (Wfd x Hx) as (F1 & F2 & F3).
    split; [|split].
    + intros i l Hb. eapply F1. apply Hbig. exact Hb.
    + intros l Hd. apply F2. apply Hdir. exact Hd.
    + rewrite Hdifat. exact F3.
  - intros f Hf. rewrite Hdifat in Hf. destruct (Wdf f Hf) as (F1 & F2).
    split.
    + intros i l Hb. eapply F1. apply Hbig. exact Hb.
    + intros l Hd. apply F2. apply Hdir. exact Hd.
Qed.

(* ------------------------------------------------------------------ *)
(* the common end of write_data / resize on a large stream whose chain  *)
(* keeps its sectors: write the entry back                              *)
(* ------------------------------------------------------------------ *)

Lemma finish_big : forall s s1 id e ids new_len,
  StoreWf s ->
  nthN (dirs s) id = Some e -> d_type e = TStream -> MINI_STREAM_CUTOFF <= d_len e ->
  chain_ids_of (fat s) (d_start e) = Ok ids -> good_chain s ids ->
  same_shape s s1 -> dirs s1 = dirs s ->
  (forall x, ~ In x ids -> sector_bytes s1 x = sector_bytes s x) ->
  MINI_STREAM_CUTOFF <= new_len -> new_len <= slen s * lenN ids ->
  exists s',
    update_entry id (d_start e) new_len s1 = (s', Ok tt) /\
    big_content s' id (takeN new_len (chain_content s1 ids)) /\
    stream_ids s' id ids /\
    StoreWf s' /\ same_shape s s' /\
    (forall id' V' ids', id' <> id -> big_content s id' V' -> stream_ids s id' ids' ->
       disjoint ids ids' -> big_content s' id' V' /\ stream_ids s' id' ids').
Proof.
  intros s s1 id e ids new_len Hwf He Ht Hcut Hc Hg Hsh1 Hdirs1 Hfr1 Hnl Hfit.
  pose proof (same_shape_slen _ _ Hsh1) as Hsl1.
  pose proof Hsh1 as (Hn1 & Hv1 & Hi1 & Hl1 & Hfat1 & Hfree1 & Hdifat1 & Hds1 & _).
  destruct (sw_dir s Hwf) as (dids & Hd & Hgd & Hroom).
  pose proof (nthN_Some_lt _ _ _ _ He) as Hid.
  assert (Hbig : big_ids s id ids) by (exists e; repeat split; assumption).
  pose proof (sw_dir_disj s Hwf id ids dids Hbig Hd) as Hdisj.
  destruct (update_entry_exec s1 id e (d_start e) new_len dids)
    as (s' & Hu & Hdirs' & Hsh' & _ & _ & _ & Hfr').
  { rewrite Hdirs1. exact He. }
  { eapply sw_names; eassumption. }
  { unfold dir_ids in *. rewrite Hfat1, Hds1. exact Hd. }
  { eapply good_chain_shape; eassumption. }
  { rewrite Hsl1. rewrite DEL_val in *. lia. }
  pose proof (same_shape_trans _ _ _ Hsh1 Hsh') as Hsh.
  pose proof (same_shape_slen _ _ Hsh) as Hsl.
  pose proof Hsh as (Hn & Hv & Hi & Hl & Hfat & Hfree & Hdifat & Hds & _).
  rewrite Hdirs1 in Hdirs'.
  set (e' := set_start_len e (d_start e) new_len) in *.
  assert (He' : nthN (dirs s') id = Some e')
    by (rewrite Hdirs'; apply nthN_updN_same; exact Hid).
  assert (Hcont : chain_content s' ids = chain_content s1 ids).
  { apply chain_content_ext. intros x Hx. apply Hfr'. apply Hdisj. exact Hx. }
  exists s'. split; [exact Hu|]. split; [|split; [|split; [|split; [exact Hsh|]]]].
  - exists e', ids. cbn [e' set_start_len d_type d_len d_start].
    rewrite Hfat, Hsl, Hcont.
    csplit; try assumption; try reflexivity. eapply good_chain_shape; eassumption.
  - exists e'. cbn [e' set_start_len d_type d_start]. rewrite Hfat.
    repeat split; assumption.
  - eapply StoreWf_update; eassumption.
  - intros id' V' ids' Hne (e2 & ids2 & He2 & Ht2 & Hc2 & Hch2 & Hg2 & Hle2 & HV2)
           (e3 & He3 & _ & Hch3) Hdj.
    rewrite He2 in He3. injection He3 as <-. rewrite Hch2 in Hch3. injection Hch3 as <-.
    assert (Hbig2 : big_ids s id' ids2) by (exists e2; repeat split; assumption).
    pose proof (sw_dir_disj s Hwf id' ids2 dids Hbig2 Hd) as Hdisj2.
    assert (He2' : nthN (dirs s') id' = Some e2)
      by (rewrite Hdirs', nthN_updN_other by lia; exact He2).
    assert (Hcont2 : chain_content s' ids2 = chain_content s ids2).
    { apply chain_content_ext. intros x Hx.
      rewrite Hfr' by (apply Hdisj2; exact Hx).
      apply Hfr1. intro Hin. exact (Hdj x Hin Hx). }
    split.
    + exists e2, ids2. rewrite Hfat, Hsl, Hcont2.
      csplit; try assumption. eapply good_chain_shape; eassumption.
    + exists e2. rewrite Hfat. repeat split; assumption.
Qed.

(* ------------------------------------------------------------------ *)
(* S2 / S3: write_data on a large stream, inside the chain's capacity   *)
(* ------------------------------------------------------------------ *)

Lemma splice_take : forall (C : list byte) old off buf,
  off <= old -> old <= lenN C -> off + lenN buf <= lenN C ->
  takeN (N.max old (off + lenN buf)) (spliceN C off buf)
  = spliceN (takeN old C) off buf.
Proof.
  intros C old off buf H1 H2 H3.
  rewrite (spliceN_inside C) by blia.
  rewrite (spliceN_inside (takeN old C)) by (rewrite lenN_takeN; blia).
  rewrite takeN_takeN. replace (N.min off old) with off by lia.
  rewrite dropN_takeN.
  rewrite takeN_app_ge by (rewrite lenN_takeN; blia).
  rewrite lenN_takeN. replace (N.min off (lenN C)) with off by blia.
  rewrite takeN_app_ge by blia.
  do 3 f_equal. blia.
Qed.

Lemma ids_nonempty : forall s (ids : list N) len,
  MINI_STREAM_CUTOFF <= len -> len <= slen s * lenN ids -> ids <> [].
Proof.
  intros s ids len H1 H2 ->. cbn [lenN] in H2. rewrite CUTOFF_val in H1. lia.
Qed.

Lemma chain_start_head : forall i a t o, chain_start (mkChain i (a :: t) o) = a.
Proof. reflexivity. Qed.

Lemma write_data_big_no_alloc : forall s id V ids off buf,
  big_content s id V -> stream_ids s id ids -> StoreWf s ->
  off <= lenN V -> off + lenN buf <= slen s * lenN ids ->
  exists s',
    write_data id off buf s = (s', Ok tt) /\
    big_content s' id (spliceN V off buf) /\
    stream_ids s' id ids /\ StoreWf s' /\ same_shape s s' /\
    (forall id' V' ids', id' <> id -> big_content s id' V' -> stream_ids s id' ids' ->
       disjoint ids ids' -> big_content s' id' V' /\ stream_ids s' id' ids').
Proof.
  intros s id V ids off buf HB (e0 & He0 & _ & Hc0) Hwf Hoff Hfit.
  pose proof HB as (e & ids' & He & Ht & Hcut & Hc & Hg & Hle & HV).
  rewrite He in He0. injection He0 as <-. rewrite Hc in Hc0. injection Hc0 as ->.
  pose proof (big_content_len _ _ _ _ HB He) as HlV. rewrite HlV in Hoff.
  pose proof (good_chain_len _ _ Hg) as HCL.
  destruct (chain_ids_head _ _ _ Hc (ids_nonempty s ids _ Hcut Hle)) as (Hst & t & Eids).
  set (new_len := N.max (d_len e) (off + lenN buf)).
  destruct (chain_write_spec s (mkChain IZero ids off) buf Hg)
    as (s1 & Hw & Hcont & _ & Hg1 & Hfr & Hl & Hi & Hm).
  { unfold chain_len. cbn [c_ids c_off]. exact Hfit. }
  cbn [c_init c_ids c_off] in *.
  destruct (same_meta_fields s s1 Hm)
    as (A1 & A2 & A3 & A4 & A5 & A6 & A7 & A8 & A9 & A10 & A11 & A12).
  assert (Hsh1 : same_shape s s1) by (unfold same_shape; csplit; assumption).
  destruct (finish_big s s1 id e ids new_len Hwf He Ht Hcut Hc Hg Hsh1 A7 Hfr)
    as (s' & Hu & HB' & Hsi' & Hwf' & Hsh' & Hoth).
  { unfold new_len. lia. }
  { unfold new_len. lia. }
  exists s'. split; [|split; [|split; [exact Hsi'|split; [exact Hwf'|split; [exact Hsh'|exact Hoth]]]]].
  - unfold write_data.
    rewrite (bind_exec _ _ _ _ _ (stream_entry_exec s id e He Ht)).
    cbv beta iota zeta.
    destruct (d_len e <? off) eqn:E1; [lia|]. rewrite bind_ret.
    fold new_len.
    match goal with |- bind ?m _ s = _ => assert (E : m s = (s1, Ok (d_start e))) end.
    { destruct (d_start e =? END_OF_CHAIN) eqn:E2; [apply N.eqb_eq in E2; contradiction|].
      destruct (d_len e <? MINI_STREAM_CUTOFF) eqn:E3; [lia|].
      destruct (new_len <? MINI_STREAM_CUTOFF) eqn:E4; [unfold new_len in E4; lia|].
      rewrite bind_ret.
      rewrite (bind_exec _ _ _ _ _ (chain_new_exec s (d_start e) IZero ids Hc)).
      destruct (chain_seek_spec s (mkChain IZero ids 0) off) as [Hseek _].
      rewrite (bind_exec _ _ _ _ _ (Hseek ltac:(unfold chain_len; cbn [c_ids]; lia))).
      cbn [c_init c_ids].
      rewrite (bind_exec _ _ _ _ _ Hw).
      rewrite Eids, chain_start_head, N.eqb_refl. reflexivity. }
    rewrite (bind_exec _ _ _ _ _ E). exact Hu.
  - rewrite Hcont in HB'. unfold new_len in HB'.
    rewrite splice_take in HB' by blia. rewrite <- HV in HB'. exact HB'.
Qed.

(* S2: overwrite strictly inside the stream *)
Theorem write_data_big_inplace : forall s id V ids off buf,
  big_content s id V -> stream_ids s id ids ->
  off + lenN buf <= lenN V -> StoreWf s ->
  exists s',
    write_data id off buf s = (s', Ok tt) /\
    big_content s' id (spliceN V off buf) /\
    lenN (spliceN V off buf) = lenN V /\
    stream_ids s' id ids /\ StoreWf s' /\
    (forall id' V' ids', id' <> id -> big_content s id' V' -> stream_ids s id' ids' ->
       disjoint ids ids' -> big_content s' id' V' /\ stream_ids s' id' ids').
Proof.
  intros s id V ids off buf HB Hsi Hin Hwf.
  pose proof HB as (e & ids' & He & Ht & Hcut & Hc & Hg & Hle & HV).
  pose proof Hsi as (e0 & He0 & _ & Hc0).
  rewrite He in He0. injection He0 as <-. rewrite Hc in Hc0. injection Hc0 as ->.
  pose proof (big_content_len _ _ _ _ HB He) as HlV.
  destruct (write_data_big_no_alloc s id V ids off buf HB Hsi Hwf)
    as (s' & H1 & H2 & H3 & H4 & _ & H6); [blia | blia |].
  exists s'. csplit; try assumption. rewrite lenN_spliceN. blia.
Qed.

(* S3: the write runs past the end of the stream but the last sector of the
   chain has room: the stream grows to off + lenN buf, nothing is allocated
   (same_shape: same FAT, same free stack, same number of sectors) *)
Theorem write_data_big_grow_within_chain : forall s id V ids off buf,
  big_content s id V -> stream_ids s id ids -> StoreWf s ->
  off <= lenN V -> lenN V < off + lenN buf -> off + lenN buf <= slen s * lenN ids ->
  exists s',
    write_data id off buf s = (s', Ok tt) /\
    big_content s' id (spliceN V off buf) /\
    lenN (spliceN V off buf) = off + lenN buf /\
    stream_ids s' id ids /\ StoreWf s' /\
    nsect s' = nsect s /\ fat s' = fat s /\ free s' = free s /\
    (forall id' V' ids', id' <> id -> big_content s id' V' -> stream_ids s id' ids' ->
       disjoint ids ids' -> big_content s' id' V' /\ stream_ids s' id' ids').
Proof.
  intros s id V ids off buf HB Hsi Hwf Hoff Hgrow Hfit.
  destruct (write_data_big_no_alloc s id V ids off buf HB Hsi Hwf Hoff Hfit)
    as (s' & H1 & H2 & H3 & H4 & H5 & H6).
  destruct H5 as (B1 & _ & _ & _ & B5 & B6 & _).
  exists s'. csplit; try assumption. rewrite lenN_spliceN. blia.
Qed.

(* ------------------------------------------------------------------ *)
(* resize of a large stream that keeps its number of sectors            *)
(* ------------------------------------------------------------------ *)

Lemma zero_fill_chain_spec : forall s c from to,
  good_chain s (c_ids c) -> to <= chain_len (slen s) c ->
  exists s1 c1,
    zero_fill_chain c from to s = (s1, Ok c1) /\ c_ids c1 = c_ids c /\
    chain_content s1 (c_ids c)
      = (if from <? to then spliceN (chain_content s (c_ids c)) from (repeatN 0 (to - from))
         else chain_content s (c_ids c)) /\
    good_chain s1 (c_ids c) /\ same_shape s s1 /\ dirs s1 = dirs s /\
    (forall x, ~ In x (c_ids c) -> sector_bytes s1 x = sector_bytes s x).
Proof.
  intros s c from to Hg Hto. unfold zero_fill_chain.
  destruct (from <? to) eqn:E.
  - destruct (chain_seek_spec s c from) as [Hseek _].
    rewrite (bind_exec _ _ _ _ _ (Hseek ltac:(lia))).
    destruct (chain_write_spec s (mkChain (c_init c) (c_ids c) from) (repeatN 0 (to - from)))
      as (s1 & Hw & Hcont & _ & Hg1 & Hfr & Hl & Hi & Hm).
    { exact Hg. }
    { unfold chain_len in *. cbn [c_ids c_off]. rewrite lenN_repeatN. lia. }
    cbn [c_init c_ids c_off] in *.
    destruct (same_meta_fields s s1 Hm)
      as (A1 & A2 & A3 & A4 & A5 & A6 & A7 & A8 & A9 & A10 & A11 & A12).
    eexists s1, _. split; [exact Hw|]. cbn [c_ids].
    csplit; try assumption; try reflexivity.
    unfold same_shape; csplit; assumption.
  - exists s, c. unfold ret. csplit; try reflexivity; try assumption.
    apply same_shape_refl.
Qed.

Lemma chain_set_len_same : forall s c new_len,
  0 < new_len -> slen s + new_len < two64 ->
  (slen s + new_len - 1) / slen s = lenN (c_ids c) ->
  chain_set_len c new_len s = (s, Ok c).
Proof.
  intros s c new_len Hpos Hov Hnum. unfold chain_set_len. rewrite bind_get.
  cbv zeta.
  destruct (two64 <=? slen s + new_len - 1 + 1) eqn:E1; [lia|].
  rewrite Hnum.
  assert (Hc : 0 < lenN (c_ids c)).
  { rewrite <- Hnum. pose proof (slen_pos s). apply N.div_str_pos. lia. }
  destruct (lenN (c_ids c) =? 0) eqn:E2; [lia|].
  rewrite N.leb_refl, N.ltb_irrefl. reflexivity.
Qed.

Lemma good_chain_count : forall s ids, good_chain s ids -> lenN ids <= nsect s.
Proof.
  intros s ids (Hnd & HF & _).
  assert (HF' : Forall (fun x => x < nsect s) ids).
  { eapply Forall_impl; [|exact HF]. cbv beta. tauto. }
  pose proof (WalkProofs.bounded_nodup_length _ _ Hnd HF') as H.
  rewrite WalkProofs.lenN_length. lia.
Qed.

Lemma resize_big_same_count : forall s id V ids new_len,
  big_content s id V -> stream_ids s id ids -> StoreWf s ->
  MINI_STREAM_CUTOFF <= new_len ->
  new_len <= slen s * lenN ids -> slen s * lenN ids < new_len + slen s ->
  exists s',
    resize id new_len s = (s', Ok tt) /\
    big_content s' id (takeN new_len V ++ repeatN 0 (new_len - lenN V)) /\
    stream_ids s' id ids /\ StoreWf s' /\ same_shape s s' /\
    (forall id' V' ids', id' <> id -> big_content s id' V' -> stream_ids s id' ids' ->
       disjoint ids ids' -> big_content s' id' V' /\ stream_ids s' id' ids').
Proof.
  intros s id V ids new_len HB (e0 & He0 & _ & Hc0) Hwf Hnl Hfit Htight.
  pose proof HB as (e & ids' & He & Ht & Hcut & Hc & Hg & Hle & HV).
  rewrite He in He0. injection He0 as <-. rewrite Hc in Hc0. injection Hc0 as ->.
  pose proof (big_content_len _ _ _ _ HB He) as HlV.
  pose proof (good_chain_len _ _ Hg) as HCL.
  pose proof (slen_pos s) as Hsp.
  destruct (chain_ids_head _ _ _ Hc (ids_nonempty s ids _ Hcut Hle)) as (Hst & t & Eids).
  destruct (zero_fill_chain_spec s (mkChain IZero ids 0) (d_len e) new_len Hg)
    as (s1 & c1 & Hz & Hids1 & Hcont & Hg1 & Hsh1 & Hd1 & Hfr).
  { unfold chain_len. cbn [c_ids]. exact Hfit. }
  cbn [c_ids] in *.
  destruct (finish_big s s1 id e ids new_len Hwf He Ht Hcut Hc Hg Hsh1 Hd1 Hfr Hnl Hfit)
    as (s' & Hu & HB' & Hsi' & Hwf' & Hsh' & Hoth).
  exists s'. split; [|split; [|split; [exact Hsi'|split; [exact Hwf'|split; [exact Hsh'|exact Hoth]]]]].
  - unfold resize.
    rewrite (bind_exec _ _ _ _ _ (stream_entry_exec s id e He Ht)).
    cbv beta iota zeta.
    match goal with |- bind ?m _ s = _ => assert (E : m s = (s1, Ok (d_start e))) end.
    { destruct (d_start e =? END_OF_CHAIN) eqn:E2; [apply N.eqb_eq in E2; contradiction|].
      destruct (d_len e <? MINI_STREAM_CUTOFF) eqn:E3; [lia|].
      destruct (new_len =? 0) eqn:E4; [rewrite CUTOFF_val in Hnl; lia|].
      destruct (new_len <? MINI_STREAM_CUTOFF) eqn:E5; [lia|].
      rewrite (bind_exec _ _ _ _ _ (chain_new_exec s (d_start e) IZero ids Hc)).
      rewrite bind_get.
      rewrite (bind_exec _ _ _ _ _ (chain_set_len_same s (mkChain IZero ids 0) new_len
                 ltac:(rewrite CUTOFF_val in Hnl; lia)
                 ltac:(pose proof (good_chain_count _ _ Hg); pose proof (sw_nsect s Hwf);
                       destruct (slen_cases s) as [Es|Es]; rewrite Es in *;
                       unfold u32_max in *; rewrite two64_val; nia)
                 ltac:(cbn [c_ids]; symmetry; apply (N.div_unique _ _ _
                         (slen s + new_len - 1 - slen s * lenN ids)); lia))).
      unfold chain_len at 1. cbn [c_ids].
      replace (N.min new_len (slen s * lenN ids)) with new_len by lia.
      rewrite (bind_exec _ _ _ _ _ Hz).
      unfold chain_start. rewrite Hids1, Eids, N.eqb_refl. reflexivity. }
    rewrite (bind_exec _ _ _ _ _ E). exact Hu.
  - rewrite Hcont in HB'. rewrite HlV.
    destruct (d_len e <? new_len) eqn:E.
    + replace new_len with (N.max (d_len e) (d_len e + lenN (repeatN 0 (new_len - d_len e)))) in HB' at 1
        by (rewrite lenN_repeatN; lia).
      rewrite splice_take in HB' by (rewrite ?lenN_repeatN; blia).
      rewrite <- HV in HB'.
      rewrite spliceN_beyond in HB' by blia. rewrite HlV, N.sub_diag in HB'.
      change (repeatN 0 0) with (@nil N) in HB'. cbn [app] in HB'.
      rewrite takeN_all by blia. exact HB'.
    + replace (new_len - d_len e) with 0 by lia. change (repeatN 0 0) with (@nil N).
      rewrite app_nil_r. rewrite HV, takeN_takeN.
      replace (N.min new_len (d_len e)) with new_len by lia. exact HB'.
Qed.

(* S4, case where the number of sectors does not change
   (ceil(new_len / slen) = lenN ids, written slen * lenN ids < new_len + slen):
   truncation inside the last sector.  The general case is resize_big_shrink
   below. *)
Theorem resize_big_shrink_same_count : forall s id V ids new_len,
  big_content s id V -> stream_ids s id ids -> StoreWf s ->
  MINI_STREAM_CUTOFF <= new_len -> new_len < lenN V ->
  slen s * lenN ids < new_len + slen s ->
  exists s',
    resize id new_len s = (s', Ok tt) /\
    big_content s' id (takeN new_len V) /\
    stream_ids s' id ids /\ StoreWf s' /\ same_shape s s' /\
    (forall id' V' ids', id' <> id -> big_content s id' V' -> stream_ids s id' ids' ->
       disjoint ids ids' -> big_content s' id' V' /\ stream_ids s' id' ids').
Proof.
  intros s id V ids new_len HB Hsi Hwf Hnl Hlt Htight.
  pose proof HB as (e & ids' & He & Ht & Hcut & Hc & Hg & Hle & HV).
  pose proof Hsi as (e0 & He0 & _ & Hc0).
  rewrite He in He0. injection He0 as <-. rewrite Hc in Hc0. injection Hc0 as ->.
  pose proof (big_content_len _ _ _ _ HB He) as HlV.
  destruct (resize_big_same_count s id V ids new_len HB Hsi Hwf Hnl ltac:(blia) Htight)
    as (s' & H1 & H2 & H3).
  exists s'. split; [exact H1|]. split; [|exact H3].
  replace (new_len - lenN V) with 0 in H2 by blia.
  change (repeatN 0 0) with (@nil N) in H2. rewrite app_nil_r in H2. exact H2.
Qed.

(* S5 (the core of C08): growth inside the last sector of the chain.  No
   hypothesis on the bytes the sector held beyond the old length. *)
Theorem resize_big_grow_zero_within_chain : forall s id V ids new_len,
  big_content s id V -> stream_ids s id ids -> StoreWf s ->
  lenN V < new_len -> new_len <= slen s * lenN ids ->
  slen s * lenN ids < new_len + slen s ->
  exists s',
    resize id new_len s = (s', Ok tt) /\
    big_content s' id (V ++ repeatN 0 (new_len - lenN V)) /\
    stream_ids s' id ids /\ StoreWf s' /\ same_shape s s' /\
    (forall id' V' ids', id' <> id -> big_content s id' V' -> stream_ids s id' ids' ->
       disjoint ids ids' -> big_content s' id' V' /\ stream_ids s' id' ids').
Proof.
  intros s id V ids new_len HB Hsi Hwf Hgt Hfit Htight.
  pose proof HB as (e & ids' & He & Ht & Hcut & Hc & Hg & Hle & HV).
  pose proof (big_content_len _ _ _ _ HB He) as HlV.
  destruct (resize_big_same_count s id V ids new_len HB Hsi Hwf ltac:(blia) Hfit Htight)
    as (s' & H1 & H2 & H3).
  exists s'. split; [exact H1|]. split; [|exact H3].
  rewrite takeN_all in H2 by blia. exact H2.
Qed.

(* when the chain has exactly the sectors the stream needs, any growth that
   stays inside the chain stays inside its last sector *)
Corollary resize_big_grow_zero_tight : forall s id V ids new_len,
  big_content s id V -> stream_ids s id ids -> StoreWf s ->
  slen s * lenN ids < lenN V + slen s ->
  lenN V < new_len -> new_len <= slen s * lenN ids ->
  exists s',
    resize id new_len s = (s', Ok tt) /\
    big_content s' id (V ++ repeatN 0 (new_len - lenN V)).
Proof.
  intros s id V ids new_len HB Hsi Hwf Htight Hgt Hfit.
  destruct (resize_big_grow_zero_within_chain s id V ids new_len HB Hsi Hwf Hgt Hfit ltac:(blia))
    as (s' & H1 & H2 & _).
  exists s'. split; assumption.
Qed.

(* S7: the scenario of the repaired defect, for large streams: truncate to m,
   grow back to the old length; the bytes between m and the old length read as
   zeros, not as the stale bytes of V *)
Theorem shrink_then_grow_zero : forall s id V ids m,
  big_content s id V -> stream_ids s id ids -> StoreWf s ->
  MINI_STREAM_CUTOFF <= m -> m < lenN V ->
  slen s * lenN ids < m + slen s ->
  exists s1 s2,
    resize id m s = (s1, Ok tt) /\
    resize id (lenN V) s1 = (s2, Ok tt) /\
    big_content s1 id (takeN m V) /\
    big_content s2 id (takeN m V ++ repeatN 0 (lenN V - m)).
Proof.
  intros s id V ids m HB Hsi Hwf Hm Hlt Htight.
  pose proof HB as (e & ids' & He & Ht & Hcut & Hc & Hg & Hle & HV).
  pose proof Hsi as (e0 & He0 & _ & Hc0).
  rewrite He in He0. injection He0 as <-. rewrite Hc in Hc0. injection Hc0 as ->.
  pose proof (big_content_len _ _ _ _ HB He) as HlV.
  destruct (resize_big_shrink_same_count s id V ids m HB Hsi Hwf Hm Hlt Htight)
    as (s1 & R1 & HB1 & Hsi1 & Hwf1 & Hsh1 & _).
  pose proof (same_shape_slen _ _ Hsh1) as Hsl1.
  assert (Hl1 : lenN (takeN m V) = m) by (rewrite lenN_takeN; blia).
  destruct (resize_big_grow_zero_within_chain s1 id (takeN m V) ids (lenN V) HB1 Hsi1 Hwf1)
    as (s2 & R2 & HB2 & _).
  { blia. } { rewrite Hsl1. blia. } { rewrite Hsl1. blia. }
  rewrite Hl1 in HB2.
  exists s1, s2. csplit; assumption.
Qed.
