(* StoreProofs.v — C08 and the store half of C06 for LARGE streams: the
   stream-storage layer (Store.v: read_data / write_data / resize, branches
   "Case 3" and "3c", which never touch the MiniFAT) behaves as a byte vector.
   Stdlib only; no axioms, no admits. *)
From Coq Require Import List NArith Lia Bool ZifyN ZifyBool.
From Cfb.model Require Import Base Names DirEnt State Alloc Dir Mini Store.
From Cfb.gen Require Import Consts.
From Cfb.proofs Require Import ChainProofs ReuseProofs.
From Cfb.proofs Require CodecProofs WalkProofs CoherenceProofs.
Import ListNotations.
Open Scope N_scope.

Ltac Zify.zify_post_hook ::= Z.div_mod_to_equations.

(* ------------------------------------------------------------------ *)
(* numeric facts about the (partly opaque) constants                   *)
(* ------------------------------------------------------------------ *)

Lemma CUTOFF_val : MINI_STREAM_CUTOFF = 4096. Proof. reflexivity. Qed.
Lemma DEL_val : DIR_ENTRY_LEN = 128. Proof. reflexivity. Qed.
Lemma MAXNAME_val : MAX_NAME_LEN = 31. Proof. reflexivity. Qed.
Lemma two64_val : two64 = 18446744073709551616. Proof. reflexivity. Qed.
Lemma MAXREG_val : MAX_REGULAR_SECTOR = 4294967290. Proof. vm_compute. reflexivity. Qed.
Lemma EOC_val : END_OF_CHAIN = 4294967294. Proof. vm_compute. reflexivity. Qed.

(* ------------------------------------------------------------------ *)
(* list helpers                                                        *)
(* ------------------------------------------------------------------ *)

Lemma takeN_takeN : forall A (l : list A) a b, takeN a (takeN b l) = takeN (N.min a b) l.
Proof.
  intros A l. induction l as [|x l IH]; intros a b.
  - reflexivity.
  - destruct (N.eq_dec b 0) as [->|Hb].
    + rewrite takeN_0. replace (N.min a 0) with 0 by lia. rewrite takeN_0. reflexivity.
    + rewrite (takeN_cons _ b) by lia.
      destruct (N.eq_dec a 0) as [->|Ha].
      * replace (N.min 0 b) with 0 by lia. rewrite !takeN_0. reflexivity.
      * rewrite (takeN_cons _ a) by lia. rewrite (takeN_cons _ (N.min a b)) by lia.
        rewrite IH. do 2 f_equal. lia.
Qed.

Lemma dropN_takeN : forall A (l : list A) o n, dropN o (takeN n l) = takeN (n - o) (dropN o l).
Proof.
  intros A l. induction l as [|x l IH]; intros o n.
  - reflexivity.
  - destruct (N.eq_dec n 0) as [->|Hn].
    + rewrite takeN_0. cbn [dropN]. rewrite takeN_0. reflexivity.
    + rewrite (takeN_cons _ n) by lia.
      destruct (N.eq_dec o 0) as [->|Ho].
      * rewrite !dropN_0, N.sub_0_r. rewrite (takeN_cons _ n) by lia. reflexivity.
      * rewrite !(dropN_cons _ o) by lia. rewrite IH. f_equal. lia.
Qed.

Lemma takeN_repeatN : forall A (x : A) n k, k <= n -> takeN k (repeatN x n) = repeatN x k.
Proof.
  intros A x n. induction n as [|n IH] using N.peano_ind; intros k Hk.
  - assert (k = 0) by lia. subst. reflexivity.
  - rewrite repeatN_succ. destruct (N.eq_dec k 0) as [->|Hk0].
    + rewrite takeN_0. reflexivity.
    + rewrite takeN_cons by lia. rewrite IH by lia.
      rewrite <- repeatN_succ. f_equal. lia.
Qed.

(* ------------------------------------------------------------------ *)
(* the property                                                        *)
(* ------------------------------------------------------------------ *)

Definition stream_ids (s : cstate) (id : N) (ids : list N) : Prop :=
  exists e, nthN (dirs s) id = Some e /\ d_type e = TStream /\
            chain_ids_of (fat s) (d_start e) = Ok ids.

(* "the large stream [id] holds exactly V" *)
Definition big_content (s : cstate) (id : N) (V : list byte) : Prop :=
  exists e ids,
    nthN (dirs s) id = Some e /\ d_type e = TStream /\
    MINI_STREAM_CUTOFF <= d_len e /\
    chain_ids_of (fat s) (d_start e) = Ok ids /\
    good_chain s ids /\
    d_len e <= slen s * lenN ids /\
    V = takeN (d_len e) (chain_content s ids).

Lemma big_content_len : forall s id V e,
  big_content s id V -> nthN (dirs s) id = Some e -> lenN V = d_len e.
Proof.
  intros s id V e (e' & ids & He & _ & _ & _ & Hg & Hle & ->) He2.
  rewrite He in He2. injection He2 as ->.
  rewrite lenN_takeN, (good_chain_len _ _ Hg). blia.
Qed.

Lemma big_content_fun : forall s id V V',
  big_content s id V -> big_content s id V' -> V = V'.
Proof.
  intros s id V V' (e & ids & He & _ & _ & Hc & _ & _ & ->)
                   (e' & ids' & He' & _ & _ & Hc' & _ & _ & ->).
  rewrite He in He'. injection He' as <-. rewrite Hc in Hc'. injection Hc' as <-.
  reflexivity.
Qed.

Lemma stream_entry_exec : forall s id e,
  nthN (dirs s) id = Some e -> d_type e = TStream ->
  stream_entry id s = (s, Ok (d_start e, d_len e)).
Proof.
  intros s id e He Ht. unfold stream_entry.
  rewrite (bind_exec _ _ _ _ _ (dir_entry_exec s id e He)).
  rewrite Ht. reflexivity.
Qed.

(* the head of a non-empty walk is its start, which is then not END_OF_CHAIN *)
Lemma chain_ids_head : forall fat start ids,
  chain_ids_of fat start = Ok ids -> ids <> [] ->
  start <> END_OF_CHAIN /\ exists t, ids = start :: t.
Proof.
  intros fat start ids H Hne.
  destruct (chain_ids_of_walk _ _ _ H) as (_ & Hiff & Hhd & _).
  split.
  - intro E. apply Hne. apply Hiff. exact E.
  - destruct ids as [|a t]; [contradiction|]. exists t.
    rewrite (Hhd a eq_refl). reflexivity.
Qed.

(* ------------------------------------------------------------------ *)
(* S1                                                                  *)
(* ------------------------------------------------------------------ *)

Theorem read_data_big : forall s id V off n,
  big_content s id V -> off < lenN V -> 0 < n ->
  read_data id off n s
  = (s, Ok (takeN (N.min n (lenN V - off)) (dropN off V))).
Proof.
  intros s id V off n HB Hoff Hn.
  pose proof HB as (e & ids & He & Ht & Hcut & Hc & Hg & Hle & HV).
  pose proof (big_content_len _ _ _ _ HB He) as HlV.
  rewrite HlV in *.
  unfold read_data.
  rewrite (bind_exec _ _ _ _ _ (stream_entry_exec s id e He Ht)).
  cbv beta iota zeta.
  destruct (d_len e <=? off) eqn:E1; [lia|].
  destruct (N.min (d_len e - off) n =? 0) eqn:E2; [lia|].
  destruct (d_len e <? MINI_STREAM_CUTOFF) eqn:E3; [lia|].
  rewrite (bind_exec _ _ _ _ _ (chain_new_exec s (d_start e) IZero ids Hc)).
  destruct (chain_seek_spec s (mkChain IZero ids 0) off) as [Hseek _].
  rewrite (bind_exec _ _ _ _ _ (Hseek ltac:(unfold chain_len; cbn [c_ids]; lia))).
  cbn [c_init c_ids].
  rewrite (bind_exec _ _ _ _ _
             (chain_read_spec s (mkChain IZero ids off) (N.min (d_len e - off) n) Hg
                ltac:(unfold chain_len; cbn [c_ids c_off]; lia))).
  cbn [c_ids c_off]. unfold ret. f_equal. f_equal.
  rewrite HV, dropN_takeN, takeN_takeN. f_equal. lia.
Qed.

(* ------------------------------------------------------------------ *)
(* well-formedness assumed of the store                                *)
(* ------------------------------------------------------------------ *)

(* the FAT chain of a large stream *)
Definition big_ids (s : cstate) (id : N) (ids : list N) : Prop :=
  exists e, nthN (dirs s) id = Some e /\ d_type e = TStream /\
            MINI_STREAM_CUTOFF <= d_len e /\
            chain_ids_of (fat s) (d_start e) = Ok ids.

Definition disjoint (a b : list N) : Prop := forall x, In x a -> ~ In x b.

Definition dir_ids (s : cstate) (dids : list N) : Prop :=
  chain_ids_of (fat s) (dir_start s) = Ok dids.

Record StoreWf (s : cstate) : Prop := mkStoreWf {
  (* the image has nsect+1 elements, every sector is whole, free sectors exist,
     every FAT index is backed by a FAT sector that exists *)
  sw_alloc : AllocWf s;
  (* every sector number is a regular one (in particular 32-bit: no u64
     overflow in Chain::set_len) *)
  sw_nsect : nsect s <= MAX_REGULAR_SECTOR + 1;
  (* the directory chain is a good chain with room for every slot *)
  sw_dir : exists dids, dir_ids s dids /\ good_chain s dids /\
             DIR_ENTRY_LEN * lenN (dirs s) <= slen s * lenN dids;
  (* names fit: write_dir_entry does not hit Panic 404 *)
  sw_names : forall id e, nthN (dirs s) id = Some e ->
             lenN (utf16 (d_name e)) <= MAX_NAME_LEN;
  (* the directory chain shares no sector with a large stream *)
  sw_dir_disj : forall id ids dids, big_ids s id ids -> dir_ids s dids -> disjoint ids dids;
  (* the free stack has no duplicates and is disjoint from everything in use *)
  sw_free_nodup : NoDup (free s);
  sw_free_disj : forall x, In x (free s) ->
             (forall id ids, big_ids s id ids -> ~ In x ids) /\
             (forall dids, dir_ids s dids -> ~ In x dids) /\
             ~ In x (difat s);
  (* FAT sectors are not data sectors *)
  sw_difat_disj : forall f, In f (difat s) ->
             (forall id ids, big_ids s id ids -> ~ In f ids) /\
             (forall dids, dir_ids s dids -> ~ In f dids)
}.

Lemma wf_nsect_u32 : forall s, StoreWf s -> nsect s <= u32_max.
Proof. intros s H. pose proof (sw_nsect s H) as B. rewrite MAXREG_val in B. unfold u32_max. lia. Qed.

(* ------------------------------------------------------------------ *)
(* writing the directory entry back                                    *)
(* ------------------------------------------------------------------ *)

Lemma same_shape_w_dirs : forall s d, same_shape s (w_dirs s d).
Proof. intros s d. unfold same_shape. repeat split. Qed.

Lemma update_entry_exec : forall s id e st ln dids,
  nthN (dirs s) id = Some e ->
  lenN (utf16 (d_name e)) <= MAX_NAME_LEN ->
  dir_ids s dids -> good_chain s dids ->
  DIR_ENTRY_LEN * id + DIR_ENTRY_LEN <= slen s * lenN dids ->
  exists s',
    update_entry id st ln s = (s', Ok tt) /\
    dirs s' = updN (dirs s) id (set_start_len e st ln) /\
    same_shape s s' /\ minifat s' = minifat s /\ mfree s' = mfree s /\
    difat_ids s' = difat_ids s /\
    (forall x, ~ In x dids -> sector_bytes s' x = sector_bytes s x).
Proof.
  intros s id e st ln dids He Hname Hd Hg Hroom.
  unfold dir_ids in Hd. rewrite DEL_val in Hroom. rewrite MAXNAME_val in Hname.
  set (e' := set_start_len e st ln).
  set (s2 := w_dirs s (updN (dirs s) id e')).
  pose proof (nthN_Some_lt _ _ _ _ He) as Hid.
  assert (He2 : nthN (dirs s2) id = Some e')
    by (cbn [s2 dirs w_dirs]; apply nthN_updN_same; exact Hid).
  assert (Hg2 : good_chain s2 dids)
    by (apply (good_chain_shape s s2 dids Hg); apply same_shape_w_dirs).
  assert (Hlen : lenN (dirent_encode e') = 128).
  { apply CodecProofs.dirent_encode_length. cbn [e' set_start_len d_name]. lia. }
  destruct (chain_write_spec s2 (mkChain IDir dids (DIR_ENTRY_LEN * id)) (dirent_encode e') Hg2)
    as (s' & Hw & _ & _ & _ & Hfr & Hl & Hi & Hm).
  { unfold chain_len. cbn [c_ids c_off]. rewrite Hlen, DEL_val.
    change (slen s2) with (slen s). lia. }
  cbn [c_init c_ids c_off] in Hw, Hfr.
  exists s'. split.
  - unfold update_entry, with_dir_entry_mut, with_dir_entry_mut_inner.
    rewrite (bind_exec _ _ _ _ _ (dir_entry_exec s id e He)).
    rewrite (bind_exec _ _ _ _ _ (set_dir_entry_exec s id e e' He)).
    fold e'. fold s2. unfold write_dir_entry. rewrite bind_get.
    rewrite (bind_exec _ _ _ _ _ (chain_new_exec s2 (dir_start s2) IDir dids Hd)).
    destruct (chain_seek_spec s2 (mkChain IDir dids 0) (DIR_ENTRY_LEN * id)) as [Hseek _].
    rewrite (bind_exec _ _ _ _ _
               (Hseek ltac:(unfold chain_len; cbn [c_ids]; rewrite DEL_val;
                            change (slen s2) with (slen s); lia))).
    cbn [c_init c_ids].
    rewrite (bind_exec _ _ _ _ _ (dir_entry_exec s2 id e' He2)).
    rewrite MAXNAME_val.
    destruct (31 <? lenN (utf16 (d_name e'))) eqn:En;
      [cbn [e' set_start_len d_name] in En; lia|].
    rewrite bind_ret. rewrite (bind_exec _ _ _ _ _ Hw). reflexivity.
  - destruct (same_meta_fields s2 s' Hm)
      as (A1 & A2 & A3 & A4 & A5 & A6 & A7 & A8 & A9 & A10 & A11 & A12).
    split; [rewrite A7; reflexivity|].
    split; [|split; [exact A9|split; [exact A11|split; [exact A3|]]]].
    + unfold same_shape. repeat split; assumption.
    + intros x Hx. rewrite (Hfr x Hx). reflexivity.
Qed.

(* ------------------------------------------------------------------ *)
(* StoreWf is about the shape of the state only                        *)
(* ------------------------------------------------------------------ *)

Lemma AllocWf_shape : forall s s', AllocWf s -> same_shape s s' -> AllocWf s'.
Proof.
  intros s s' [H1 H2 H3 H4] Hsh.
  pose proof (same_shape_slen _ _ Hsh) as Hsl.
  destruct Hsh as (Hn & Hv & Hi & Hl & Hfat & Hfree & Hdifat & _ & _).
  constructor.
  - rewrite Hi, Hn. exact H1.
  - intros x Hx. rewrite Hl, Hsl. apply H2. rewrite <- Hn. exact Hx.
  - intros x Hx. rewrite Hfree in Hx. rewrite Hn, Hfat. apply H3. exact Hx.
  - intros i Hi'. rewrite Hfat in Hi'. unfold fat_per_sector. rewrite Hsl, Hdifat, Hn.
    apply H4. exact Hi'.
Qed.

Lemma chain_content_ext : forall s s' ids,
  (forall x, In x ids -> sector_bytes s' x = sector_bytes s x) ->
  chain_content s' ids = chain_content s ids.
Proof.
  intros s s' ids H. unfold chain_content. f_equal. apply map_ext_in. exact H.
Qed.

Lemma StoreWf_update : forall s s' id e ln,
  StoreWf s -> same_shape s s' ->
  nthN (dirs s) id = Some e -> d_type e = TStream ->
  MINI_STREAM_CUTOFF <= d_len e -> MINI_STREAM_CUTOFF <= ln ->
  dirs s' = updN (dirs s) id (set_start_len e (d_start e) ln) ->
  StoreWf s'.
Proof.
  intros s s' id e ln [Wa Wn Wd Wnm Wdd Wfn Wfd Wdf] Hsh He Ht Hc Hln Hdirs.
  pose proof (same_shape_slen _ _ Hsh) as Hsl.
  pose proof Hsh as (Hn & Hv & Hi & Hl & Hfat & Hfree & Hdifat & Hds & _).
  assert (Hbig : forall i l, big_ids s' i l -> big_ids s i l).
  { intros i l (e2 & He2 & Ht2 & Hc2 & Hch2). rewrite Hdirs in He2. rewrite Hfat in Hch2.
    destruct (N.eq_dec i id) as [->|Hne].
    - rewrite nthN_updN_same in He2 by (eapply nthN_Some_lt; exact He).
      injection He2 as <-. cbn [set_start_len d_start] in Hch2.
      exists e. repeat split; assumption.
    - rewrite nthN_updN_other in He2 by lia. exists e2. repeat split; assumption. }
  assert (Hdir : forall l, dir_ids s' l -> dir_ids s l).
  { intros l H. unfold dir_ids in *. rewrite Hfat, Hds in H. exact H. }
  constructor.
  - eapply AllocWf_shape; eassumption.
  - rewrite Hn. exact Wn.
  - destruct Wd as (dids & D1 & D2 & D3). exists dids. split; [|split].
    + unfold dir_ids in *. rewrite Hfat, Hds. exact D1.
    + eapply good_chain_shape; eassumption.
    + rewrite Hdirs, lenN_updN, Hsl. exact D3.
  - intros i e2 He2. rewrite Hdirs in He2.
    destruct (N.eq_dec i id) as [->|Hne].
    + rewrite nthN_updN_same in He2 by (eapply nthN_Some_lt; exact He).
      injection He2 as <-. cbn [set_start_len d_name]. eapply Wnm. exact He.
    + rewrite nthN_updN_other in He2 by lia. eapply Wnm. exact He2.
  - intros i l dl Hb Hd. eapply Wdd; [apply Hbig; exact Hb | apply Hdir; exact Hd].
  - rewrite Hfree. exact Wfn.
  - intros x Hx. rewrite Hfree in Hx. destruct (Wfd x Hx) as (F1 & F2 & F3).
    split; [|split].
    + intros i l Hb. eapply F1. apply Hbig. exact Hb.
    + intros l Hd. apply F2. apply Hdir. exact Hd.
    + rewrite Hdifat. exact F3.
  - intros f Hf. rewrite Hdifat in Hf. destruct (Wdf f Hf) as (F1 & F2).
    split.
    + intros i l Hb. eapply F1. apply Hbig. exact Hb.
    + intros l Hd. apply F2. apply Hdir. exact Hd.
Qed.

(* ------------------------------------------------------------------ *)
(* the common end of write_data / resize on a large stream whose chain  *)
(* keeps its sectors: write the entry back                              *)
(* ------------------------------------------------------------------ *)

Lemma finish_big : forall s s1 id e ids new_len,
  StoreWf s ->
  nthN (dirs s) id = Some e -> d_type e = TStream -> MINI_STREAM_CUTOFF <= d_len e ->
  chain_ids_of (fat s) (d_start e) = Ok ids -> good_chain s ids ->
  same_shape s s1 -> dirs s1 = dirs s ->
  (forall x, ~ In x ids -> sector_bytes s1 x = sector_bytes s x) ->
  MINI_STREAM_CUTOFF <= new_len -> new_len <= slen s * lenN ids ->
  exists s',
    update_entry id (d_start e) new_len s1 = (s', Ok tt) /\
    big_content s' id (takeN new_len (chain_content s1 ids)) /\
    stream_ids s' id ids /\
    StoreWf s' /\ same_shape s s' /\
    (forall id' V' ids', id' <> id -> big_content s id' V' -> stream_ids s id' ids' ->
       disjoint ids ids' -> big_content s' id' V' /\ stream_ids s' id' ids').
Proof.
  intros s s1 id e ids new_len Hwf He Ht Hcut Hc Hg Hsh1 Hdirs1 Hfr1 Hnl Hfit.
  pose proof (same_shape_slen _ _ Hsh1) as Hsl1.
  pose proof Hsh1 as (Hn1 & Hv1 & Hi1 & Hl1 & Hfat1 & Hfree1 & Hdifat1 & Hds1 & _).
  destruct (sw_dir s Hwf) as (dids & Hd & Hgd & Hroom).
  pose proof (nthN_Some_lt _ _ _ _ He) as Hid.
  assert (Hbig : big_ids s id ids) by (exists e; repeat split; assumption).
  pose proof (sw_dir_disj s Hwf id ids dids Hbig Hd) as Hdisj.
  destruct (update_entry_exec s1 id e (d_start e) new_len dids)
    as (s' & Hu & Hdirs' & Hsh' & _ & _ & _ & Hfr').
  { rewrite Hdirs1. exact He. }
  { eapply sw_names; eassumption. }
  { unfold dir_ids in *. rewrite Hfat1, Hds1. exact Hd. }
  { eapply good_chain_shape; eassumption. }
  { rewrite Hsl1. rewrite DEL_val in *. lia. }
  pose proof (same_shape_trans _ _ _ Hsh1 Hsh') as Hsh.
  pose proof (same_shape_slen _ _ Hsh) as Hsl.
  pose proof Hsh as (Hn & Hv & Hi & Hl & Hfat & Hfree & Hdifat & Hds & _).
  rewrite Hdirs1 in Hdirs'.
  set (e' := set_start_len e (d_start e) new_len) in *.
  assert (He' : nthN (dirs s') id = Some e')
    by (rewrite Hdirs'; apply nthN_updN_same; exact Hid).
  assert (Hcont : chain_content s' ids = chain_content s1 ids).
  { apply chain_content_ext. intros x Hx. apply Hfr'. apply Hdisj. exact Hx. }
  exists s'. split; [exact Hu|]. split; [|split; [|split; [|split; [exact Hsh|]]]].
  - exists e', ids. cbn [e' set_start_len d_type d_len d_start].
    rewrite Hfat, Hsl, Hcont.
    csplit; try assumption; try reflexivity. eapply good_chain_shape; eassumption.
  - exists e'. cbn [e' set_start_len d_type d_start]. rewrite Hfat.
    repeat split; assumption.
  - eapply StoreWf_update; eassumption.
  - intros id' V' ids' Hne (e2 & ids2 & He2 & Ht2 & Hc2 & Hch2 & Hg2 & Hle2 & HV2)
           (e3 & He3 & _ & Hch3) Hdj.
    rewrite He2 in He3. injection He3 as <-. rewrite Hch2 in Hch3. injection Hch3 as <-.
    assert (Hbig2 : big_ids s id' ids2) by (exists e2; repeat split; assumption).
    pose proof (sw_dir_disj s Hwf id' ids2 dids Hbig2 Hd) as Hdisj2.
    assert (He2' : nthN (dirs s') id' = Some e2)
      by (rewrite Hdirs', nthN_updN_other by lia; exact He2).
    assert (Hcont2 : chain_content s' ids2 = chain_content s ids2).
    { apply chain_content_ext. intros x Hx.
      rewrite Hfr' by (apply Hdisj2; exact Hx).
      apply Hfr1. intro Hin. exact (Hdj x Hin Hx). }
    split.
    + exists e2, ids2. rewrite Hfat, Hsl, Hcont2.
      csplit; try assumption. eapply good_chain_shape; eassumption.
    + exists e2. rewrite Hfat. repeat split; assumption.
Qed.

(* ------------------------------------------------------------------ *)
(* S2 / S3: write_data on a large stream, inside the chain's capacity   *)
(* ------------------------------------------------------------------ *)

Lemma splice_take : forall (C : list byte) old off buf,
  off <= old -> old <= lenN C -> off + lenN buf <= lenN C ->
  takeN (N.max old (off + lenN buf)) (spliceN C off buf)
  = spliceN (takeN old C) off buf.
Proof.
  intros C old off buf H1 H2 H3.
  rewrite (spliceN_inside C) by blia.
  rewrite (spliceN_inside (takeN old C)) by (rewrite lenN_takeN; blia).
  rewrite takeN_takeN. replace (N.min off old) with off by lia.
  rewrite dropN_takeN.
  rewrite takeN_app_ge by (rewrite lenN_takeN; blia).
  rewrite lenN_takeN. replace (N.min off (lenN C)) with off by blia.
  rewrite takeN_app_ge by blia.
  do 3 f_equal. blia.
Qed.

Lemma ids_nonempty : forall s (ids : list N) len,
  MINI_STREAM_CUTOFF <= len -> len <= slen s * lenN ids -> ids <> [].
Proof.
  intros s ids len H1 H2 ->. cbn [lenN] in H2. rewrite CUTOFF_val in H1. lia.
Qed.

Lemma chain_start_head : forall i a t o, chain_start (mkChain i (a :: t) o) = a.
Proof. reflexivity. Qed.

Lemma write_data_big_no_alloc : forall s id V ids off buf,
  big_content s id V -> stream_ids s id ids -> StoreWf s ->
  off <= lenN V -> off + lenN buf <= slen s * lenN ids ->
  N.max (lenN V) (off + lenN buf) <= N.min (MAX_REGULAR_SECTOR * slen s) (stream_len_mask (ver s)) ->
  exists s',
    write_data id off buf s = (s', Ok tt) /\
    big_content s' id (spliceN V off buf) /\
    stream_ids s' id ids /\ StoreWf s' /\ same_shape s s' /\
    (forall id' V' ids', id' <> id -> big_content s id' V' -> stream_ids s id' ids' ->
       disjoint ids ids' -> big_content s' id' V' /\ stream_ids s' id' ids').
Proof.
  intros s id V ids off buf HB (e0 & He0 & _ & Hc0) Hwf Hoff Hfit Hbounds.
  pose proof HB as (e & ids' & He & Ht & Hcut & Hc & Hg & Hle & HV).
  rewrite He in He0. injection He0 as <-. rewrite Hc in Hc0. injection Hc0 as ->.
  pose proof (big_content_len _ _ _ _ HB He) as HlV. rewrite HlV in Hoff, Hbounds.
  pose proof (good_chain_len _ _ Hg) as HCL.
  destruct (chain_ids_head _ _ _ Hc (ids_nonempty s ids _ Hcut Hle)) as (Hst & t & Eids).
  set (new_len := N.max (d_len e) (off + lenN buf)).
  destruct (chain_write_spec s (mkChain IZero ids off) buf Hg)
    as (s1 & Hw & Hcont & _ & Hg1 & Hfr & Hl & Hi & Hm).
  { unfold chain_len. cbn [c_ids c_off]. exact Hfit. }
  cbn [c_init c_ids c_off] in *.
  destruct (same_meta_fields s s1 Hm)
    as (A1 & A2 & A3 & A4 & A5 & A6 & A7 & A8 & A9 & A10 & A11 & A12).
  assert (Hsh1 : same_shape s s1) by (unfold same_shape; csplit; assumption).
  destruct (finish_big s s1 id e ids new_len Hwf He Ht Hcut Hc Hg Hsh1 A7 Hfr)
    as (s' & Hu & HB' & Hsi' & Hwf' & Hsh' & Hoth).
  { unfold new_len. lia. }
  { unfold new_len. lia. }
  exists s'. split; [|split; [|split; [exact Hsi'|split; [exact Hwf'|split; [exact Hsh'|exact Hoth]]]]].
  - unfold write_data.
    rewrite (bind_exec _ _ _ _ _ (stream_entry_exec s id e He Ht)).
    cbv beta iota zeta.
    destruct (d_len e <? off) eqn:E1; [lia|]. rewrite bind_ret.
    fold new_len. fold new_len in Hbounds.
    rewrite (bind_exec _ _ _ _ _ (eq_refl : get s = (s, Ok s))). cbv beta iota zeta.
    replace (N.min (MAX_REGULAR_SECTOR * slen s) (stream_len_mask (ver s)) <? new_len) with false
      by (symmetry; apply N.ltb_ge; exact Hbounds).
    rewrite (bind_exec _ _ _ _ _ (eq_refl : ret tt s = (s, Ok tt))).
    match goal with |- bind ?m _ s = _ => assert (E : m s = (s1, Ok (d_start e))) end.
    { destruct (d_start e =? END_OF_CHAIN) eqn:E2; [apply N.eqb_eq in E2; contradiction|].
      destruct (d_len e <? MINI_STREAM_CUTOFF) eqn:E3; [lia|].
      destruct (new_len <? MINI_STREAM_CUTOFF) eqn:E4; [unfold new_len in E4; lia|].
      rewrite bind_ret.
      rewrite (bind_exec _ _ _ _ _ (chain_new_exec s (d_start e) IZero ids Hc)).
      destruct (chain_seek_spec s (mkChain IZero ids 0) off) as [Hseek _].
      rewrite (bind_exec _ _ _ _ _ (Hseek ltac:(unfold chain_len; cbn [c_ids]; lia))).
      cbn [c_init c_ids].
      rewrite (bind_exec _ _ _ _ _ Hw).
      rewrite Eids, chain_start_head, N.eqb_refl. reflexivity. }
    rewrite (bind_exec _ _ _ _ _ E). exact Hu.
  - rewrite Hcont in HB'. unfold new_len in HB'.
    rewrite splice_take in HB' by blia. rewrite <- HV in HB'. exact HB'.
Qed.

(* S2: overwrite strictly inside the stream *)
Theorem write_data_big_inplace : forall s id V ids off buf,
  big_content s id V -> stream_ids s id ids ->
  off + lenN buf <= lenN V -> StoreWf s ->
  lenN V <= N.min (MAX_REGULAR_SECTOR * slen s) (stream_len_mask (ver s)) ->
  exists s',
    write_data id off buf s = (s', Ok tt) /\
    big_content s' id (spliceN V off buf) /\
    lenN (spliceN V off buf) = lenN V /\
    stream_ids s' id ids /\ StoreWf s' /\
    (forall id' V' ids', id' <> id -> big_content s id' V' -> stream_ids s id' ids' ->
       disjoint ids ids' -> big_content s' id' V' /\ stream_ids s' id' ids').
Proof.
  intros s id V ids off buf HB Hsi Hin Hwf Hbounds.
  pose proof HB as (e & ids' & He & Ht & Hcut & Hc & Hg & Hle & HV).
  pose proof Hsi as (e0 & He0 & _ & Hc0).
  rewrite He in He0. injection He0 as <-. rewrite Hc in Hc0. injection Hc0 as ->.
  pose proof (big_content_len _ _ _ _ HB He) as HlV.
  destruct (write_data_big_no_alloc s id V ids off buf HB Hsi Hwf)
    as (s' & H1 & H2 & H3 & H4 & _ & H6); [blia | blia | blia |].
  exists s'. csplit; try assumption. rewrite lenN_spliceN. blia.
Qed.

(* S3: the write runs past the end of the stream but the last sector of the
   chain has room: the stream grows to off + lenN buf, nothing is allocated
   (same_shape: same FAT, same free stack, same number of sectors) *)
Theorem write_data_big_grow_within_chain : forall s id V ids off buf,
  big_content s id V -> stream_ids s id ids -> StoreWf s ->
  off <= lenN V -> lenN V < off + lenN buf -> off + lenN buf <= slen s * lenN ids ->
  off + lenN buf <= N.min (MAX_REGULAR_SECTOR * slen s) (stream_len_mask (ver s)) ->
  exists s',
    write_data id off buf s = (s', Ok tt) /\
    big_content s' id (spliceN V off buf) /\
    lenN (spliceN V off buf) = off + lenN buf /\
    stream_ids s' id ids /\ StoreWf s' /\
    nsect s' = nsect s /\ fat s' = fat s /\ free s' = free s /\
    (forall id' V' ids', id' <> id -> big_content s id' V' -> stream_ids s id' ids' ->
       disjoint ids ids' -> big_content s' id' V' /\ stream_ids s' id' ids').
Proof.
  intros s id V ids off buf HB Hsi Hwf Hoff Hgrow Hfit Hbounds.
  destruct (write_data_big_no_alloc s id V ids off buf HB Hsi Hwf Hoff Hfit ltac:(lia))
    as (s' & H1 & H2 & H3 & H4 & H5 & H6).
  destruct H5 as (B1 & _ & _ & _ & B5 & B6 & _).
  exists s'. csplit; try assumption. rewrite lenN_spliceN. blia.
Qed.

(* ------------------------------------------------------------------ *)
(* resize of a large stream that keeps its number of sectors            *)
(* ------------------------------------------------------------------ *)

Lemma zero_fill_chain_spec : forall s c from to,
  good_chain s (c_ids c) -> to <= chain_len (slen s) c ->
  exists s1 c1,
    zero_fill_chain c from to s = (s1, Ok c1) /\ c_ids c1 = c_ids c /\
    chain_content s1 (c_ids c)
      = (if from <? to then spliceN (chain_content s (c_ids c)) from (repeatN 0 (to - from))
         else chain_content s (c_ids c)) /\
    good_chain s1 (c_ids c) /\ same_shape s s1 /\ dirs s1 = dirs s /\
    (forall x, ~ In x (c_ids c) -> sector_bytes s1 x = sector_bytes s x).
Proof.
  intros s c from to Hg Hto. unfold zero_fill_chain.
  destruct (from <? to) eqn:E.
  - destruct (chain_seek_spec s c from) as [Hseek _].
    rewrite (bind_exec _ _ _ _ _ (Hseek ltac:(lia))).
    destruct (chain_write_spec s (mkChain (c_init c) (c_ids c) from) (repeatN 0 (to - from)))
      as (s1 & Hw & Hcont & _ & Hg1 & Hfr & Hl & Hi & Hm).
    { exact Hg. }
    { unfold chain_len in *. cbn [c_ids c_off]. rewrite lenN_repeatN. lia. }
    cbn [c_init c_ids c_off] in *.
    destruct (same_meta_fields s s1 Hm)
      as (A1 & A2 & A3 & A4 & A5 & A6 & A7 & A8 & A9 & A10 & A11 & A12).
    eexists s1, _. split; [exact Hw|]. cbn [c_ids].
    csplit; try assumption; try reflexivity.
    unfold same_shape; csplit; assumption.
  - exists s, c. unfold ret. csplit; try reflexivity; try assumption.
    apply same_shape_refl.
Qed.

Lemma chain_set_len_same : forall s c new_len,
  0 < new_len -> slen s + new_len < two64 ->
  (slen s + new_len - 1) / slen s = lenN (c_ids c) ->
  chain_set_len c new_len s = (s, Ok c).
Proof.
  intros s c new_len Hpos Hov Hnum. unfold chain_set_len. rewrite bind_get.
  cbv zeta.
  destruct (two64 <=? slen s + new_len - 1 + 1) eqn:E1; [lia|].
  rewrite Hnum.
  assert (Hc : 0 < lenN (c_ids c)).
  { rewrite <- Hnum. pose proof (slen_pos s). apply N.div_str_pos. lia. }
  destruct (lenN (c_ids c) =? 0) eqn:E2; [lia|].
  rewrite N.leb_refl, N.ltb_irrefl. reflexivity.
Qed.

Lemma good_chain_count : forall s ids, good_chain s ids -> lenN ids <= nsect s.
Proof.
  intros s ids (Hnd & HF & _).
  assert (HF' : Forall (fun x => x < nsect s) ids).
  { eapply Forall_impl; [|exact HF]. cbv beta. tauto. }
  pose proof (WalkProofs.bounded_nodup_length _ _ Hnd HF') as H.
  rewrite WalkProofs.lenN_length. lia.
Qed.

Lemma resize_big_same_count : forall s id V ids new_len,
  big_content s id V -> stream_ids s id ids -> StoreWf s ->
  MINI_STREAM_CUTOFF <= new_len ->
  new_len <= slen s * lenN ids -> slen s * lenN ids < new_len + slen s ->
  new_len <= MAX_REGULAR_SECTOR * slen s ->
  new_len <= stream_len_mask (ver s) ->
  exists s',
    resize id new_len s = (s', Ok tt) /\
    big_content s' id (takeN new_len V ++ repeatN 0 (new_len - lenN V)) /\
    stream_ids s' id ids /\ StoreWf s' /\ same_shape s s' /\
    (forall id' V' ids', id' <> id -> big_content s id' V' -> stream_ids s id' ids' ->
       disjoint ids ids' -> big_content s' id' V' /\ stream_ids s' id' ids').
Proof.
  intros s id V ids new_len HB (e0 & He0 & _ & Hc0) Hwf Hnl Hfit Htight Hmax Hmask.
  pose proof HB as (e & ids' & He & Ht & Hcut & Hc & Hg & Hle & HV).
  rewrite He in He0. injection He0 as <-. rewrite Hc in Hc0. injection Hc0 as ->.
  pose proof (big_content_len _ _ _ _ HB He) as HlV.
  pose proof (good_chain_len _ _ Hg) as HCL.
  pose proof (slen_pos s) as Hsp.
  destruct (chain_ids_head _ _ _ Hc (ids_nonempty s ids _ Hcut Hle)) as (Hst & t & Eids).
  destruct (zero_fill_chain_spec s (mkChain IZero ids 0) (d_len e) new_len Hg)
    as (s1 & c1 & Hz & Hids1 & Hcont & Hg1 & Hsh1 & Hd1 & Hfr).
  { unfold chain_len. cbn [c_ids]. exact Hfit. }
  cbn [c_ids] in *.
  destruct (finish_big s s1 id e ids new_len Hwf He Ht Hcut Hc Hg Hsh1 Hd1 Hfr Hnl Hfit)
    as (s' & Hu & HB' & Hsi' & Hwf' & Hsh' & Hoth).
  exists s'. split; [|split; [|split; [exact Hsi'|split; [exact Hwf'|split; [exact Hsh'|exact Hoth]]]]].
  - unfold resize.
    rewrite (bind_exec _ _ _ _ _ (stream_entry_exec s id e He Ht)).
    cbv beta iota zeta.
    rewrite (bind_exec _ _ _ _ _ (eq_refl : get s = (s, Ok s))). cbv beta iota zeta.
    replace (MAX_REGULAR_SECTOR * slen s <? new_len) with false by (symmetry; apply N.ltb_ge; exact Hmax).
    rewrite (bind_exec _ _ _ _ _ (eq_refl : ret tt s = (s, Ok tt))).
    rewrite (mask_check_false s new_len Hmask).
    rewrite (bind_exec _ _ _ _ _ (eq_refl : ret tt s = (s, Ok tt))).
    match goal with |- bind ?m _ s = _ => assert (E : m s = (s1, Ok (d_start e))) end.
    { destruct (d_start e =? END_OF_CHAIN) eqn:E2; [apply N.eqb_eq in E2; contradiction|].
      destruct (d_len e <? MINI_STREAM_CUTOFF) eqn:E3; [lia|].
      destruct (new_len =? 0) eqn:E4; [rewrite CUTOFF_val in Hnl; lia|].
      destruct (new_len <? MINI_STREAM_CUTOFF) eqn:E5; [lia|].
      rewrite (bind_exec _ _ _ _ _ (chain_new_exec s (d_start e) IZero ids Hc)).
      rewrite bind_get.
      rewrite (bind_exec _ _ _ _ _ (chain_set_len_same s (mkChain IZero ids 0) new_len
                 ltac:(rewrite CUTOFF_val in Hnl; lia)
                 ltac:(pose proof (good_chain_count _ _ Hg); pose proof (wf_nsect_u32 s Hwf);
                       destruct (slen_cases s) as [Es|Es]; rewrite Es in *;
                       unfold u32_max in *; rewrite two64_val; nia)
                 ltac:(cbn [c_ids]; symmetry; apply (N.div_unique _ _ _
                         (slen s + new_len - 1 - slen s * lenN ids)); lia))).
      unfold chain_len at 1. cbn [c_ids].
      replace (N.min new_len (slen s * lenN ids)) with new_len by lia.
      rewrite (bind_exec _ _ _ _ _ Hz).
      unfold chain_start. rewrite Hids1, Eids, N.eqb_refl. reflexivity. }
    rewrite (bind_exec _ _ _ _ _ E). exact Hu.
  - rewrite Hcont in HB'. rewrite HlV.
    destruct (d_len e <? new_len) eqn:E.
    + replace new_len with (N.max (d_len e) (d_len e + lenN (repeatN 0 (new_len - d_len e)))) in HB' at 1
        by (rewrite lenN_repeatN; lia).
      rewrite splice_take in HB' by (rewrite ?lenN_repeatN; blia).
      rewrite <- HV in HB'.
      rewrite spliceN_beyond in HB' by blia. rewrite HlV, N.sub_diag in HB'.
      change (repeatN 0 0) with (@nil N) in HB'. cbn [app] in HB'.
      rewrite takeN_all by blia. exact HB'.
    + replace (new_len - d_len e) with 0 by lia. change (repeatN 0 0) with (@nil N).
      rewrite app_nil_r. rewrite HV, takeN_takeN.
      replace (N.min new_len (d_len e)) with new_len by lia. exact HB'.
Qed.

(* S4, case where the number of sectors does not change
   (ceil(new_len / slen) = lenN ids, written slen * lenN ids < new_len + slen):
   truncation inside the last sector.  The general case is resize_big_shrink
   below. *)
Theorem resize_big_shrink_same_count : forall s id V ids new_len,
  big_content s id V -> stream_ids s id ids -> StoreWf s ->
  MINI_STREAM_CUTOFF <= new_len -> new_len < lenN V ->
  slen s * lenN ids < new_len + slen s ->
  new_len <= MAX_REGULAR_SECTOR * slen s ->
  new_len <= stream_len_mask (ver s) ->
  exists s',
    resize id new_len s = (s', Ok tt) /\
    big_content s' id (takeN new_len V) /\
    stream_ids s' id ids /\ StoreWf s' /\ same_shape s s' /\
    (forall id' V' ids', id' <> id -> big_content s id' V' -> stream_ids s id' ids' ->
       disjoint ids ids' -> big_content s' id' V' /\ stream_ids s' id' ids').
Proof.
  intros s id V ids new_len HB Hsi Hwf Hnl Hlt Htight Hmax Hmask.
  pose proof HB as (e & ids' & He & Ht & Hcut & Hc & Hg & Hle & HV).
  pose proof Hsi as (e0 & He0 & _ & Hc0).
  rewrite He in He0. injection He0 as <-. rewrite Hc in Hc0. injection Hc0 as ->.
  pose proof (big_content_len _ _ _ _ HB He) as HlV.
  destruct (resize_big_same_count s id V ids new_len HB Hsi Hwf Hnl ltac:(blia) Htight Hmax Hmask)
    as (s' & H1 & H2 & H3).
  exists s'. split; [exact H1|]. split; [|exact H3].
  replace (new_len - lenN V) with 0 in H2 by blia.
  change (repeatN 0 0) with (@nil N) in H2. rewrite app_nil_r in H2. exact H2.
Qed.

(* S5 (the core of C08): growth inside the last sector of the chain.  No
   hypothesis on the bytes the sector held beyond the old length. *)
Theorem resize_big_grow_zero_within_chain : forall s id V ids new_len,
  big_content s id V -> stream_ids s id ids -> StoreWf s ->
  lenN V < new_len -> new_len <= slen s * lenN ids ->
  slen s * lenN ids < new_len + slen s ->
  new_len <= MAX_REGULAR_SECTOR * slen s ->
  new_len <= stream_len_mask (ver s) ->
  exists s',
    resize id new_len s = (s', Ok tt) /\
    big_content s' id (V ++ repeatN 0 (new_len - lenN V)) /\
    stream_ids s' id ids /\ StoreWf s' /\ same_shape s s' /\
    (forall id' V' ids', id' <> id -> big_content s id' V' -> stream_ids s id' ids' ->
       disjoint ids ids' -> big_content s' id' V' /\ stream_ids s' id' ids').
Proof.
  intros s id V ids new_len HB Hsi Hwf Hgt Hfit Htight Hmax Hmask.
  pose proof HB as (e & ids' & He & Ht & Hcut & Hc & Hg & Hle & HV).
  pose proof (big_content_len _ _ _ _ HB He) as HlV.
  destruct (resize_big_same_count s id V ids new_len HB Hsi Hwf ltac:(blia) Hfit Htight Hmax Hmask)
    as (s' & H1 & H2 & H3).
  exists s'. split; [exact H1|]. split; [|exact H3].
  rewrite takeN_all in H2 by blia. exact H2.
Qed.

(* when the chain has exactly the sectors the stream needs, any growth that
   stays inside the chain stays inside its last sector *)
Corollary resize_big_grow_zero_tight : forall s id V ids new_len,
  big_content s id V -> stream_ids s id ids -> StoreWf s ->
  slen s * lenN ids < lenN V + slen s ->
  lenN V < new_len -> new_len <= slen s * lenN ids ->
  new_len <= MAX_REGULAR_SECTOR * slen s ->
  new_len <= stream_len_mask (ver s) ->
  exists s',
    resize id new_len s = (s', Ok tt) /\
    big_content s' id (V ++ repeatN 0 (new_len - lenN V)).
Proof.
  intros s id V ids new_len HB Hsi Hwf Htight Hgt Hfit Hmax Hmask.
  destruct (resize_big_grow_zero_within_chain s id V ids new_len HB Hsi Hwf Hgt Hfit ltac:(blia) Hmax Hmask)
    as (s' & H1 & H2 & _).
  exists s'. split; assumption.
Qed.

(* S7: the scenario of the repaired defect, for large streams: truncate to m,
   grow back to the old length; the bytes between m and the old length read as
   zeros, not as the stale bytes of V *)
Theorem shrink_then_grow_zero : forall s id V ids m,
  big_content s id V -> stream_ids s id ids -> StoreWf s ->
  MINI_STREAM_CUTOFF <= m -> m < lenN V ->
  slen s * lenN ids < m + slen s ->
  lenN V <= MAX_REGULAR_SECTOR * slen s ->
  lenN V <= stream_len_mask (ver s) ->
  exists s1 s2,
    resize id m s = (s1, Ok tt) /\
    resize id (lenN V) s1 = (s2, Ok tt) /\
    big_content s1 id (takeN m V) /\
    big_content s2 id (takeN m V ++ repeatN 0 (lenN V - m)) /\
    stream_ids s2 id ids /\ free s2 = free s /\ StoreWf s2.
Proof.
  intros s id V ids m HB Hsi Hwf Hm Hlt Htight Hmax Hmask.
  pose proof HB as (e & ids' & He & Ht & Hcut & Hc & Hg & Hle & HV).
  pose proof Hsi as (e0 & He0 & _ & Hc0).
  rewrite He in He0. injection He0 as <-. rewrite Hc in Hc0. injection Hc0 as ->.
  pose proof (big_content_len _ _ _ _ HB He) as HlV.
  destruct (resize_big_shrink_same_count s id V ids m HB Hsi Hwf Hm Hlt Htight ltac:(lia) ltac:(lia))
    as (s1 & R1 & HB1 & Hsi1 & Hwf1 & Hsh1 & _).
  pose proof (same_shape_slen _ _ Hsh1) as Hsl1.
  assert (Hl1 : lenN (takeN m V) = m) by (rewrite lenN_takeN; blia).
  destruct (resize_big_grow_zero_within_chain s1 id (takeN m V) ids (lenN V) HB1 Hsi1 Hwf1)
    as (s2 & R2 & HB2 & Hsi2 & Hwf2 & Hsh2 & _).
  { blia. } { rewrite Hsl1. blia. } { rewrite Hsl1. blia. } { rewrite Hsl1. exact Hmax. }
  { destruct Hsh1 as (_ & Fv & _). rewrite Fv. exact Hmask. }
  rewrite Hl1 in HB2.
  destruct Hsh1 as (_ & _ & _ & _ & _ & F1 & _). destruct Hsh2 as (_ & _ & _ & _ & _ & F2 & _).
  exists s1, s2. csplit; try assumption. congruence.
Qed.

(* ================================================================== *)
(* FAT bookkeeping: chains under set_fat / free_chain / allocation      *)
(* ================================================================== *)

Notation path := WalkProofs.path.

Lemma path_ext : forall fat fat' c l,
  path fat c l -> lenN fat' = lenN fat ->
  (forall x, In x l -> nthN fat' x = nthN fat x) -> path fat' c l.
Proof.
  intros fat fat' c l Hp. induction Hp as [|cur nx l Hc Hn Hp IH]; intros Hlen Hnth.
  - constructor.
  - econstructor; [exact Hc | | apply IH; [exact Hlen|]].
    + unfold next_of in *. rewrite Hlen, (Hnth cur (or_introl eq_refl)). exact Hn.
    + intros x Hx. apply Hnth. right. exact Hx.
Qed.

Lemma path_ext_le : forall fat fat' c l,
  path fat c l -> lenN fat <= lenN fat' ->
  (forall x, In x l -> nthN fat' x = nthN fat x) -> path fat' c l.
Proof.
  intros fat fat' c l Hp. induction Hp as [|cur nx l Hc Hn Hp IH]; intros Hlen Hnth.
  - constructor.
  - econstructor; [exact Hc | | apply IH; [exact Hlen|]].
    + apply WalkProofs.next_of_Ok in Hn. apply WalkProofs.next_of_Ok.
      rewrite (Hnth cur (or_introl eq_refl)). destruct Hn as [H1 H2]. split; [exact H1|].
      destruct H2 as [H2|[H2 H3]]; [left; exact H2 | right; split; [exact H2 | lia]].
    + intros x Hx. apply Hnth. right. exact Hx.
Qed.

Lemma path_head : forall fat c a l, path fat c (a :: l) -> c = a.
Proof. intros fat c a l H. inversion H; subst. reflexivity. Qed.

Lemma path_mid : forall fat l c a l2, path fat c (l ++ a :: l2) -> path fat a (a :: l2).
Proof.
  intros fat l. induction l as [|b l IH]; intros c a l2 H; cbn [app] in H.
  - pose proof (path_head _ _ _ _ H) as ->. exact H.
  - inversion H as [|cur nx l' Hc Hn Hp]; subst. eapply IH. exact Hp.
Qed.

Lemma next_of_EOC : forall fat a, a < lenN fat -> next_of (updN fat a END_OF_CHAIN) a = Ok END_OF_CHAIN.
Proof.
  intros fat a H. apply WalkProofs.next_of_Ok. rewrite nthN_updN_same by exact H.
  split; [reflexivity | left; reflexivity].
Qed.

(* cutting a chain after [a] *)
Lemma path_truncate : forall fat l c a l2,
  path fat c (l ++ a :: l2) -> ~ In a l -> a < lenN fat ->
  path (updN fat a END_OF_CHAIN) c (l ++ [a]).
Proof.
  intros fat l. induction l as [|b l IH]; intros c a l2 H Hni Ha; cbn [app] in *.
  - inversion H as [|cur nx l' Hc Hn Hp]; subst.
    econstructor; [exact Hc | apply next_of_EOC; exact Ha | constructor].
  - inversion H as [|cur nx l' Hc Hn Hp]; subst.
    econstructor; [exact Hc | | eapply IH; [exact Hp | | exact Ha]].
    + rewrite next_of_updN_other; [exact Hn|]. intro E. apply Hni. left. exact E.
    + intro Hin. apply Hni. right. exact Hin.
Qed.

(* extending a chain that ends in [a] by a cell [b] holding END_OF_CHAIN *)
Lemma path_extend : forall fat l c a b,
  path fat c (l ++ [a]) -> ~ In a l -> a <> b -> ~ In b l ->
  nthN fat b = Some END_OF_CHAIN -> b <> END_OF_CHAIN ->
  b <= MAX_REGULAR_SECTOR -> b < lenN fat ->
  path (updN fat a b) c (l ++ [a; b]).
Proof.
  intros fat l. induction l as [|x l IH]; intros c a b H Hni Hab Hnb Hb Hbe Hbr Hbl; cbn [app] in *.
  - inversion H as [|cur nx l' Hc Hn Hp]; subst.
    pose proof (WalkProofs.next_of_lt _ _ _ Hn) as Ha.
    econstructor; [exact Hc | | ].
    + apply WalkProofs.next_of_Ok. rewrite nthN_updN_same by exact Ha.
      split; [reflexivity | right; rewrite lenN_updN; split; assumption].
    + econstructor; [exact Hbe | | constructor].
      apply WalkProofs.next_of_Ok. rewrite nthN_updN_other by lia.
      split; [exact Hb | left; reflexivity].
  - inversion H as [|cur nx l' Hc Hn Hp]; subst.
    econstructor; [exact Hc | | eapply IH; try eassumption].
    + rewrite next_of_updN_other; [exact Hn|]. intro E. apply Hni. left. exact E.
    + intro Hin. apply Hni. right. exact Hin.
    + intro Hin. apply Hnb. right. exact Hin.
Qed.

Lemma path_last_EOC : forall fat l c a,
  path fat c (l ++ [a]) -> next_of fat a = Ok END_OF_CHAIN.
Proof.
  intros fat l c a H. apply path_mid in H.
  inversion H as [|cur nx l' Hc Hn Hp]; subst. inversion Hp; subst. exact Hn.
Qed.

Lemma takeN_snoc_nth : forall A (l : list A) n x,
  nthN l n = Some x -> takeN (n + 1) l = takeN n l ++ [x].
Proof.
  intros A l. induction l as [|y l IH]; intros n x H.
  - discriminate.
  - destruct (N.eq_dec n 0) as [->|Hn].
    + cbn in H. injection H as ->. rewrite takeN_0. cbn [app].
      rewrite takeN_cons by lia. rewrite takeN_0. reflexivity.
    + rewrite nthN_cons_pos in H by lia.
      rewrite !takeN_cons by lia. cbn [app]. f_equal.
      replace (N.pred (n + 1)) with (N.pred n + 1) by lia. apply IH. exact H.
Qed.

Lemma dropN_nth : forall A (l : list A) n x,
  nthN l n = Some x -> dropN n l = x :: dropN (n + 1) l.
Proof.
  intros A l. induction l as [|y l IH]; intros n x H.
  - discriminate.
  - destruct (N.eq_dec n 0) as [->|Hn].
    + cbn in H. injection H as ->. rewrite dropN_0.
      rewrite dropN_cons by lia. rewrite dropN_0. reflexivity.
    + rewrite nthN_cons_pos in H by lia.
      rewrite !dropN_cons by lia.
      replace (N.pred (n + 1)) with (N.pred n + 1) by lia. apply IH. exact H.
Qed.

Lemma nthN_lt_Some : forall A (l : list A) i, i < lenN l -> exists x, nthN l i = Some x.
Proof.
  intros A l i H. destruct (nthN l i) eqn:E; [eauto|]. apply nthN_None_ge in E. lia.
Qed.

(* what the FAT-level operations leave alone *)
Definition meta_same (s s' : cstate) : Prop :=
  ver s' = ver s /\ nsect s' = nsect s /\ difat s' = difat s /\ dirs s' = dirs s /\
  dir_start s' = dir_start s /\ lenN (img s') = lenN (img s) /\ lenN (fat s') = lenN (fat s).

Lemma meta_same_refl : forall s, meta_same s s.
Proof. intro s. unfold meta_same. csplit; reflexivity. Qed.

Lemma meta_same_trans : forall a b c, meta_same a b -> meta_same b c -> meta_same a c.
Proof.
  intros a b c (A1 & A2 & A3 & A4 & A5 & A6 & A7) (B1 & B2 & B3 & B4 & B5 & B6 & B7).
  unfold meta_same. csplit; congruence.
Qed.

Lemma meta_same_slen : forall s s', meta_same s s' -> slen s' = slen s.
Proof. intros s s' (Hv & _). unfold slen. rewrite Hv. reflexivity. Qed.

Lemma same_shape_meta : forall s s', same_shape s s' -> dirs s' = dirs s -> meta_same s s'.
Proof.
  intros s s' (Hn & Hv & Hi & Hl & Hfat & Hfree & Hdifat & Hds & _) Hd.
  unfold meta_same. csplit; try assumption. rewrite Hfat. reflexivity.
Qed.

Lemma sector_bytes_set_fat_state : forall s i v f x,
  x <> f -> sector_bytes (set_fat_state s i v f) x = sector_bytes s x.
Proof.
  intros s i v f x H. unfold set_fat_state, sector_bytes, wr. cbn [img w_fat w_img].
  rewrite nthN_updN_other by lia. reflexivity.
Qed.

Lemma set_fat_state_wf : forall s i v f,
  AllocWf s -> i < lenN (fat s) -> f < nsect s -> AllocWf (set_fat_state s i v f).
Proof.
  intros s i v f [H1 H2 H3 H4] Hi Hf.
  pose proof (set_fat_state_fields s i v f)
    as (Ev & En & Edi & Ed & Efat & Efr & _ & _ & _ & Esl & Efps & Eimg).
  assert (El : lenN (fat (set_fat_state s i v f)) = lenN (fat s))
    by (rewrite Efat; apply lenN_fat_set_lt; exact Hi).
  constructor.
  - rewrite Eimg, En. exact H1.
  - apply full_set_fat_state; assumption.
  - intros y Hy. rewrite Efr in Hy. rewrite En, El. apply H3. exact Hy.
  - intros j Hj. rewrite El in Hj. rewrite Ed, Efps, En. apply H4. exact Hj.
Qed.

Lemma set_fat_state_meta : forall s i v f,
  i < lenN (fat s) -> meta_same s (set_fat_state s i v f).
Proof.
  intros s i v f Hi.
  pose proof (set_fat_state_fields s i v f)
    as (Ev & En & Edi & Ed & Efat & Efr & Edirs & _ & _ & Esl & Efps & Eimg).
  unfold meta_same. csplit; try assumption; try reflexivity.
  rewrite Efat. apply lenN_fat_set_lt. exact Hi.
Qed.

Lemma fat_set_lt : forall l i v, i < lenN l -> fat_set l i v = updN l i v.
Proof. intros l i v H. unfold fat_set. destruct (i =? lenN l) eqn:E; [lia | reflexivity]. Qed.

Lemma good_chain_of_wf : forall s ids,
  AllocWf s -> NoDup ids -> Forall (fun x => x < nsect s) ids -> good_chain s ids.
Proof.
  intros s ids [H1 H2 H3 H4] Hnd HF. split; [exact Hnd|]. split; [|split].
  - eapply Forall_impl; [|exact HF]. cbv beta. intros a Ha. split; [exact Ha | apply H2; exact Ha].
  - exact H1.
  - apply slen_pos.
Qed.

(* free_chain_go with its frame *)
Lemma free_chain_go_frame : forall ids fuel start s,
  AllocWf s -> path (fat s) start ids -> NoDup ids ->
  Forall (fun x => x < nsect s) ids -> (length ids < fuel)%nat ->
  exists s1,
    free_chain_go fuel start s = (s1, Ok tt) /\
    free s1 = free s ++ ids /\ AllocWf s1 /\ meta_same s s1 /\
    (forall x, ~ In x ids -> nthN (fat s1) x = nthN (fat s) x) /\
    (forall x, ~ In x (difat s) -> sector_bytes s1 x = sector_bytes s x).
Proof.
  induction ids as [|a l IH]; intros fuel start s Hwf Hp Hnd Hall Hfuel.
  - inversion Hp; subst. destruct fuel as [|fuel]; [cbn in Hfuel; lia|].
    exists s. cbn [free_chain_go]. rewrite N.eqb_refl, app_nil_r.
    csplit; try reflexivity; try exact Hwf. apply meta_same_refl.
  - inversion Hp as [|cur nx l' Hc Hn Hp']; subst.
    destruct fuel as [|fuel]; [cbn in Hfuel; lia|]. cbn [free_chain_go].
    destruct (a =? END_OF_CHAIN) eqn:Ea; [apply N.eqb_eq in Ea; contradiction|].
    assert (Hnext : next a s = (s, Ok nx)) by (unfold next; rewrite bind_get, Hn; reflexivity).
    rewrite (bind_exec _ _ _ _ _ Hnext).
    pose proof (WalkProofs.next_of_lt _ _ _ Hn) as Halt.
    apply WalkProofs.next_of_Ok in Hn. destruct Hn as [Hnth Hrange].
    assert (Hv : nthN (fat s) a <> Some FREE_SECTOR).
    { rewrite Hnth. intro E. injection E as E.
      pose proof WalkProofs.MAXREG_lt_FREE. destruct Hrange as [Hr|[Hr _]]; [|lia].
      rewrite E in Hr. discriminate Hr. }
    pose proof (Forall_inv Hall) as Ha. cbv beta in Ha.
    destruct (wf_backed s Hwf a Halt) as (f & Hd & Hf).
    rewrite (bind_exec _ _ _ _ _
               (free_sector_exec s a f Halt Hv Hd Hf (wf_full s Hwf f Hf))).
    pose proof (free_state_fields s a f Halt)
      as (Ev & En & Edi & Ed & Efat & Efr & Edirs & _ & _ & Esl & Efps & Eimg).
    pose proof (free_state_wf s a f Hwf Ha Halt Hf) as Hwf1.
    inversion Hnd as [|? ? Hni Hnd']; subst.
    destruct (IH fuel nx (free_state s a f) Hwf1) as (s1 & E1 & F1 & W1 & M1 & T1 & B1).
    + rewrite Efat. apply path_updN; assumption.
    + exact Hnd'.
    + rewrite En. exact (Forall_inv_tail Hall).
    + cbn [length] in Hfuel. lia.
    + exists s1. split; [exact E1|]. split.
      { rewrite F1, Efr, <- app_assoc. reflexivity. }
      split; [exact W1|]. split.
      { eapply meta_same_trans; [|exact M1]. unfold meta_same.
        csplit; try assumption; try reflexivity. rewrite Efat. apply lenN_updN. }
      split.
      { intros x Hx. rewrite T1 by (intro Hin; apply Hx; right; exact Hin).
        rewrite Efat. apply nthN_updN_other. intro E. apply Hx. left. exact E. }
      { intros x Hx. rewrite B1 by (rewrite Ed; exact Hx).
        unfold free_state. cbv zeta.
        change (sector_bytes (w_free ?a ?b) x) with (sector_bytes a x).
        apply sector_bytes_set_fat_state. intro E. subst x.
        apply Hx. eapply nthN_In. exact Hd. }
Qed.

Lemma path_length_fuel : forall fat c l, path fat c l -> (length l < S (S (length fat)))%nat.
Proof.
  intros fat c l Hp.
  pose proof (WalkProofs.bounded_nodup_length _ _ (path_nodup _ _ _ Hp) (WalkProofs.path_lt _ _ _ Hp)) as H.
  rewrite WalkProofs.lenN_length, Nat2N.id in H. lia.
Qed.

(* Chain::set_len to fewer sectors: the tail goes to the free stack *)
Lemma chain_set_len_shrink : forall s start i ids o new_len n',
  AllocWf s -> path (fat s) start ids -> Forall (fun x => x < nsect s) ids ->
  0 < new_len -> slen s + new_len < two64 ->
  (slen s + new_len - 1) / slen s = n' -> n' < lenN ids ->
  exists s1,
    chain_set_len (mkChain i ids o) new_len s = (s1, Ok (mkChain i ids o)) /\
    AllocWf s1 /\ meta_same s s1 /\
    free s1 = free s ++ dropN n' ids /\
    path (fat s1) start (takeN n' ids) /\
    (forall x, ~ In x ids -> nthN (fat s1) x = nthN (fat s) x) /\
    (forall x, ~ In x (difat s) -> sector_bytes s1 x = sector_bytes s x).
Proof.
  intros s start i ids o new_len n' Hwf Hp HF Hpos Hov Hnum Hlt.
  pose proof (slen_pos s) as Hsp.
  assert (Hn1 : 1 <= n').
  { rewrite <- Hnum. assert (0 < (slen s + new_len - 1) / slen s) by (apply N.div_str_pos; lia). lia. }
  destruct (nthN_lt_Some _ ids (n' - 1) ltac:(lia)) as [sid Hsid].
  pose proof (takeN_snoc_nth _ _ _ _ Hsid) as Etake.
  pose proof (dropN_nth _ _ _ _ Hsid) as Edrop.
  replace (n' - 1 + 1) with n' in * by lia.
  set (l := takeN (n' - 1) ids) in *. set (freed := dropN n' ids) in *.
  assert (Eids : ids = l ++ sid :: freed).
  { rewrite <- Edrop. unfold l. symmetry. apply takeN_dropN_id. }
  pose proof (path_nodup _ _ _ Hp) as Hnd. rewrite Eids in Hnd.
  pose proof (NoDup_remove _ _ _ Hnd) as [Hnd' Hni].
  assert (Hni_l : ~ In sid l) by (intro; apply Hni; apply in_or_app; left; assumption).
  assert (Hni_f : ~ In sid freed) by (intro; apply Hni; apply in_or_app; right; assumption).
  assert (Hnd_f : NoDup freed).
  { clear - Hnd'. induction l as [|a l IH]; [exact Hnd'|]. cbn [app] in Hnd'.
    inversion Hnd'; subst. apply IH. assumption. }
  assert (Hdisj_lf : forall x, In x l -> ~ In x freed).
  { clear - Hnd'. induction l as [|a l IH]; intros x Hx; [destruct Hx|]. cbn [app] in Hnd'.
    inversion Hnd' as [|? ? Hna Hnd'']; subst. destruct Hx as [<-|Hx].
    - intro Hin. apply Hna. apply in_or_app. right. exact Hin.
    - apply IH; assumption. }
  pose proof Hp as Hp0. rewrite Eids in Hp0.
  pose proof (path_mid _ _ _ _ _ Hp0) as Hpm.
  inversion Hpm as [|cur nx l' Hc Hn Hpf]; subst cur l'.
  pose proof (WalkProofs.next_of_lt _ _ _ Hn) as Hsl.
  destruct (wf_backed s Hwf sid Hsl) as (f & Hd & Hf).
  pose proof (set_fat_exec s sid END_OF_CHAIN f ltac:(lia) Hd Hf (wf_full s Hwf f Hf)) as Eset.
  set (sa := set_fat_state s sid END_OF_CHAIN f) in *.
  pose proof (set_fat_state_fields s sid END_OF_CHAIN f)
    as (Ev & En & Edi & Ed & Efat & Efr & Edirs & _ & _ & Esl & Efps & Eimg).
  fold sa in Ev, En, Edi, Ed, Efat, Efr, Edirs, Esl, Efps, Eimg.
  rewrite fat_set_lt in Efat by exact Hsl.
  pose proof (set_fat_state_wf s sid END_OF_CHAIN f Hwf Hsl Hf) as Hwfa. fold sa in Hwfa.
  pose proof (set_fat_state_meta s sid END_OF_CHAIN f Hsl) as Hma. fold sa in Hma.
  assert (HFf : Forall (fun x => x < nsect sa) freed).
  { rewrite En. rewrite Forall_forall in *. intros x Hx. apply HF. rewrite Eids.
    apply in_or_app. right. right. exact Hx. }
  assert (Hpa : path (fat sa) nx freed) by (rewrite Efat; apply path_updN; assumption).
  destruct (free_chain_go_frame freed (S (S (length (fat sa)))) nx sa Hwfa Hpa Hnd_f HFf
              (path_length_fuel _ _ _ Hpa))
    as (s1 & E1 & F1 & W1 & M1 & T1 & B1).
  exists s1. split.
  { unfold chain_set_len. rewrite bind_get. cbv zeta. cbn [c_ids].
    destruct (two64 <=? slen s + new_len - 1 + 1) eqn:Q1; [lia|].
    rewrite Hnum.
    destruct (n' =? 0) eqn:Q2; [lia|].
    destruct (n' <=? lenN ids) eqn:Q3; [|lia].
    destruct (n' <? lenN ids) eqn:Q4; [|lia].
    rewrite Hsid. unfold free_chain_after.
    assert (Hnext : next sid s = (s, Ok nx)) by (unfold next; rewrite bind_get, Hn; reflexivity).
    match goal with |- bind ?m _ s = _ => assert (E : m s = (s1, Ok tt)) end.
    { rewrite (bind_exec _ _ _ _ _ Hnext). rewrite (bind_exec _ _ _ _ _ Eset).
      unfold free_chain. rewrite bind_get. exact E1. }
    rewrite (bind_exec _ _ _ _ _ E). reflexivity. }
  split; [exact W1|]. split; [eapply meta_same_trans; eassumption|].
  split; [rewrite F1, Efr; reflexivity|].
  split.
  { rewrite Etake. apply (path_ext (fat sa)).
    - rewrite Efat. eapply path_truncate; [exact Hp0 | exact Hni_l | exact Hsl].
    - destruct M1 as (_ & _ & _ & _ & _ & _ & M). exact M.
    - intros x Hx. apply T1. apply in_app_or in Hx. destruct Hx as [Hx|[<-|[]]].
      + apply Hdisj_lf. exact Hx.
      + exact Hni_f. }
  split.
  { intros x Hx. rewrite T1.
    - rewrite Efat. apply nthN_updN_other. intro E. apply Hx. rewrite Eids.
      apply in_or_app. right. left. exact E.
    - intro Hin. apply Hx. rewrite Eids. apply in_or_app. right. right. exact Hin. }
  { intros x Hx. rewrite B1 by (rewrite Ed; exact Hx).
    apply sector_bytes_set_fat_state. intro E. subst x. apply Hx. eapply nthN_In. exact Hd. }
Qed.

(* ------------------------------------------------------------------ *)
(* writing the entry back, without assuming the FAT is unchanged        *)
(* ------------------------------------------------------------------ *)

Lemma finish_gen : forall s1 id e ids1 dids new_len,
  nthN (dirs s1) id = Some e -> d_type e = TStream ->
  lenN (utf16 (d_name e)) <= MAX_NAME_LEN ->
  dir_ids s1 dids -> good_chain s1 dids ->
  DIR_ENTRY_LEN * lenN (dirs s1) <= slen s1 * lenN dids ->
  chain_ids_of (fat s1) (d_start e) = Ok ids1 -> good_chain s1 ids1 -> disjoint ids1 dids ->
  MINI_STREAM_CUTOFF <= new_len -> new_len <= slen s1 * lenN ids1 ->
  exists s',
    update_entry id (d_start e) new_len s1 = (s', Ok tt) /\
    big_content s' id (takeN new_len (chain_content s1 ids1)) /\
    stream_ids s' id ids1 /\ same_shape s1 s' /\
    dirs s' = updN (dirs s1) id (set_start_len e (d_start e) new_len) /\
    (forall x, ~ In x dids -> sector_bytes s' x = sector_bytes s1 x).
Proof.
  intros s1 id e ids1 dids new_len He Ht Hname Hd Hgd Hroom Hc Hg Hdisj Hnl Hfit.
  pose proof (nthN_Some_lt _ _ _ _ He) as Hid.
  destruct (update_entry_exec s1 id e (d_start e) new_len dids He Hname Hd Hgd)
    as (s' & Hu & Hdirs' & Hsh' & _ & _ & _ & Hfr').
  { rewrite DEL_val in *. lia. }
  pose proof (same_shape_slen _ _ Hsh') as Hsl.
  pose proof Hsh' as (Hn & Hv & Hi & Hl & Hfat & Hfree & Hdifat & Hds & _).
  set (e' := set_start_len e (d_start e) new_len) in *.
  assert (He' : nthN (dirs s') id = Some e')
    by (rewrite Hdirs'; apply nthN_updN_same; exact Hid).
  assert (Hcont : chain_content s' ids1 = chain_content s1 ids1).
  { apply chain_content_ext. intros x Hx. apply Hfr'. apply Hdisj. exact Hx. }
  exists s'. split; [exact Hu|]. csplit; try assumption.
  - exists e', ids1. cbn [e' set_start_len d_type d_len d_start].
    rewrite Hfat, Hsl, Hcont.
    csplit; try assumption; try reflexivity. eapply good_chain_shape; eassumption.
  - exists e'. cbn [e' set_start_len d_type d_start]. rewrite Hfat.
    csplit; assumption.
Qed.

(* another large stream whose FAT cells and sectors were left alone *)
Lemma other_stream_frame : forall s s' id' V' ids',
  big_content s id' V' -> stream_ids s id' ids' ->
  nthN (dirs s') id' = nthN (dirs s) id' ->
  lenN (fat s) <= lenN (fat s') ->
  (forall x, In x ids' -> nthN (fat s') x = nthN (fat s) x) ->
  (forall x, In x ids' -> sector_bytes s' x = sector_bytes s x) ->
  AllocWf s' -> nsect s <= nsect s' -> slen s' = slen s ->
  big_content s' id' V' /\ stream_ids s' id' ids'.
Proof.
  intros s s' id' V' ids' (e2 & ids2 & He2 & Ht2 & Hc2 & Hch2 & Hg2 & Hle2 & HV2)
         (e3 & He3 & _ & Hch3) Hdirs Hlen Hfat Hsec Hwf Hns Hsl.
  rewrite He2 in He3. injection He3 as <-. rewrite Hch2 in Hch3. injection Hch3 as <-.
  rewrite He2 in Hdirs.
  pose proof (WalkProofs.chain_ids_path _ _ _ Hch2) as Hp.
  assert (Hch' : chain_ids_of (fat s') (d_start e2) = Ok ids2).
  { apply WalkProofs.chain_ids_of_path; [|eapply path_nodup; exact Hp].
    eapply path_ext_le; eassumption. }
  assert (Hg' : good_chain s' ids2).
  { destruct Hg2 as (Hnd & HF & _). apply good_chain_of_wf; [exact Hwf | exact Hnd |].
    eapply Forall_impl; [|exact HF]. cbv beta. intros a [Ha _]. lia. }
  split.
  - exists e2, ids2. rewrite Hsl, (chain_content_ext s s' ids2 Hsec).
    csplit; assumption.
  - exists e2. csplit; assumption.
Qed.

Lemma resize_content : forall (C V : list byte) old new_len,
  V = takeN old C -> old <= lenN C -> new_len <= lenN C ->
  takeN new_len (if old <? new_len then spliceN C old (repeatN 0 (new_len - old)) else C)
  = takeN new_len V ++ repeatN 0 (new_len - lenN V).
Proof.
  intros C V old new_len HV Hold Hnew.
  assert (HlV : lenN V = old) by (rewrite HV, lenN_takeN; blia).
  rewrite HlV.
  destruct (old <? new_len) eqn:E.
  - replace new_len with (N.max old (old + lenN (repeatN 0 (new_len - old)))) at 1
      by (rewrite lenN_repeatN; lia).
    rewrite splice_take by (rewrite ?lenN_repeatN; blia).
    rewrite <- HV. rewrite spliceN_beyond by blia. rewrite HlV, N.sub_diag.
    change (repeatN 0 0) with (@nil N). cbn [app].
    rewrite takeN_all by blia. reflexivity.
  - replace (new_len - old) with 0 by lia. change (repeatN 0 0) with (@nil N).
    rewrite app_nil_r. rewrite HV, takeN_takeN.
    replace (N.min new_len old) with new_len by lia. reflexivity.
Qed.

Lemma In_takeN : forall A (l : list A) n x, In x (takeN n l) -> In x l.
Proof.
  intros A l n x H. rewrite <- (takeN_dropN_id _ l n). apply in_or_app. left. exact H.
Qed.

Lemma chain_content_app : forall s a b,
  chain_content s (a ++ b) = chain_content s a ++ chain_content s b.
Proof. intros s a b. unfold chain_content. rewrite map_app, concat_app. reflexivity. Qed.

Lemma ceil_props : forall sl n, 0 < sl -> 0 < n ->
  n <= sl * ((sl + n - 1) / sl) /\ sl * ((sl + n - 1) / sl) < n + sl.
Proof. intros sl n H1 H2. split; nia. Qed.

Lemma overflow_ok : forall s ids new_len,
  StoreWf s -> good_chain s ids -> new_len <= slen s * lenN ids -> slen s + new_len < two64.
Proof.
  intros s ids new_len Hwf Hg Hfit.
  pose proof (good_chain_count _ _ Hg). pose proof (wf_nsect_u32 s Hwf).
  destruct (slen_cases s) as [Es|Es]; rewrite Es in *;
    unfold u32_max in *; rewrite two64_val; nia.
Qed.

(* what a FAT-changing resize of stream [id] leaves alone *)
Definition fat_frame (s s' : cstate) (id : N) (ids : list N) (new_len : N) : Prop :=
  ver s' = ver s /\ difat s' = difat s /\ dir_start s' = dir_start s /\
  lenN (fat s) <= lenN (fat s') /\
  (forall x, ~ In x ids -> x < lenN (fat s) -> nthN (fat s') x = nthN (fat s) x) /\
  (forall e, nthN (dirs s) id = Some e ->
     dirs s' = updN (dirs s) id (set_start_len e (d_start e) new_len)).

(* resize to a length that needs fewer sectors than the chain has *)
Lemma resize_big_release : forall s id V ids new_len,
  big_content s id V -> stream_ids s id ids -> StoreWf s ->
  MINI_STREAM_CUTOFF <= new_len ->
  (slen s + new_len - 1) / slen s < lenN ids ->
  new_len <= MAX_REGULAR_SECTOR * slen s ->
  new_len <= stream_len_mask (ver s) ->
  exists s',
    resize id new_len s = (s', Ok tt) /\
    big_content s' id (takeN new_len V ++ repeatN 0 (new_len - lenN V)) /\
    stream_ids s' id (takeN ((slen s + new_len - 1) / slen s) ids) /\
    free s' = free s ++ dropN ((slen s + new_len - 1) / slen s) ids /\
    nsect s' = nsect s /\ AllocWf s' /\
    (forall id' V' ids', id' <> id -> big_content s id' V' -> stream_ids s id' ids' ->
       disjoint ids ids' -> big_content s' id' V' /\ stream_ids s' id' ids') /\
    fat_frame s s' id ids new_len.
Proof.
  intros s id V ids new_len HB Hsi Hwf Hnl Hlt Hmax Hmask.
  pose proof (slen_pos s) as Hsp.
  assert (Hnl0 : 0 < new_len) by (rewrite CUTOFF_val in Hnl; lia).
  destruct (ceil_props (slen s) new_len Hsp Hnl0) as [Hc1 Hc2].
  set (n' := (slen s + new_len - 1) / slen s) in *.
  assert (Hfit : new_len <= slen s * lenN ids) by nia.
  pose proof Hsi as (e0 & He0 & _ & Hc0).
  pose proof HB as (e & ids' & He & Ht & Hcut & Hc & Hg & Hle & HV).
  rewrite He in He0. injection He0 as <-. rewrite Hc in Hc0. injection Hc0 as ->.
  pose proof (big_content_len _ _ _ _ HB He) as HlV.
  pose proof (good_chain_len _ _ Hg) as HCL.
  destruct (chain_ids_head _ _ _ Hc (ids_nonempty s ids _ Hcut Hle)) as (Hst & t & Eids).
  pose proof (WalkProofs.chain_ids_path _ _ _ Hc) as Hp.
  pose proof (path_nodup _ _ _ Hp) as Hnd.
  assert (HF : Forall (fun x => x < nsect s) ids).
  { destruct Hg as (_ & HF & _). eapply Forall_impl; [|exact HF]. cbv beta. tauto. }
  assert (Hbig : big_ids s id ids) by (exists e; csplit; assumption).
  destruct (sw_dir s Hwf) as (dids & Hd & Hgd & Hroom).
  pose proof (sw_dir_disj s Hwf id ids dids Hbig Hd) as Hdisj.
  pose proof (overflow_ok s ids new_len Hwf Hg Hfit) as Hov.
  (* Chain::set_len *)
  destruct (chain_set_len_shrink s (d_start e) IZero ids 0 new_len n' (sw_alloc s Hwf) Hp HF
              Hnl0 Hov eq_refl Hlt)
    as (s1 & Hset & W1 & M1 & F1 & P1 & T1 & B1).
  pose proof (meta_same_slen _ _ M1) as Hsl1.
  pose proof M1 as (Mv & Mn & Mdifat & Mdirs & Mds & Mimg & Mfl).
  assert (Hg1 : good_chain s1 ids).
  { apply good_chain_of_wf; [exact W1 | exact Hnd | rewrite Mn; exact HF]. }
  assert (Hids_difat : forall x, In x ids -> ~ In x (difat s)).
  { intros x Hx Hin. destruct (sw_difat_disj s Hwf x Hin) as [D _]. exact (D id ids Hbig Hx). }
  assert (Hcont1 : chain_content s1 ids = chain_content s ids).
  { apply chain_content_ext. intros x Hx. apply B1. apply Hids_difat. exact Hx. }
  (* zero fill *)
  destruct (zero_fill_chain_spec s1 (mkChain IZero ids 0) (d_len e) new_len Hg1)
    as (s2 & c2 & Hz & Hids2 & Hcont2 & Hg2 & Hsh2 & Hd2 & Hfr2).
  { unfold chain_len. cbn [c_ids]. rewrite Hsl1. exact Hfit. }
  cbn [c_ids] in *.
  pose proof (same_shape_slen _ _ Hsh2) as Hsl2.
  pose proof Hsh2 as (Sn & Sv & Si & Sl & Sfat & Sfree & Sdifat & Sds & _).
  pose proof (AllocWf_shape _ _ W1 Hsh2) as W2.
  set (kept := takeN n' ids) in *.
  assert (Hkept_in : forall x, In x kept -> In x ids) by (intros x Hx; eapply In_takeN; exact Hx).
  assert (Hch2 : chain_ids_of (fat s2) (d_start e) = Ok kept).
  { rewrite Sfat. apply WalkProofs.chain_ids_of_path; [exact P1 | eapply path_nodup; exact P1]. }
  assert (Hgk : good_chain s2 kept).
  { apply good_chain_of_wf; [exact W2 | eapply path_nodup; exact P1 |].
    rewrite Forall_forall in *. intros x Hx. rewrite Sn, Mn. apply HF. apply Hkept_in. exact Hx. }
  assert (Hdir2 : dir_ids s2 dids).
  { unfold dir_ids in *. rewrite Sfat, Sds, Mds.
    pose proof (WalkProofs.chain_ids_path _ _ _ Hd) as Hpd.
    apply WalkProofs.chain_ids_of_path; [|eapply path_nodup; exact Hpd].
    apply (path_ext (fat s)); [exact Hpd | exact Mfl |].
    intros x Hx. apply T1. intro Hin. exact (Hdisj x Hin Hx). }
  assert (Hgd2 : good_chain s2 dids).
  { destruct Hgd as (Hndd & HFd & _). apply good_chain_of_wf; [exact W2 | exact Hndd |].
    eapply Forall_impl; [|exact HFd]. cbv beta. intros a [Ha _]. rewrite Sn, Mn. exact Ha. }
  assert (Hlk : lenN kept = n') by (unfold kept; rewrite lenN_takeN; lia).
  destruct (finish_gen s2 id e kept dids new_len)
    as (s' & Hu & HB' & Hsi' & Hsh' & Hdirs' & Hfr'); try assumption.
  { rewrite Hd2, Mdirs. exact He. }
  { eapply sw_names; eassumption. }
  { rewrite Hd2, Mdirs, Hsl2, Hsl1. exact Hroom. }
  { intros x Hx. apply Hdisj. apply Hkept_in. exact Hx. }
  { rewrite Hsl2, Hsl1, Hlk. exact Hc1. }
  pose proof Hsh' as (Zn & Zv & Zi & Zl & Zfat & Zfree & Zdifat & Zds & _).
  pose proof (AllocWf_shape _ _ W2 Hsh') as W'.
  exists s'. split; [|split; [|split; [exact Hsi'|split; [|split; [|split; [exact W'|split]]]]]].
  - unfold resize.
    rewrite (bind_exec _ _ _ _ _ (stream_entry_exec s id e He Ht)).
    cbv beta iota zeta.
    rewrite (bind_exec _ _ _ _ _ (eq_refl : get s = (s, Ok s))). cbv beta iota zeta.
    replace (MAX_REGULAR_SECTOR * slen s <? new_len) with false by (symmetry; apply N.ltb_ge; exact Hmax).
    rewrite (bind_exec _ _ _ _ _ (eq_refl : ret tt s = (s, Ok tt))).
    rewrite (mask_check_false s new_len Hmask).
    rewrite (bind_exec _ _ _ _ _ (eq_refl : ret tt s = (s, Ok tt))).
    match goal with |- bind ?m _ s = _ => assert (E : m s = (s2, Ok (d_start e))) end.
    { destruct (d_start e =? END_OF_CHAIN) eqn:E2; [apply N.eqb_eq in E2; contradiction|].
      destruct (d_len e <? MINI_STREAM_CUTOFF) eqn:E3; [lia|].
      destruct (new_len =? 0) eqn:E4; [lia|].
      destruct (new_len <? MINI_STREAM_CUTOFF) eqn:E5; [lia|].
      rewrite (bind_exec _ _ _ _ _ (chain_new_exec s (d_start e) IZero ids Hc)).
      rewrite bind_get.
      rewrite (bind_exec _ _ _ _ _ Hset).
      unfold chain_len at 1. cbn [c_ids].
      replace (N.min new_len (slen s * lenN ids)) with new_len by lia.
      rewrite (bind_exec _ _ _ _ _ Hz).
      unfold chain_start. rewrite Hids2, Eids, N.eqb_refl. reflexivity. }
    rewrite (bind_exec _ _ _ _ _ E). exact Hu.
  - assert (Esplit : chain_content s2 ids = chain_content s2 kept ++ chain_content s2 (dropN n' ids)).
    { rewrite <- chain_content_app. unfold kept. rewrite takeN_dropN_id. reflexivity. }
    assert (Ek : takeN new_len (chain_content s2 kept) = takeN new_len (chain_content s2 ids)).
    { rewrite Esplit. rewrite takeN_app_le; [reflexivity|].
      rewrite (good_chain_len _ _ Hgk), Hlk, Hsl2, Hsl1. exact Hc1. }
    rewrite Ek, Hcont2, Hcont1 in HB'.
    rewrite (resize_content _ V _ _ HV) in HB' by blia. exact HB'.
  - rewrite Zfree, Sfree. exact F1.
  - rewrite Zn, Sn. exact Mn.
  - intros id' V' ids2 Hne HB2 Hsi2 Hdj.
    assert (Hbig2 : big_ids s id' ids2).
    { destruct HB2 as (e2 & l2 & A1 & A2 & A3 & A4 & _). destruct Hsi2 as (e3 & A5 & _ & A6).
      rewrite A1 in A5. injection A5 as <-. rewrite A4 in A6. injection A6 as <-.
      exists e2. csplit; assumption. }
    pose proof (sw_dir_disj s Hwf id' ids2 dids Hbig2 Hd) as Hdisj2.
    apply (other_stream_frame s s' id' V' ids2 HB2 Hsi2).
    + rewrite Hdirs', nthN_updN_other by lia. rewrite Hd2, Mdirs. reflexivity.
    + rewrite Zfat, Sfat, Mfl. apply N.le_refl.
    + intros x Hx. rewrite Zfat, Sfat. apply T1. intro Hin. exact (Hdj x Hin Hx).
    + intros x Hx. rewrite Hfr' by (apply Hdisj2; exact Hx).
      rewrite Hfr2 by (intro Hin; exact (Hdj x Hin Hx)).
      apply B1. intro Hin. destruct (sw_difat_disj s Hwf x Hin) as [D _]. exact (D id' ids2 Hbig2 Hx).
    + exact W'.
    + rewrite Zn, Sn, Mn. lia.
    + rewrite (same_shape_slen _ _ Hsh'), Hsl2. exact Hsl1.
  - unfold fat_frame. csplit.
    + congruence.
    + congruence.
    + congruence.
    + rewrite Zfat, Sfat, Mfl. apply N.le_refl.
    + intros x Hx _. rewrite Zfat, Sfat. apply T1. exact Hx.
    + intros e1 He1. rewrite He in He1. injection He1 as <-.
      rewrite Hdirs', Hd2, Mdirs. reflexivity.
Qed.


(* resize of a large stream to any large length the chain can hold: sectors
   beyond ceil(new_len / slen) are released to the free stack, the gained
   range (if any) is zero-filled *)
Theorem resize_big_no_alloc : forall s id V ids new_len,
  big_content s id V -> stream_ids s id ids -> StoreWf s ->
  MINI_STREAM_CUTOFF <= new_len -> new_len <= slen s * lenN ids ->
  new_len <= MAX_REGULAR_SECTOR * slen s ->
  new_len <= stream_len_mask (ver s) ->
  exists s',
    resize id new_len s = (s', Ok tt) /\
    big_content s' id (takeN new_len V ++ repeatN 0 (new_len - lenN V)) /\
    stream_ids s' id (takeN ((slen s + new_len - 1) / slen s) ids) /\
    free s' = free s ++ dropN ((slen s + new_len - 1) / slen s) ids /\
    nsect s' = nsect s /\ AllocWf s' /\
    (forall id' V' ids', id' <> id -> big_content s id' V' -> stream_ids s id' ids' ->
       disjoint ids ids' -> big_content s' id' V' /\ stream_ids s' id' ids').
Proof.
  intros s id V ids new_len HB Hsi Hwf Hnl Hfit Hmax Hmask.
  pose proof (slen_pos s) as Hsp.
  assert (Hnl0 : 0 < new_len) by (rewrite CUTOFF_val in Hnl; lia).
  destruct (ceil_props (slen s) new_len Hsp Hnl0) as [Hc1 Hc2].
  set (n' := (slen s + new_len - 1) / slen s) in *.
  assert (Hn'le : n' <= lenN ids) by nia.
  destruct (N.eq_dec n' (lenN ids)) as [Heq|Hneq].
  { (* same number of sectors *)
    destruct (resize_big_same_count s id V ids new_len HB Hsi Hwf Hnl Hfit ltac:(nia) Hmax Hmask)
      as (s' & R & HB' & Hsi' & Hwf' & Hsh' & Hoth).
    exists s'. rewrite Heq, (takeN_all _ ids), (dropN_all _ ids), app_nil_r by lia.
    destruct Hsh' as (A1 & _ & _ & _ & _ & A6 & _).
    csplit; try assumption. apply (sw_alloc _ Hwf'). }
  destruct (resize_big_release s id V ids new_len HB Hsi Hwf Hnl ltac:(fold n'; lia) Hmax Hmask)
    as (s' & H1 & H2 & H3 & H4 & H5 & H6 & H7 & _).
  exists s'. fold n' in H3, H4. csplit; assumption.
Qed.

(* S4, general: truncation of a large stream to a large length *)
Theorem resize_big_shrink : forall s id V ids new_len,
  big_content s id V -> stream_ids s id ids -> StoreWf s ->
  MINI_STREAM_CUTOFF <= new_len -> new_len < lenN V ->
  new_len <= MAX_REGULAR_SECTOR * slen s ->
  new_len <= stream_len_mask (ver s) ->
  exists s',
    resize id new_len s = (s', Ok tt) /\
    big_content s' id (takeN new_len V) /\
    stream_ids s' id (takeN ((slen s + new_len - 1) / slen s) ids) /\
    free s' = free s ++ dropN ((slen s + new_len - 1) / slen s) ids /\
    nsect s' = nsect s /\ AllocWf s' /\
    (forall id' V' ids', id' <> id -> big_content s id' V' -> stream_ids s id' ids' ->
       disjoint ids ids' -> big_content s' id' V' /\ stream_ids s' id' ids').
Proof.
  intros s id V ids new_len HB Hsi Hwf Hnl Hlt Hmax Hmask.
  pose proof HB as (e & ids' & He & Ht & Hcut & Hc & Hg & Hle & HV).
  pose proof Hsi as (e0 & He0 & _ & Hc0).
  rewrite He in He0. injection He0 as <-. rewrite Hc in Hc0. injection Hc0 as ->.
  pose proof (big_content_len _ _ _ _ HB He) as HlV.
  destruct (resize_big_no_alloc s id V ids new_len HB Hsi Hwf Hnl ltac:(blia) Hmax Hmask)
    as (s' & H1 & H2 & H3).
  exists s'. split; [exact H1|]. split; [|exact H3].
  replace (new_len - lenN V) with 0 in H2 by blia.
  change (repeatN 0 0) with (@nil N) in H2. rewrite app_nil_r in H2. exact H2.
Qed.

(* ================================================================== *)
(* S6: growth that needs new sectors, taken from the free stack         *)
(* ================================================================== *)

Lemma spliceN_full : forall (l b : list byte), lenN b = lenN l -> spliceN l 0 b = b.
Proof.
  intros l b H. unfold spliceN. rewrite takeN_0. cbn [lenN app]. rewrite N.sub_diag.
  change (repeatN 0 0) with (@nil N). cbn [app]. rewrite N.add_0_l.
  rewrite dropN_all by blia. apply app_nil_r.
Qed.

Lemma repeatN_add : forall A (x : A) a b, repeatN x (a + b) = repeatN x a ++ repeatN x b.
Proof.
  intros A x a b. induction a as [|a IH] using N.peano_ind.
  - reflexivity.
  - replace (N.succ a + b) with (N.succ (a + b)) by lia.
    rewrite !repeatN_succ, IH. reflexivity.
Qed.

Lemma find_last_at_end : forall fat last,
  next_of fat last = Ok END_OF_CHAIN ->
  find_last_go (S (S (length fat))) fat 0 last = Ok last.
Proof.
  intros fat last H. cbn [find_last_go]. rewrite H. cbn [rbind].
  rewrite N.eqb_refl. reflexivity.
Qed.

(* one step of Chain growth when the free stack is not empty *)
Lemma extend_chain_reuse : forall s start ids last sid,
  AllocWf s -> nsect s <= MAX_REGULAR_SECTOR + 1 ->
  path (fat s) start ids -> lastN ids = Some last ->
  lastN (free s) = Some sid -> ~ In sid ids -> ~ In sid (difat s) ->
  exists s',
    extend_chain last IZero s = (s', Ok sid) /\
    AllocWf s' /\ meta_same s s' /\ free s' = pop_last (free s) /\
    path (fat s') start (ids ++ [sid]) /\
    (forall x, ~ In x ids -> x <> sid -> nthN (fat s') x = nthN (fat s) x) /\
    (forall x, x <> sid -> ~ In x (difat s) -> sector_bytes s' x = sector_bytes s x) /\
    sector_bytes s' sid = repeatN 0 (slen s).
Proof.
  intros s start ids last sid Hwf Hns Hp Hlast Hfree Hni Hnd.
  pose proof (lastN_Some_snoc _ _ _ Hlast) as Eids.
  set (l := pop_last ids) in *.
  pose proof Hp as Hp0. rewrite Eids in Hp0.
  pose proof (path_last_EOC _ _ _ _ Hp0) as Hnx.
  pose proof (WalkProofs.next_of_lt _ _ _ Hnx) as Hlast_lt.
  pose proof (path_nodup _ _ _ Hp0) as Hnodup.
  assert (Hlast_l : ~ In last l).
  { apply NoDup_remove_2 in Hnodup. rewrite app_nil_r in Hnodup. exact Hnodup. }
  assert (Hlast_ne : last <> END_OF_CHAIN).
  { apply path_mid in Hp0. inversion Hp0 as [|cur nx l' Hc Hn' Hp']. exact Hc. }
  assert (Hsid_free : In sid (free s)).
  { rewrite (lastN_Some_snoc _ _ _ Hfree). apply in_or_app. right. left. reflexivity. }
  destruct (wf_free s Hwf sid Hsid_free) as [Hsid_n Hsid_f].
  destruct (wf_backed s Hwf sid Hsid_f) as (f & Hd & Hf).
  (* allocate_sector *)
  pose proof (allocate_reuse_exec IZero s sid f Hfree Hsid_n Hsid_f Hd Hf (wf_full s Hwf)) as Ealloc.
  destruct (allocate_reuses IZero s) as (sid' & sr' & Ea' & _ & _ & _ & _ & _ & _ & _ & Wr).
  { intro E. rewrite E in Hfree. discriminate. }
  { exact (wf_free s Hwf). } { exact (wf_backed s Hwf). } { exact (wf_img s Hwf). }
  { exact (wf_full s Hwf). }
  rewrite Ealloc in Ea'. injection Ea' as <- <-.
  set (sr := reuse_state IZero s sid f) in *.
  pose proof (reuse_state_fields IZero s sid f Hsid_f)
    as (Rv & Rn & Rdi & Rd & Rfat & Rfr & Rdirs & _ & _ & Rsl & Rfps & Rimg).
  fold sr in Rv, Rn, Rdi, Rd, Rfat, Rfr, Rdirs, Rsl, Rfps, Rimg.
  assert (Rds : dir_start sr = dir_start s) by reflexivity.
  (* set_fat last sid *)
  assert (Hlast_r : last < lenN (fat sr)) by (rewrite Rfat, lenN_updN; exact Hlast_lt).
  destruct (wf_backed sr Wr last Hlast_r) as (f' & Hd' & Hf').
  pose proof (set_fat_exec sr last sid f' ltac:(lia) Hd' Hf' (wf_full sr Wr f' Hf')) as Eset.
  set (s' := set_fat_state sr last sid f') in *.
  pose proof (set_fat_state_fields sr last sid f')
    as (Ev & En & Edi & Ed & Efat & Efr & Edirs & _ & _ & Esl & Efps & Eimg).
  fold s' in Ev, En, Edi, Ed, Efat, Efr, Edirs, Esl, Efps, Eimg.
  rewrite fat_set_lt in Efat by exact Hlast_r.
  assert (Eds : dir_start s' = dir_start sr) by reflexivity.
  assert (Hf_in : In f (difat s)) by (eapply nthN_In; exact Hd).
  assert (Hf'_in : In f' (difat s)) by (rewrite <- Rd; eapply nthN_In; exact Hd').
  exists s'. split.
  { unfold extend_chain.
    destruct (last =? END_OF_CHAIN) eqn:E; [apply N.eqb_eq in E; contradiction|].
    rewrite bind_get. rewrite (find_last_at_end _ _ Hnx). rewrite bind_lift_ok.
    rewrite (bind_exec _ _ _ _ _ Ealloc). rewrite (bind_exec _ _ _ _ _ Eset). reflexivity. }
  split; [apply set_fat_state_wf; assumption|].
  split.
  { unfold meta_same. csplit; try congruence.
    rewrite Efat, !lenN_updN, Rfat, lenN_updN. reflexivity. }
  split; [rewrite Efr; exact Rfr|].
  split.
  { rewrite Efat, Rfat. rewrite Eids, <- app_assoc. cbn [app].
    apply path_extend.
    - apply path_updN; [exact Hp0|]. rewrite <- Eids. exact Hni.
    - exact Hlast_l.
    - intro E. apply Hni. rewrite Eids. apply in_or_app. right. left. exact E.
    - intro Hin. apply Hni. rewrite Eids. apply in_or_app. left. exact Hin.
    - apply nthN_updN_same. exact Hsid_f.
    - rewrite EOC_val. rewrite MAXREG_val in Hns. lia.
    - lia.
    - rewrite lenN_updN. exact Hsid_f. }
  split.
  { intros x Hx Hxs. rewrite Efat, Rfat.
    rewrite nthN_updN_other.
    - apply nthN_updN_other. intro E. apply Hxs. symmetry. exact E.
    - intro E. apply Hx. rewrite Eids. apply in_or_app. right. left. exact E. }
  split.
  { intros x Hxs Hxd. unfold s'.
    rewrite sector_bytes_set_fat_state by (intro E; subst x; contradiction).
    unfold sr, reuse_state, init_state.
    rewrite sector_bytes_wr_other by exact Hxs.
    rewrite sector_bytes_set_fat_state by (intro E; subst x; contradiction).
    reflexivity. }
  { unfold s'. rewrite sector_bytes_set_fat_state by (intro E; subst f'; contradiction).
    unfold sr, reuse_state, init_state.
    set (s0 := set_fat_state (w_free s (pop_last (free s))) sid END_OF_CHAIN f).
    assert (Hl0 : lenN (sector_bytes s0 sid) = slen s0).
    { unfold s0. rewrite sector_bytes_set_fat_state by (intro E; subst f; contradiction).
      change (sector_bytes (w_free s (pop_last (free s))) sid) with (sector_bytes s sid).
      exact (wf_full s Hwf sid Hsid_n). }
    rewrite sector_bytes_wr_same by exact Hl0.
    rewrite spliceN_full by (rewrite lenN_init_bytes, Hl0; reflexivity).
    reflexivity. }
Qed.

Lemma chain_grow_reuse : forall nw s start ids base o,
  AllocWf s -> nsect s <= MAX_REGULAR_SECTOR + 1 -> ids <> [] ->
  path (fat s) start ids ->
  free s = base ++ rev nw -> NoDup (free s) ->
  (forall x, In x nw -> ~ In x ids /\ ~ In x (difat s)) ->
  exists s',
    chain_grow (length nw) (mkChain IZero ids o) s = (s', Ok (mkChain IZero (ids ++ nw) o)) /\
    AllocWf s' /\ meta_same s s' /\ free s' = base /\
    path (fat s') start (ids ++ nw) /\
    (forall x, ~ In x ids -> ~ In x nw -> nthN (fat s') x = nthN (fat s) x) /\
    (forall x, ~ In x nw -> ~ In x (difat s) -> sector_bytes s' x = sector_bytes s x) /\
    (forall x, In x nw -> sector_bytes s' x = repeatN 0 (slen s)).
Proof.
  induction nw as [|a nw IH]; intros s start ids base o Hwf Hns Hne Hp Hfree Hnd Hnew.
  - exists s. cbn [length chain_grow]. rewrite app_nil_r.
    csplit; try reflexivity; try exact Hwf; try exact Hp.
    + apply meta_same_refl.
    + cbn [rev] in Hfree. rewrite app_nil_r in Hfree. exact Hfree.
    + intros x [].
  - cbn [rev] in Hfree. rewrite app_assoc in Hfree.
    assert (Hlf : lastN (free s) = Some a) by (rewrite Hfree; apply lastN_snoc).
    destruct (exists_last Hne) as (l & last & El).
    assert (Hlast : lastN ids = Some last) by (rewrite El; apply lastN_snoc).
    destruct (Hnew a (or_introl eq_refl)) as [Ha_ids Ha_difat].
    destruct (extend_chain_reuse s start ids last a Hwf Hns Hp Hlast Hlf Ha_ids Ha_difat)
      as (s1 & E1 & W1 & M1 & F1 & P1 & T1 & B1 & Z1).
    pose proof M1 as (Mv & Mn & Mdifat & Mdirs & Mds & Mimg & Mfl).
    pose proof (meta_same_slen _ _ M1) as Hsl1.
    rewrite Hfree, pop_last_snoc in F1.
    rewrite Hfree in Hnd.
    pose proof (NoDup_remove_1 _ _ _ Hnd) as Hnd1. rewrite app_nil_r in Hnd1.
    pose proof (NoDup_remove_2 _ _ _ Hnd) as Ha_rest. rewrite app_nil_r in Ha_rest.
    assert (Ha_nw : ~ In a nw).
    { intro Hin. apply Ha_rest. apply in_or_app. right. apply in_rev in Hin. exact Hin. }
    destruct (IH s1 start (ids ++ [a]) base o W1) as (s' & E' & W' & M' & F' & P' & T' & B' & Z').
    + rewrite Mn. exact Hns.
    + intro E. apply app_eq_nil in E. destruct E as [_ E]. discriminate.
    + exact P1.
    + exact F1.
    + rewrite F1. exact Hnd1.
    + intros x Hx. destruct (Hnew x (or_intror Hx)) as [Hx1 Hx2]. split.
      * intro Hin. apply in_app_or in Hin. destruct Hin as [Hin|[<-|[]]]; [contradiction|].
        contradiction.
      * rewrite Mdifat. exact Hx2.
    + exists s'. cbn [length chain_grow]. cbn [c_ids c_init c_off].
      rewrite Hlast. rewrite (bind_exec _ _ _ _ _ E1).
      rewrite <- app_assoc in E', P'. cbn [app] in E', P'.
      split; [exact E'|]. split; [exact W'|].
      split; [eapply meta_same_trans; eassumption|]. split; [exact F'|].
      split; [exact P'|].
      split; [|split].
      * intros x Hx1 Hx2. rewrite T'.
        -- apply T1; [exact Hx1|]. intro E. apply Hx2. left. symmetry. exact E.
        -- intro Hin. apply in_app_or in Hin. destruct Hin as [Hin|[<-|[]]]; [contradiction|].
           apply Hx2. left. reflexivity.
        -- intro Hin. apply Hx2. right. exact Hin.
      * intros x Hx1 Hx2. rewrite B'.
        -- apply B1; [|exact Hx2]. intro E. apply Hx1. left. symmetry. exact E.
        -- intro Hin. apply Hx1. right. exact Hin.
        -- rewrite Mdifat. exact Hx2.
      * intros x [<-|Hx].
        -- rewrite B' by (try rewrite Mdifat; assumption). exact Z1.
        -- rewrite Z' by exact Hx. rewrite Hsl1. reflexivity.
Qed.

Lemma chain_set_len_grow : forall s c new_len,
  slen s + new_len < two64 -> 0 < new_len ->
  lenN (c_ids c) < (slen s + new_len - 1) / slen s ->
  chain_set_len c new_len s
  = chain_grow (N.to_nat ((slen s + new_len - 1) / slen s - lenN (c_ids c))) c s.
Proof.
  intros s c new_len Hov Hpos Hgt. unfold chain_set_len. rewrite bind_get. cbv zeta.
  destruct (two64 <=? slen s + new_len - 1 + 1) eqn:E1; [lia|].
  destruct ((slen s + new_len - 1) / slen s =? 0) eqn:E2; [lia|].
  destruct ((slen s + new_len - 1) / slen s <=? lenN (c_ids c)) eqn:E3; [lia|].
  reflexivity.
Qed.

Lemma zeros_content : forall s sl nw,
  (forall x, In x nw -> sector_bytes s x = repeatN 0 sl) ->
  chain_content s nw = repeatN 0 (sl * lenN nw).
Proof.
  intros s sl nw. induction nw as [|a nw IH]; intro H.
  - cbn [lenN]. rewrite N.mul_0_r. reflexivity.
  - rewrite chain_content_cons. rewrite (H a (or_introl eq_refl)).
    rewrite IH by (intros x Hx; apply H; right; exact Hx).
    cbn [lenN]. replace (sl * N.succ (lenN nw)) with (sl + sl * lenN nw) by lia.
    symmetry. apply repeatN_add.
Qed.

Lemma grow_content : forall (C V : list byte) old z,
  V = takeN old C -> old <= lenN C ->
  (if old <? lenN C then spliceN (C ++ repeatN 0 z) old (repeatN 0 (lenN C - old))
   else C ++ repeatN 0 z)
  = V ++ repeatN 0 (lenN C - old + z).
Proof.
  intros C V old z HV Hold.
  destruct (old <? lenN C) eqn:E.
  - rewrite spliceN_app_le by (rewrite lenN_repeatN; blia).
    rewrite spliceN_inside by blia. rewrite lenN_repeatN.
    rewrite dropN_all by blia. rewrite app_nil_r, <- HV, <- app_assoc.
    rewrite repeatN_add. reflexivity.
  - replace (lenN C - old) with 0 by blia. rewrite N.add_0_l.
    rewrite HV, takeN_all by blia. reflexivity.
Qed.

Lemma NoDup_app_r : forall (a b : list N), NoDup (a ++ b) -> NoDup b.
Proof.
  intros a b H. induction a as [|x a IH]; [exact H|]. cbn [app] in H.
  inversion H; subst. apply IH. assumption.
Qed.

(* S6: growth that needs k = lenN nw new sectors, in the case where the free
   stack holds at least k sectors: they are popped (last first, [rev nw] is the
   top of the stack), zero-initialised (init_bytes IZero) and linked after the
   chain; the tail of the old last sector is zero-filled.  The complementary
   case (empty free stack: the file grows, possibly by a FAT sector too) is not
   covered here. *)
Theorem resize_big_grow_zero_new_sectors : forall s id V ids new_len base nw,
  big_content s id V -> stream_ids s id ids -> StoreWf s ->
  slen s * lenN ids < new_len ->
  free s = base ++ rev nw ->
  lenN ids + lenN nw = (slen s + new_len - 1) / slen s ->
  new_len <= MAX_REGULAR_SECTOR * slen s ->
  new_len <= stream_len_mask (ver s) ->
  exists s',
    resize id new_len s = (s', Ok tt) /\
    big_content s' id (V ++ repeatN 0 (new_len - lenN V)) /\
    stream_ids s' id (ids ++ nw) /\
    free s' = base /\ nsect s' = nsect s /\ AllocWf s' /\
    (forall id' V' ids', id' <> id -> big_content s id' V' -> stream_ids s id' ids' ->
       disjoint ids ids' -> big_content s' id' V' /\ stream_ids s' id' ids').
Proof.
  intros s id V ids new_len base nw HB Hsi Hwf Hgt Hfree Hcount Hmax Hmask.
  pose proof (slen_pos s) as Hsp.
  pose proof Hsi as (e0 & He0 & _ & Hc0).
  pose proof HB as (e & ids' & He & Ht & Hcut & Hc & Hg & Hle & HV).
  rewrite He in He0. injection He0 as <-. rewrite Hc in Hc0. injection Hc0 as ->.
  pose proof (big_content_len _ _ _ _ HB He) as HlV.
  pose proof (good_chain_len _ _ Hg) as HCL.
  assert (Hnl : MINI_STREAM_CUTOFF <= new_len) by lia.
  assert (Hnl0 : 0 < new_len) by (rewrite CUTOFF_val in Hnl; lia).
  destruct (ceil_props (slen s) new_len Hsp Hnl0) as [Hc1 Hc2].
  rewrite <- Hcount in Hc1, Hc2.
  pose proof (ids_nonempty s ids _ Hcut Hle) as Hne.
  destruct (chain_ids_head _ _ _ Hc Hne) as (Hst & t & Eids).
  pose proof (WalkProofs.chain_ids_path _ _ _ Hc) as Hp.
  pose proof (path_nodup _ _ _ Hp) as Hnd.
  assert (HF : Forall (fun x => x < nsect s) ids).
  { destruct Hg as (_ & HF & _). eapply Forall_impl; [|exact HF]. cbv beta. tauto. }
  assert (Hbig : big_ids s id ids) by (exists e; csplit; assumption).
  destruct (sw_dir s Hwf) as (dids & Hd & Hgd & Hroom).
  pose proof (sw_dir_disj s Hwf id ids dids Hbig Hd) as Hdisj.
  pose proof (sw_alloc s Hwf) as Wa.
  assert (Hnw_free : forall x, In x nw -> In x (free s)).
  { intros x Hx. rewrite Hfree. apply in_or_app. right. apply in_rev in Hx. exact Hx. }
  assert (Hnw_nd : NoDup nw).
  { pose proof (sw_free_nodup s Hwf) as H. rewrite Hfree in H.
    apply NoDup_app_r in H. apply NoDup_rev in H. rewrite rev_involutive in H. exact H. }
  assert (Hnw_lt : Forall (fun x => x < nsect s) nw).
  { rewrite Forall_forall. intros x Hx. apply (wf_free s Wa). apply Hnw_free. exact Hx. }
  assert (Hnew : forall x, In x nw -> ~ In x ids /\ ~ In x (difat s)).
  { intros x Hx. destruct (sw_free_disj s Hwf x (Hnw_free x Hx)) as (D1 & _ & D3).
    split; [exact (D1 id ids Hbig) | exact D3]. }
  assert (Hov : slen s + new_len < two64).
  { pose proof (good_chain_count _ _ Hg) as B1.
    pose proof (WalkProofs.bounded_nodup_length _ _ Hnw_nd Hnw_lt) as B2.
    assert (B2' : lenN nw <= nsect s) by (rewrite WalkProofs.lenN_length; lia).
    pose proof (wf_nsect_u32 s Hwf) as B3.
    destruct (slen_cases s) as [Es|Es]; rewrite Es in *;
      unfold u32_max in *; rewrite two64_val; nia. }
  (* Chain::set_len *)
  destruct (chain_grow_reuse nw s (d_start e) ids base 0 Wa (sw_nsect s Hwf) Hne Hp Hfree
              (sw_free_nodup s Hwf) Hnew)
    as (s1 & Hgrow & W1 & M1 & F1 & P1 & T1 & B1 & Z1).
  pose proof (meta_same_slen _ _ M1) as Hsl1.
  pose proof M1 as (Mv & Mn & Mdifat & Mdirs & Mds & Mimg & Mfl).
  assert (HFall : Forall (fun x => x < nsect s) (ids ++ nw)).
  { apply Forall_app. split; assumption. }
  assert (Hg1 : good_chain s1 (ids ++ nw)).
  { apply good_chain_of_wf; [exact W1 | eapply path_nodup; exact P1 | rewrite Mn; exact HFall]. }
  assert (Hids_difat : forall x, In x ids -> ~ In x (difat s)).
  { intros x Hx Hin. destruct (sw_difat_disj s Hwf x Hin) as [D _]. exact (D id ids Hbig Hx). }
  assert (Hcont1 : chain_content s1 (ids ++ nw)
                   = chain_content s ids ++ repeatN 0 (slen s * lenN nw)).
  { rewrite chain_content_app. f_equal.
    - apply chain_content_ext. intros x Hx. apply B1.
      + intro Hin. destruct (Hnew x Hin) as [D _]. contradiction.
      + apply Hids_difat. exact Hx.
    - apply zeros_content. exact Z1. }
  (* zero fill of the tail of the old last sector *)
  destruct (zero_fill_chain_spec s1 (mkChain IZero (ids ++ nw) 0) (d_len e) (slen s * lenN ids) Hg1)
    as (s2 & c2 & Hz & Hids2 & Hcont2 & Hg2 & Hsh2 & Hd2 & Hfr2).
  { unfold chain_len. cbn [c_ids]. rewrite Hsl1, lenN_app. nia. }
  cbn [c_ids] in *.
  pose proof (same_shape_slen _ _ Hsh2) as Hsl2.
  pose proof Hsh2 as (Sn & Sv & Si & Sl & Sfat & Sfree & Sdifat & Sds & _).
  pose proof (AllocWf_shape _ _ W1 Hsh2) as W2.
  assert (Hch2 : chain_ids_of (fat s2) (d_start e) = Ok (ids ++ nw)).
  { rewrite Sfat. apply WalkProofs.chain_ids_of_path; [exact P1 | eapply path_nodup; exact P1]. }
  assert (Hdids_nw : forall x, In x dids -> ~ In x nw).
  { intros x Hx Hin. destruct (sw_free_disj s Hwf x (Hnw_free x Hin)) as (_ & D2 & _).
    exact (D2 dids Hd Hx). }
  assert (Hdir2 : dir_ids s2 dids).
  { unfold dir_ids in *. rewrite Sfat, Sds, Mds.
    pose proof (WalkProofs.chain_ids_path _ _ _ Hd) as Hpd.
    apply WalkProofs.chain_ids_of_path; [|eapply path_nodup; exact Hpd].
    apply (path_ext (fat s)); [exact Hpd | exact Mfl |].
    intros x Hx. apply T1; [intro Hin; exact (Hdisj x Hin Hx) | apply Hdids_nw; exact Hx]. }
  assert (Hgd2 : good_chain s2 dids).
  { destruct Hgd as (Hndd & HFd & _). apply good_chain_of_wf; [exact W2 | exact Hndd |].
    eapply Forall_impl; [|exact HFd]. cbv beta. intros a [Ha _]. rewrite Sn, Mn. exact Ha. }
  destruct (finish_gen s2 id e (ids ++ nw) dids new_len)
    as (s' & Hu & HB' & Hsi' & Hsh' & Hdirs' & Hfr'); try assumption.
  { rewrite Hd2, Mdirs. exact He. }
  { eapply sw_names; eassumption. }
  { rewrite Hd2, Mdirs, Hsl2, Hsl1. exact Hroom. }
  { intros x Hx Hin. apply in_app_or in Hx. destruct Hx as [Hx|Hx].
    - exact (Hdisj x Hx Hin).
    - exact (Hdids_nw x Hin Hx). }
  { rewrite Hsl2, Hsl1, lenN_app. exact Hc1. }
  pose proof Hsh' as (Zn & Zv & Zi & Zl & Zfat & Zfree & Zdifat & Zds & _).
  pose proof (AllocWf_shape _ _ W2 Hsh') as W'.
  exists s'. split; [|split; [|split; [exact Hsi'|split; [|split; [|split; [exact W'|]]]]]].
  - unfold resize.
    rewrite (bind_exec _ _ _ _ _ (stream_entry_exec s id e He Ht)).
    cbv beta iota zeta.
    rewrite (bind_exec _ _ _ _ _ (eq_refl : get s = (s, Ok s))). cbv beta iota zeta.
    replace (MAX_REGULAR_SECTOR * slen s <? new_len) with false by (symmetry; apply N.ltb_ge; exact Hmax).
    rewrite (bind_exec _ _ _ _ _ (eq_refl : ret tt s = (s, Ok tt))).
    rewrite (mask_check_false s new_len Hmask).
    rewrite (bind_exec _ _ _ _ _ (eq_refl : ret tt s = (s, Ok tt))).
    match goal with |- bind ?m _ s = _ => assert (E : m s = (s2, Ok (d_start e))) end.
    { destruct (d_start e =? END_OF_CHAIN) eqn:E2; [apply N.eqb_eq in E2; contradiction|].
      destruct (d_len e <? MINI_STREAM_CUTOFF) eqn:E3; [lia|].
      destruct (new_len =? 0) eqn:E4; [lia|].
      destruct (new_len <? MINI_STREAM_CUTOFF) eqn:E5; [lia|].
      rewrite (bind_exec _ _ _ _ _ (chain_new_exec s (d_start e) IZero ids Hc)).
      rewrite bind_get.
      assert (Hset : chain_set_len (mkChain IZero ids 0) new_len s
                     = (s1, Ok (mkChain IZero (ids ++ nw) 0))).
      { rewrite chain_set_len_grow by (cbn [c_ids]; lia). cbn [c_ids].
        rewrite <- Hcount.
        replace (N.to_nat (lenN ids + lenN nw - lenN ids)) with (length nw)
          by (rewrite (WalkProofs.lenN_length nw); lia).
        exact Hgrow. }
      rewrite (bind_exec _ _ _ _ _ Hset).
      unfold chain_len at 1. cbn [c_ids].
      replace (N.min new_len (slen s * lenN ids)) with (slen s * lenN ids) by lia.
      rewrite (bind_exec _ _ _ _ _ Hz).
      unfold chain_start. rewrite Hids2, Eids. cbn [app]. rewrite N.eqb_refl. reflexivity. }
    rewrite (bind_exec _ _ _ _ _ E). exact Hu.
  - rewrite Hcont2, Hcont1 in HB'. rewrite <- HCL in HB'.
    rewrite (grow_content _ V _ _ HV) in HB' by blia.
    rewrite takeN_app_ge in HB' by blia.
    rewrite takeN_repeatN in HB' by (rewrite HCL; blia).
    exact HB'.
  - rewrite Zfree, Sfree. exact F1.
  - rewrite Zn, Sn. exact Mn.
  - intros id' V' ids2 Hneq HB2 Hsi2 Hdj.
    assert (Hbig2 : big_ids s id' ids2).
    { destruct HB2 as (e2 & l2 & A1 & A2 & A3 & A4 & _). destruct Hsi2 as (e3 & A5 & _ & A6).
      rewrite A1 in A5. injection A5 as <-. rewrite A4 in A6. injection A6 as <-.
      exists e2. csplit; assumption. }
    pose proof (sw_dir_disj s Hwf id' ids2 dids Hbig2 Hd) as Hdisj2.
    assert (Hids2_nw : forall x, In x ids2 -> ~ In x nw).
    { intros x Hx Hin. destruct (sw_free_disj s Hwf x (Hnw_free x Hin)) as (D1 & _).
      exact (D1 id' ids2 Hbig2 Hx). }
    apply (other_stream_frame s s' id' V' ids2 HB2 Hsi2).
    + rewrite Hdirs', nthN_updN_other by lia. rewrite Hd2, Mdirs. reflexivity.
    + rewrite Zfat, Sfat, Mfl. apply N.le_refl.
    + intros x Hx. rewrite Zfat, Sfat.
      apply T1; [intro Hin; exact (Hdj x Hin Hx) | apply Hids2_nw; exact Hx].
    + intros x Hx. rewrite Hfr' by (apply Hdisj2; exact Hx).
      rewrite Hfr2.
      * apply B1; [apply Hids2_nw; exact Hx|].
        intro Hin. destruct (sw_difat_disj s Hwf x Hin) as [D _]. exact (D id' ids2 Hbig2 Hx).
      * intro Hin. apply in_app_or in Hin. destruct Hin as [Hin|Hin].
        -- exact (Hdj x Hin Hx).
        -- exact (Hids2_nw x Hx Hin).
    + exact W'.
    + rewrite Zn, Sn, Mn. lia.
    + rewrite (same_shape_slen _ _ Hsh'), Hsl2. exact Hsl1.
Qed.

(* ================================================================== *)
(* S6, second case: the free stack is empty, the file grows             *)
(* ================================================================== *)

Module Co := CoherenceProofs.

(* one step of Chain growth when the free stack is empty and the FAT sector
   in use still has a free cell: one FAT cell and one sector are appended *)
Lemma extend_chain_append : forall s start ids last,
  AllocWf s -> free s = [] -> lenN (fat s) = nsect s ->
  nsect s <= MAX_REGULAR_SECTOR ->
  nsect s mod fat_per_sector s <> 0 ->
  path (fat s) start ids -> lastN ids = Some last ->
  exists s',
    extend_chain last IZero s = (s', Ok (nsect s)) /\
    AllocWf s' /\ free s' = [] /\ lenN (fat s') = nsect s' /\ nsect s' = nsect s + 1 /\
    ver s' = ver s /\ difat s' = difat s /\ dirs s' = dirs s /\ dir_start s' = dir_start s /\
    path (fat s') start (ids ++ [nsect s]) /\
    (forall x, ~ In x ids -> x < nsect s -> nthN (fat s') x = nthN (fat s) x) /\
    (forall x, x < nsect s -> ~ In x (difat s) -> sector_bytes s' x = sector_bytes s x) /\
    sector_bytes s' (nsect s) = repeatN 0 (slen s).
Proof.
  intros s start ids last Hwf Hfree Hlen Hns Hmod Hp Hlast.
  pose proof (fps_pos s) as Hfp.
  pose proof (lastN_Some_snoc _ _ _ Hlast) as Eids.
  set (l := pop_last ids) in *.
  pose proof Hp as Hp0. rewrite Eids in Hp0.
  pose proof (path_last_EOC _ _ _ _ Hp0) as Hnx.
  pose proof (WalkProofs.next_of_lt _ _ _ Hnx) as Hlast_lt.
  pose proof (path_nodup _ _ _ Hp0) as Hnodup.
  assert (Hlast_l : ~ In last l).
  { apply NoDup_remove_2 in Hnodup. rewrite app_nil_r in Hnodup. exact Hnodup. }
  assert (Hlast_ne : last <> END_OF_CHAIN).
  { apply path_mid in Hp0. inversion Hp0 as [|cur nx l' Hc Hn' Hp']. exact Hc. }
  assert (Hids_lt : forall x, In x ids -> x < nsect s).
  { intros x Hx. pose proof (WalkProofs.path_lt _ _ _ Hp) as HF. rewrite Forall_forall in HF.
    rewrite <- Hlen. apply HF. exact Hx. }
  assert (Hpos : 0 < nsect s) by (rewrite <- Hlen; lia).
  (* the FAT sector backing the last cell also backs the next one *)
  destruct (wf_backed s Hwf (lenN (fat s) - 1) ltac:(lia)) as (f & Hd & Hf).
  assert (Ediv : (lenN (fat s) - 1) / fat_per_sector s = lenN (fat s) / fat_per_sector s).
  { rewrite Hlen. destruct (fps_cases s) as [[_ E]|[_ E]]; rewrite E in *; lia. }
  rewrite Ediv in Hd.
  (* set_fat (lenN fat) END_OF_CHAIN *)
  pose proof (set_fat_exec s (lenN (fat s)) END_OF_CHAIN f ltac:(lia) Hd Hf (wf_full s Hwf f Hf)) as E1.
  set (sa := set_fat_state s (lenN (fat s)) END_OF_CHAIN f) in *.
  pose proof (set_fat_state_fields s (lenN (fat s)) END_OF_CHAIN f)
    as (Av & An & Adi & Ad & Afat & Afr & Adirs & _ & _ & Asl & Afps & Aimg).
  fold sa in Av, An, Adi, Ad, Afat, Afr, Adirs, Asl, Afps, Aimg.
  unfold fat_set in Afat. rewrite N.eqb_refl in Afat.
  assert (Afull : full sa) by (apply full_set_fat_state; [exact (wf_full s Hwf) | exact Hf]).
  assert (Aimg' : lenN (img sa) = nsect sa + 1) by (rewrite Aimg, An; exact (wf_img s Hwf)).
  (* init_sector (nsect) IZero: a new sector *)
  pose proof (Co.init_sector_append_exec sa IZero Aimg' Afull ltac:(rewrite An; exact Hpos)) as E2.
  set (sb := Co.app_sector sa (init_bytes (ver sa) IZero)) in *.
  assert (Bn : nsect sb = nsect s + 1) by (cbn [sb Co.app_sector nsect w_img w_nsect]; rewrite An; reflexivity).
  assert (Bfat : fat sb = fat s ++ [END_OF_CHAIN]) by exact Afat.
  assert (Bfull : full sb).
  { apply Co.full_app_sector; [exact Aimg' | exact Afull |]. rewrite lenN_init_bytes. reflexivity. }
  assert (Bimg : lenN (img sb) = nsect sb + 1).
  { cbn [sb Co.app_sector img nsect w_img w_nsect]. rewrite lenN_app, Aimg'. cbn [lenN]. lia. }
  assert (Bd : difat sb = difat s) by exact Ad.
  assert (Bfps : fat_per_sector sb = fat_per_sector s) by exact Afps.
  (* set_fat last (nsect s) *)
  assert (Hlast_b : last < lenN (fat sb)) by (rewrite Bfat, lenN_app; cbn [lenN]; lia).
  destruct (wf_backed s Hwf last Hlast_lt) as (f' & Hd' & Hf').
  assert (Hd'b : nthN (difat sb) (last / fat_per_sector sb) = Some f') by (rewrite Bd, Bfps; exact Hd').
  assert (Hf'b : f' < nsect sb) by (rewrite Bn; lia).
  pose proof (set_fat_exec sb last (nsect s) f' ltac:(lia) Hd'b Hf'b (Bfull f' Hf'b)) as E3.
  set (s' := set_fat_state sb last (nsect s) f') in *.
  pose proof (set_fat_state_fields sb last (nsect s) f')
    as (Ev & En & Edi & Ed & Efat & Efr & Edirs & _ & _ & Esl & Efps & Eimg).
  fold s' in Ev, En, Edi, Ed, Efat, Efr, Edirs, Esl, Efps, Eimg.
  rewrite fat_set_lt in Efat by exact Hlast_b.
  assert (Hf_in : In f (difat s)) by (eapply nthN_In; exact Hd).
  assert (Hf'_in : In f' (difat s)) by (eapply nthN_In; exact Hd').
  assert (Hnew_ids : ~ In (nsect s) ids) by (intro Hin; apply Hids_lt in Hin; lia).
  exists s'. split.
  { unfold extend_chain.
    destruct (last =? END_OF_CHAIN) eqn:E; [apply N.eqb_eq in E; contradiction|].
    rewrite bind_get. rewrite (find_last_at_end _ _ Hnx). rewrite bind_lift_ok.
    assert (Ealloc : allocate_sector IZero s = (sb, Ok (nsect s))).
    { rewrite (Co.allocate_sector_grow_unfold IZero s Hfree).
      rewrite Hlen. destruct (nsect s mod fat_per_sector s =? 0) eqn:Em; [lia|].
      rewrite bind_ret. unfold Co.alloc_tail. rewrite bind_get.
      rewrite (bind_exec _ _ _ _ _ E1). rewrite Hlen, <- An.
      rewrite (bind_exec _ _ _ _ _ E2). rewrite An. reflexivity. }
    rewrite (bind_exec _ _ _ _ _ Ealloc). rewrite (bind_exec _ _ _ _ _ E3). reflexivity. }
  split.
  { apply set_fat_state_wf; [|exact Hlast_b | exact Hf'b].
    constructor.
    - exact Bimg.
    - exact Bfull.
    - intros x Hx. change (free sb) with (free sa) in Hx. rewrite Afr, Hfree in Hx. destruct Hx.
    - intros j Hj. rewrite Bfat, lenN_app in Hj. cbn [lenN] in Hj. rewrite Bd, Bfps, Bn.
      destruct (N.eq_dec j (lenN (fat s))) as [->|Hne].
      + exists f. split; [exact Hd | lia].
      + destruct (wf_backed s Hwf j ltac:(lia)) as (g & G1 & G2). exists g. split; [exact G1 | lia]. }
  split; [rewrite Efr; change (free sb) with (free sa); rewrite Afr; exact Hfree|].
  split; [rewrite Efat, lenN_updN, Bfat, lenN_app, En, Bn, Hlen; reflexivity|].
  split; [rewrite En; exact Bn|].
  split; [rewrite Ev; exact Av|].
  split; [rewrite Ed; exact Bd|].
  split; [rewrite Edirs; exact Adirs|].
  split; [reflexivity|].
  split.
  { rewrite Efat, Bfat. rewrite Eids, <- app_assoc. cbn [app].
    apply path_extend.
    - apply (path_ext_le (fat s)); [exact Hp0 | rewrite lenN_app; lia |].
      intros x Hx. apply nthN_app_l. rewrite <- Eids in Hx. rewrite Hlen. apply Hids_lt. exact Hx.
    - exact Hlast_l.
    - intro E. apply Hnew_ids. rewrite Eids. apply in_or_app. right. left. exact E.
    - intro Hin. apply Hnew_ids. rewrite Eids. apply in_or_app. left. exact Hin.
    - rewrite nthN_app_r by lia. rewrite Hlen, N.sub_diag. reflexivity.
    - rewrite EOC_val. rewrite MAXREG_val in Hns. lia.
    - exact Hns.
    - rewrite lenN_app. cbn [lenN]. lia. }
  split.
  { intros x Hx Hxn. rewrite Efat, Bfat.
    rewrite nthN_updN_other.
    - apply nthN_app_l. lia.
    - intro E. apply Hx. rewrite Eids. apply in_or_app. right. left. exact E. }
  split.
  { intros x Hxn Hxd. unfold s'.
    rewrite sector_bytes_set_fat_state by (intro E; subst x; contradiction).
    unfold sb. rewrite Co.sector_bytes_app_old by (try exact Aimg'; rewrite An; exact Hxn).
    unfold sa. apply sector_bytes_set_fat_state. intro E. subst x. contradiction. }
  { unfold s'. rewrite sector_bytes_set_fat_state by (rewrite <- Hlen in *; lia).
    unfold sb. rewrite <- An. rewrite Co.sector_bytes_app_new by exact Aimg'. reflexivity. }
Qed.

Fixpoint seqN (a : N) (k : nat) : list N :=
  match k with O => [] | S k' => a :: seqN (a + 1) k' end.

Lemma In_seqN : forall k a x, In x (seqN a k) -> a <= x < a + N.of_nat k.
Proof.
  induction k as [|k IH]; intros a x H; [destruct H|]. cbn [seqN] in H.
  destruct H as [<-|H]; [lia|]. apply IH in H. lia.
Qed.

Lemma lenN_seqN : forall k a, lenN (seqN a k) = N.of_nat k.
Proof. induction k as [|k IH]; intro a; cbn [seqN lenN]; [reflexivity|]. rewrite IH. lia. Qed.

Lemma chain_grow_append : forall k s start ids o,
  AllocWf s -> free s = [] -> lenN (fat s) = nsect s -> ids <> [] ->
  (forall f, In f (difat s) -> f < nsect s) ->
  nsect s + N.of_nat k <= MAX_REGULAR_SECTOR + 1 ->
  (forall j, j < N.of_nat k -> (nsect s + j) mod fat_per_sector s <> 0) ->
  path (fat s) start ids ->
  exists s',
    chain_grow k (mkChain IZero ids o) s
      = (s', Ok (mkChain IZero (ids ++ seqN (nsect s) k) o)) /\
    AllocWf s' /\ free s' = [] /\ lenN (fat s') = nsect s' /\
    nsect s' = nsect s + N.of_nat k /\
    ver s' = ver s /\ difat s' = difat s /\ dirs s' = dirs s /\ dir_start s' = dir_start s /\
    path (fat s') start (ids ++ seqN (nsect s) k) /\
    (forall x, ~ In x ids -> x < nsect s -> nthN (fat s') x = nthN (fat s) x) /\
    (forall x, x < nsect s -> ~ In x (difat s) -> sector_bytes s' x = sector_bytes s x) /\
    (forall x, In x (seqN (nsect s) k) -> sector_bytes s' x = repeatN 0 (slen s)).
Proof.
  induction k as [|k IH]; intros s start ids o Hwf Hfree Hlen Hne Hdlt Hns Hmod Hp.
  - exists s. cbn [chain_grow seqN]. rewrite app_nil_r, N.add_0_r.
    csplit; try reflexivity; try assumption. intros x [].
  - destruct (exists_last Hne) as (l & last & El).
    assert (Hlast : lastN ids = Some last) by (rewrite El; apply lastN_snoc).
    destruct (extend_chain_append s start ids last Hwf Hfree Hlen ltac:(lia)
                ltac:(specialize (Hmod 0 ltac:(lia)); rewrite N.add_0_r in Hmod; exact Hmod)
                Hp Hlast)
      as (s1 & E1 & W1 & F1 & L1 & N1 & V1 & D1 & R1 & S1 & P1 & T1 & B1 & Z1).
    assert (Hsl1 : slen s1 = slen s) by (unfold slen; rewrite V1; reflexivity).
    assert (Hfps1 : fat_per_sector s1 = fat_per_sector s) by (unfold fat_per_sector; rewrite Hsl1; reflexivity).
    destruct (IH s1 start (ids ++ [nsect s]) o W1 F1 L1)
      as (s' & E' & W' & F' & L' & N' & V' & D' & R' & S' & P' & T' & B' & Z').
    + intro E. apply app_eq_nil in E. destruct E as [_ E]. discriminate.
    + intros f Hf. rewrite D1 in Hf. rewrite N1. apply Hdlt in Hf. lia.
    + rewrite N1. lia.
    + intros j Hj. rewrite N1, Hfps1. replace (nsect s + 1 + j) with (nsect s + (j + 1)) by lia.
      apply Hmod. lia.
    + exact P1.
    + exists s'. cbn [chain_grow seqN]. cbn [c_ids c_init c_off].
      rewrite Hlast. rewrite (bind_exec _ _ _ _ _ E1).
      rewrite N1 in E', P', Z'.
      rewrite <- app_assoc in E', P'. cbn [app] in E', P'.
      split; [exact E'|]. split; [exact W'|]. split; [exact F'|]. split; [exact L'|].
      split; [rewrite N', N1; lia|].
      split; [congruence|]. split; [congruence|]. split; [congruence|]. split; [congruence|].
      split; [exact P'|].
      split; [|split].
      * intros x Hx1 Hx2. rewrite T'.
        -- apply T1; assumption.
        -- intro Hin. apply in_app_or in Hin. destruct Hin as [Hin|[<-|[]]]; [contradiction|lia].
        -- rewrite N1. lia.
      * intros x Hx1 Hx2. rewrite B'.
        -- apply B1; assumption.
        -- rewrite N1. lia.
        -- rewrite D1. exact Hx2.
      * intros x [<-|Hx].
        -- rewrite B'; [exact Z1 | rewrite N1; lia |].
           rewrite D1. intro Hin. apply Hdlt in Hin. lia.
        -- rewrite Z' by exact Hx. rewrite Hsl1. reflexivity.
Qed.

(* S6, append case: the free stack is empty, the FAT has one cell per sector
   (lenN fat = nsect, as FatInv says), every FAT sector exists, and none of the
   k = ceil(new_len/slen) - lenN ids cells to append starts a new FAT sector
   (the cells nsect .. nsect+k-1 are not multiples of fat_per_sector).  Then the
   file grows by exactly k zero sectors nsect .. nsect+k-1, linked after the
   chain.  Not covered: growth that also appends a FAT (or DIFAT) sector. *)
Theorem resize_big_grow_zero_append : forall s id V ids new_len k,
  big_content s id V -> stream_ids s id ids -> StoreWf s ->
  free s = [] -> lenN (fat s) = nsect s ->
  (forall f, In f (difat s) -> f < nsect s) ->
  slen s * lenN ids < new_len ->
  lenN ids + N.of_nat k = (slen s + new_len - 1) / slen s ->
  nsect s + N.of_nat k <= MAX_REGULAR_SECTOR + 1 ->
  (forall j, j < N.of_nat k -> (nsect s + j) mod fat_per_sector s <> 0) ->
  new_len <= MAX_REGULAR_SECTOR * slen s ->
  new_len <= stream_len_mask (ver s) ->
  exists s',
    resize id new_len s = (s', Ok tt) /\
    big_content s' id (V ++ repeatN 0 (new_len - lenN V)) /\
    stream_ids s' id (ids ++ seqN (nsect s) k) /\
    free s' = [] /\ nsect s' = nsect s + N.of_nat k /\ lenN (fat s') = nsect s' /\ AllocWf s' /\
    (forall id' V' ids', id' <> id -> big_content s id' V' -> stream_ids s id' ids' ->
       disjoint ids ids' -> big_content s' id' V' /\ stream_ids s' id' ids').
Proof.
  intros s id V ids new_len k HB Hsi Hwf Hfree Hlen Hdlt Hgt Hcount Hbound Hmod Hmax Hmask.
  pose proof (slen_pos s) as Hsp.
  pose proof Hsi as (e0 & He0 & _ & Hc0).
  pose proof HB as (e & ids' & He & Ht & Hcut & Hc & Hg & Hle & HV).
  rewrite He in He0. injection He0 as <-. rewrite Hc in Hc0. injection Hc0 as ->.
  pose proof (big_content_len _ _ _ _ HB He) as HlV.
  pose proof (good_chain_len _ _ Hg) as HCL.
  assert (Hnl : MINI_STREAM_CUTOFF <= new_len) by lia.
  assert (Hnl0 : 0 < new_len) by (rewrite CUTOFF_val in Hnl; lia).
  destruct (ceil_props (slen s) new_len Hsp Hnl0) as [Hc1 Hc2].
  rewrite <- Hcount in Hc1, Hc2.
  pose proof (ids_nonempty s ids _ Hcut Hle) as Hne.
  destruct (chain_ids_head _ _ _ Hc Hne) as (Hst & t & Eids).
  pose proof (WalkProofs.chain_ids_path _ _ _ Hc) as Hp.
  pose proof (path_nodup _ _ _ Hp) as Hnd.
  assert (HF : Forall (fun x => x < nsect s) ids).
  { destruct Hg as (_ & HF & _). eapply Forall_impl; [|exact HF]. cbv beta. tauto. }
  assert (Hbig : big_ids s id ids) by (exists e; csplit; assumption).
  destruct (sw_dir s Hwf) as (dids & Hd & Hgd & Hroom).
  pose proof (sw_dir_disj s Hwf id ids dids Hbig Hd) as Hdisj.
  pose proof (sw_alloc s Hwf) as Wa.
  set (nw := seqN (nsect s) k) in *.
  assert (Hnw_ge : forall x, In x nw -> nsect s <= x < nsect s + N.of_nat k).
  { intros x Hx. apply In_seqN. exact Hx. }
  assert (Hlnw : lenN nw = N.of_nat k) by apply lenN_seqN.
  assert (Hov : slen s + new_len < two64).
  { pose proof (good_chain_count _ _ Hg) as B1. rewrite MAXREG_val in Hbound.
    destruct (slen_cases s) as [Es|Es]; rewrite Es in *; rewrite two64_val; nia. }
  (* Chain::set_len *)
  destruct (chain_grow_append k s (d_start e) ids 0 Wa Hfree Hlen Hne Hdlt Hbound Hmod Hp)
    as (s1 & Hgrow & W1 & F1 & L1 & N1 & V1 & D1 & R1 & S1 & P1 & T1 & B1 & Z1).
  fold nw in Hgrow, P1, Z1.
  assert (Hsl1 : slen s1 = slen s) by (unfold slen; rewrite V1; reflexivity).
  assert (HFall : Forall (fun x => x < nsect s1) (ids ++ nw)).
  { apply Forall_app. split.
    - eapply Forall_impl; [|exact HF]. cbv beta. intros a Ha. rewrite N1. lia.
    - rewrite Forall_forall. intros x Hx. apply Hnw_ge in Hx. rewrite N1. lia. }
  assert (Hg1 : good_chain s1 (ids ++ nw)).
  { apply good_chain_of_wf; [exact W1 | eapply path_nodup; exact P1 | exact HFall]. }
  assert (Hids_lt : forall x, In x ids -> x < nsect s) by (rewrite Forall_forall in HF; exact HF).
  assert (Hids_difat : forall x, In x ids -> ~ In x (difat s)).
  { intros x Hx Hin. destruct (sw_difat_disj s Hwf x Hin) as [D _]. exact (D id ids Hbig Hx). }
  assert (Hcont1 : chain_content s1 (ids ++ nw)
                   = chain_content s ids ++ repeatN 0 (slen s * lenN nw)).
  { rewrite chain_content_app. f_equal.
    - apply chain_content_ext. intros x Hx. apply B1; [apply Hids_lt | apply Hids_difat]; exact Hx.
    - apply zeros_content. exact Z1. }
  (* zero fill of the tail of the old last sector *)
  destruct (zero_fill_chain_spec s1 (mkChain IZero (ids ++ nw) 0) (d_len e) (slen s * lenN ids) Hg1)
    as (s2 & c2 & Hz & Hids2 & Hcont2 & Hg2 & Hsh2 & Hd2 & Hfr2).
  { unfold chain_len. cbn [c_ids]. rewrite Hsl1, lenN_app. nia. }
  cbn [c_ids] in *.
  pose proof (same_shape_slen _ _ Hsh2) as Hsl2.
  pose proof Hsh2 as (Sn & Sv & Si & Sl & Sfat & Sfree & Sdifat & Sds & _).
  pose proof (AllocWf_shape _ _ W1 Hsh2) as W2.
  assert (Hch2 : chain_ids_of (fat s2) (d_start e) = Ok (ids ++ nw)).
  { rewrite Sfat. apply WalkProofs.chain_ids_of_path; [exact P1 | eapply path_nodup; exact P1]. }
  assert (Hdids_lt : forall x, In x dids -> x < nsect s).
  { destruct Hgd as (_ & HFd & _). rewrite Forall_forall in HFd. intros x Hx. apply HFd. exact Hx. }
  assert (Hdids_nw : forall x, In x dids -> ~ In x nw).
  { intros x Hx Hin. apply Hdids_lt in Hx. apply Hnw_ge in Hin. lia. }
  assert (Hfl1 : lenN (fat s) <= lenN (fat s1)) by (rewrite L1, N1, Hlen; lia).
  assert (Hdir2 : dir_ids s2 dids).
  { unfold dir_ids in *. rewrite Sfat, Sds, S1.
    pose proof (WalkProofs.chain_ids_path _ _ _ Hd) as Hpd.
    apply WalkProofs.chain_ids_of_path; [|eapply path_nodup; exact Hpd].
    apply (path_ext_le (fat s)); [exact Hpd | exact Hfl1 |].
    intros x Hx. apply T1; [intro Hin; exact (Hdisj x Hin Hx) | apply Hdids_lt; exact Hx]. }
  assert (Hgd2 : good_chain s2 dids).
  { destruct Hgd as (Hndd & HFd & _). apply good_chain_of_wf; [exact W2 | exact Hndd |].
    eapply Forall_impl; [|exact HFd]. cbv beta. intros a [Ha _]. rewrite Sn, N1. lia. }
  destruct (finish_gen s2 id e (ids ++ nw) dids new_len)
    as (s' & Hu & HB' & Hsi' & Hsh' & Hdirs' & Hfr'); try assumption.
  { rewrite Hd2, R1. exact He. }
  { eapply sw_names; eassumption. }
  { rewrite Hd2, R1, Hsl2, Hsl1. exact Hroom. }
  { intros x Hx Hin. apply in_app_or in Hx. destruct Hx as [Hx|Hx].
    - exact (Hdisj x Hx Hin).
    - exact (Hdids_nw x Hin Hx). }
  { rewrite Hsl2, Hsl1, lenN_app, Hlnw. exact Hc1. }
  pose proof Hsh' as (Zn & Zv & Zi & Zl & Zfat & Zfree & Zdifat & Zds & _).
  pose proof (AllocWf_shape _ _ W2 Hsh') as W'.
  exists s'.
  split; [|split; [|split; [exact Hsi'|split; [|split; [|split; [|split; [exact W'|]]]]]]].
  - unfold resize.
    rewrite (bind_exec _ _ _ _ _ (stream_entry_exec s id e He Ht)).
    cbv beta iota zeta.
    rewrite (bind_exec _ _ _ _ _ (eq_refl : get s = (s, Ok s))). cbv beta iota zeta.
    replace (MAX_REGULAR_SECTOR * slen s <? new_len) with false by (symmetry; apply N.ltb_ge; exact Hmax).
    rewrite (bind_exec _ _ _ _ _ (eq_refl : ret tt s = (s, Ok tt))).
    rewrite (mask_check_false s new_len Hmask).
    rewrite (bind_exec _ _ _ _ _ (eq_refl : ret tt s = (s, Ok tt))).
    match goal with |- bind ?m _ s = _ => assert (E : m s = (s2, Ok (d_start e))) end.
    { destruct (d_start e =? END_OF_CHAIN) eqn:E2; [apply N.eqb_eq in E2; contradiction|].
      destruct (d_len e <? MINI_STREAM_CUTOFF) eqn:E3; [lia|].
      destruct (new_len =? 0) eqn:E4; [lia|].
      destruct (new_len <? MINI_STREAM_CUTOFF) eqn:E5; [lia|].
      rewrite (bind_exec _ _ _ _ _ (chain_new_exec s (d_start e) IZero ids Hc)).
      rewrite bind_get.
      assert (Hset : chain_set_len (mkChain IZero ids 0) new_len s
                     = (s1, Ok (mkChain IZero (ids ++ nw) 0))).
      { rewrite chain_set_len_grow by (cbn [c_ids]; lia). cbn [c_ids].
        rewrite <- Hcount.
        replace (N.to_nat (lenN ids + N.of_nat k - lenN ids)) with k by lia.
        exact Hgrow. }
      rewrite (bind_exec _ _ _ _ _ Hset).
      unfold chain_len at 1. cbn [c_ids].
      replace (N.min new_len (slen s * lenN ids)) with (slen s * lenN ids) by lia.
      rewrite (bind_exec _ _ _ _ _ Hz).
      unfold chain_start. rewrite Hids2, Eids. cbn [app]. rewrite N.eqb_refl. reflexivity. }
    rewrite (bind_exec _ _ _ _ _ E). exact Hu.
  - rewrite Hcont2, Hcont1 in HB'. rewrite <- HCL in HB'.
    rewrite (grow_content _ V _ _ HV) in HB' by blia.
    rewrite takeN_app_ge in HB' by blia.
    rewrite takeN_repeatN in HB' by (rewrite HCL, Hlnw; blia).
    exact HB'.
  - rewrite Zfree, Sfree. exact F1.
  - rewrite Zn, Sn. exact N1.
  - rewrite Zfat, Sfat, Zn, Sn. exact L1.
  - intros id' V' ids2 Hneq HB2 Hsi2 Hdj.
    assert (Hbig2 : big_ids s id' ids2).
    { destruct HB2 as (e2 & l2 & A1 & A2 & A3 & A4 & _). destruct Hsi2 as (e3 & A5 & _ & A6).
      rewrite A1 in A5. injection A5 as <-. rewrite A4 in A6. injection A6 as <-.
      exists e2. csplit; assumption. }
    pose proof (sw_dir_disj s Hwf id' ids2 dids Hbig2 Hd) as Hdisj2.
    assert (Hids2_lt : forall x, In x ids2 -> x < nsect s).
    { destruct HB2 as (e2 & l2 & A1 & _ & _ & A4 & (_ & A5 & _) & _).
      destruct Hsi2 as (e3 & A6 & _ & A7). rewrite A1 in A6. injection A6 as <-.
      rewrite A4 in A7. injection A7 as <-. rewrite Forall_forall in A5.
      intros x Hx. apply A5. exact Hx. }
    assert (Hids2_nw : forall x, In x ids2 -> ~ In x nw).
    { intros x Hx Hin. apply Hids2_lt in Hx. apply Hnw_ge in Hin. lia. }
    apply (other_stream_frame s s' id' V' ids2 HB2 Hsi2).
    + rewrite Hdirs', nthN_updN_other by lia. rewrite Hd2, R1. reflexivity.
    + rewrite Zfat, Sfat. exact Hfl1.
    + intros x Hx. rewrite Zfat, Sfat.
      apply T1; [intro Hin; exact (Hdj x Hin Hx) | apply Hids2_lt; exact Hx].
    + intros x Hx. rewrite Hfr' by (apply Hdisj2; exact Hx).
      rewrite Hfr2.
      * apply B1; [apply Hids2_lt; exact Hx|].
        intro Hin. destruct (sw_difat_disj s Hwf x Hin) as [D _]. exact (D id' ids2 Hbig2 Hx).
      * intro Hin. apply in_app_or in Hin. destruct Hin as [Hin|Hin].
        -- exact (Hdj x Hin Hx).
        -- exact (Hids2_nw x Hx Hin).
    + exact W'.
    + rewrite Zn, Sn, N1. lia.
    + rewrite (same_shape_slen _ _ Hsh'), Hsl2. exact Hsl1.
Qed.

(* the same from the allocator invariant of CoherenceProofs *)
Corollary resize_big_grow_zero_append_FatInv : forall s id V ids new_len k,
  big_content s id V -> stream_ids s id ids -> StoreWf s ->
  free s = [] -> Co.FatInv s ->
  slen s * lenN ids < new_len ->
  lenN ids + N.of_nat k = (slen s + new_len - 1) / slen s ->
  nsect s + N.of_nat k <= MAX_REGULAR_SECTOR + 1 ->
  (forall j, j < N.of_nat k -> (nsect s + j) mod fat_per_sector s <> 0) ->
  new_len <= MAX_REGULAR_SECTOR * slen s ->
  new_len <= stream_len_mask (ver s) ->
  exists s',
    resize id new_len s = (s', Ok tt) /\
    big_content s' id (V ++ repeatN 0 (new_len - lenN V)) /\
    stream_ids s' id (ids ++ seqN (nsect s) k) /\
    free s' = [] /\ nsect s' = nsect s + N.of_nat k.
Proof.
  intros s id V ids new_len k HB Hsi Hwf Hfree Hinv Hgt Hcount Hbound Hmod Hmax Hmask.
  destruct (resize_big_grow_zero_append s id V ids new_len k HB Hsi Hwf Hfree
              (Co.fi_len s Hinv) (Co.co_lt s (Co.fi_core s Hinv)) Hgt Hcount Hbound Hmod Hmax Hmask)
    as (s' & H1 & H2 & H3 & H4 & H5 & _).
  exists s'. csplit; assumption.
Qed.

(* ================================================================== *)
(* StoreWf after sectors were released; S7 for any cut point            *)
(* ================================================================== *)

(* every large stream has a chain, and large streams do not share sectors *)
Definition streams_ok (s : cstate) : Prop :=
  (forall id e, nthN (dirs s) id = Some e -> d_type e = TStream ->
     MINI_STREAM_CUTOFF <= d_len e -> exists ids, chain_ids_of (fat s) (d_start e) = Ok ids) /\
  (forall id id' ids ids', id <> id' -> big_ids s id ids -> big_ids s id' ids' -> disjoint ids ids').

Lemma big_ids_fun : forall s id l1 l2, big_ids s id l1 -> big_ids s id l2 -> l1 = l2.
Proof.
  intros s id l1 l2 (e1 & A1 & _ & _ & A2) (e2 & B1 & _ & _ & B2).
  rewrite A1 in B1. injection B1 as <-. rewrite A2 in B2. injection B2 as <-. reflexivity.
Qed.

Lemma chain_frame : forall s s' id ids new_len start l,
  fat_frame s s' id ids new_len ->
  chain_ids_of (fat s) start = Ok l -> (forall x, In x l -> ~ In x ids) ->
  chain_ids_of (fat s') start = Ok l.
Proof.
  intros s s' id ids new_len start l (_ & _ & _ & Hle & Hfr & _) Hc Hd.
  pose proof (WalkProofs.chain_ids_path _ _ _ Hc) as Hp.
  apply WalkProofs.chain_ids_of_path; [|eapply path_nodup; exact Hp].
  apply (path_ext_le (fat s)); [exact Hp | exact Hle |].
  pose proof (WalkProofs.path_lt _ _ _ Hp) as HF. rewrite Forall_forall in HF.
  intros x Hx. apply Hfr; [apply Hd; exact Hx | apply HF; exact Hx].
Qed.

Lemma big_ids_other_after : forall s s' id ids new_len id2 l,
  streams_ok s -> big_ids s id ids -> fat_frame s s' id ids new_len ->
  id2 <> id -> big_ids s id2 l -> big_ids s' id2 l.
Proof.
  intros s s' id ids new_len id2 l [_ Hsd] Hbig Hff Hne Hb2.
  pose proof Hb2 as (e2 & B1 & B2 & B3 & B4).
  pose proof Hbig as (e & A1 & _).
  pose proof Hff as (_ & _ & _ & _ & _ & Hdirs). specialize (Hdirs e A1).
  exists e2. csplit; try assumption.
  - rewrite Hdirs, nthN_updN_other by lia. exact B1.
  - eapply chain_frame; [exact Hff | exact B4 |].
    intros x Hx Hin. exact (Hsd id id2 ids l ltac:(lia) Hbig Hb2 x Hin Hx).
Qed.

Lemma big_ids_after : forall s s' id ids new_len kept,
  streams_ok s -> big_ids s id ids -> fat_frame s s' id ids new_len ->
  stream_ids s' id kept ->
  forall id2 l2, big_ids s' id2 l2 ->
    (id2 = id /\ l2 = kept) \/ (id2 <> id /\ big_ids s id2 l2).
Proof.
  intros s s' id ids new_len kept Hok Hbig Hff Hsi' id2 l2 Hb2.
  pose proof Hb2 as (e2 & B1 & B2 & B3 & B4).
  pose proof Hbig as (e & A1 & _).
  pose proof Hff as (_ & _ & _ & _ & _ & Hdirs). specialize (Hdirs e A1).
  destruct (N.eq_dec id2 id) as [->|Hne].
  - left. split; [reflexivity|]. destruct Hsi' as (e3 & C1 & _ & C2).
    rewrite B1 in C1. injection C1 as <-. rewrite B4 in C2. injection C2 as <-. reflexivity.
  - right. split; [exact Hne|].
    rewrite Hdirs, nthN_updN_other in B1 by lia.
    destruct Hok as [Hex Hsd]. destruct (Hex id2 e2 B1 B2 B3) as (l & Hl).
    assert (Hb : big_ids s id2 l) by (exists e2; csplit; assumption).
    pose proof (big_ids_other_after s s' id ids new_len id2 l (conj Hex Hsd) Hbig Hff Hne Hb) as Hb'.
    rewrite (big_ids_fun _ _ _ _ Hb2 Hb'). exact Hb.
Qed.

Lemma NoDup_app_intro : forall (a b : list N),
  NoDup a -> NoDup b -> (forall x, In x a -> ~ In x b) -> NoDup (a ++ b).
Proof.
  intros a b Ha Hb Hd. induction a as [|x a IH]; [exact Hb|]. cbn [app].
  inversion Ha as [|? ? Hx Ha']; subst. constructor.
  - intro Hin. apply in_app_or in Hin. destruct Hin as [Hin|Hin]; [contradiction|].
    exact (Hd x (or_introl eq_refl) Hin).
  - apply IH; [exact Ha'|]. intros y Hy. apply Hd. right. exact Hy.
Qed.

Lemma StoreWf_after_release : forall s s' id ids kept freed new_len,
  StoreWf s -> streams_ok s -> big_ids s id ids ->
  fat_frame s s' id ids new_len -> MINI_STREAM_CUTOFF <= new_len ->
  AllocWf s' -> nsect s' = nsect s ->
  stream_ids s' id kept -> (forall x, In x kept -> In x ids) ->
  free s' = free s ++ freed -> (forall x, In x freed -> In x ids) -> NoDup freed ->
  (forall x, In x kept -> ~ In x freed) ->
  StoreWf s' /\ streams_ok s'.
Proof.
  intros s s' id ids kept freed new_len Hwf Hok Hbig Hff Hnl Wa' Hn Hsi' Hkept Hfree Hfreed Hndf Hkf.
  pose proof Hwf as [Wa Wn Wd Wnm Wdd Wfn Wfd Wdf].
  pose proof Hff as (Fv & Fdifat & Fds & Fle & Ffr & Fdirs).
  pose proof Hbig as (e & He & Ht & Hcut & Hc).
  specialize (Fdirs e He).
  assert (Hsl : slen s' = slen s) by (unfold slen; rewrite Fv; reflexivity).
  destruct Wd as (dids & D1 & D2 & D3).
  pose proof (Wdd id ids dids Hbig D1) as Hdisj.
  assert (Hdir' : dir_ids s' dids).
  { unfold dir_ids in *. rewrite Fds. eapply chain_frame; [exact Hff | exact D1 |].
    intros x Hx Hin. exact (Hdisj x Hin Hx). }
  assert (Hdirfun : forall l, dir_ids s' l -> l = dids).
  { intros l Hl. unfold dir_ids in *. rewrite Hdir' in Hl. injection Hl as <-. reflexivity. }
  pose proof (big_ids_after s s' id ids new_len kept Hok Hbig Hff Hsi') as Hchar.
  assert (Hids_difat : forall x, In x ids -> ~ In x (difat s)).
  { intros x Hx Hin. destruct (Wdf x Hin) as [D _]. exact (D id ids Hbig Hx). }
  destruct Hok as [Hex Hsd].
  split.
  - constructor.
    + exact Wa'.
    + rewrite Hn. exact Wn.
    + exists dids. split; [exact Hdir'|]. split.
      * destruct D2 as (Hndd & HFd & _). apply good_chain_of_wf; [exact Wa' | exact Hndd |].
        eapply Forall_impl; [|exact HFd]. cbv beta. intros a [Ha _]. rewrite Hn. exact Ha.
      * rewrite Fdirs, lenN_updN, Hsl. exact D3.
    + intros i e2 He2. rewrite Fdirs in He2. destruct (N.eq_dec i id) as [->|Hne].
      * rewrite nthN_updN_same in He2 by (eapply nthN_Some_lt; exact He).
        injection He2 as <-. cbn [set_start_len d_name]. eapply Wnm. exact He.
      * rewrite nthN_updN_other in He2 by lia. eapply Wnm. exact He2.
    + intros i l dl Hb Hdl. rewrite (Hdirfun dl Hdl).
      destruct (Hchar i l Hb) as [[-> ->]|[Hne Hb0]].
      * intros x Hx. apply Hdisj. apply Hkept. exact Hx.
      * exact (Wdd i l dids Hb0 D1).
    + rewrite Hfree. apply NoDup_app_intro; [exact Wfn | exact Hndf |].
      intros x Hx Hin. destruct (Wfd x Hx) as (F1 & _). exact (F1 id ids Hbig (Hfreed x Hin)).
    + intros x Hx. rewrite Hfree in Hx. apply in_app_or in Hx. destruct Hx as [Hx|Hx].
      * destruct (Wfd x Hx) as (F1 & F2 & F3). split; [|split].
        -- intros i l Hb. destruct (Hchar i l Hb) as [[-> ->]|[Hne Hb0]].
           ++ intro Hin. exact (F1 id ids Hbig (Hkept x Hin)).
           ++ exact (F1 i l Hb0).
        -- intros dl Hdl. rewrite (Hdirfun dl Hdl). exact (F2 dids D1).
        -- rewrite Fdifat. exact F3.
      * pose proof (Hfreed x Hx) as Hxi. split; [|split].
        -- intros i l Hb. destruct (Hchar i l Hb) as [[-> ->]|[Hne Hb0]].
           ++ intro Hin. exact (Hkf x Hin Hx).
           ++ intro Hin. exact (Hsd id i ids l ltac:(lia) Hbig Hb0 x Hxi Hin).
        -- intros dl Hdl. rewrite (Hdirfun dl Hdl). exact (Hdisj x Hxi).
        -- rewrite Fdifat. apply Hids_difat. exact Hxi.
    + intros f Hf. rewrite Fdifat in Hf. destruct (Wdf f Hf) as (F1 & F2). split.
      * intros i l Hb. destruct (Hchar i l Hb) as [[-> ->]|[Hne Hb0]].
        -- intro Hin. exact (F1 id ids Hbig (Hkept f Hin)).
        -- exact (F1 i l Hb0).
      * intros dl Hdl. rewrite (Hdirfun dl Hdl). exact (F2 dids D1).
  - split.
    + intros i e2 He2 Ht2 Hc2. destruct (N.eq_dec i id) as [->|Hne].
      * destruct Hsi' as (e3 & C1 & _ & C2). rewrite He2 in C1. injection C1 as <-.
        exists kept. exact C2.
      * rewrite Fdirs, nthN_updN_other in He2 by lia.
        destruct (Hex i e2 He2 Ht2 Hc2) as (l & Hl).
        assert (Hb : big_ids s i l) by (exists e2; csplit; assumption).
        destruct (big_ids_other_after s s' id ids new_len i l (conj Hex Hsd) Hbig Hff Hne Hb)
          as (e3 & C1 & _ & _ & C2).
        rewrite Fdirs, nthN_updN_other in C1 by lia. rewrite He2 in C1. injection C1 as <-.
        exists l. exact C2.
    + intros i j li lj Hij Hbi Hbj.
      destruct (Hchar i li Hbi) as [[-> ->]|[Hni Hbi0]];
      destruct (Hchar j lj Hbj) as [[-> ->]|[Hnj Hbj0]].
      * contradiction.
      * intros x Hx. exact (Hsd id j ids lj ltac:(lia) Hbig Hbj0 x (Hkept x Hx)).
      * intros x Hx Hin. exact (Hsd id i ids li ltac:(lia) Hbig Hbi0 x (Hkept x Hin) Hx).
      * exact (Hsd i j li lj Hij Hbi0 Hbj0).
Qed.

Lemma NoDup_app_disj : forall (a b : list N), NoDup (a ++ b) -> forall x, In x a -> ~ In x b.
Proof.
  intros a b H. induction a as [|y a IH]; intros x Hx; [destruct Hx|]. cbn [app] in H.
  inversion H as [|? ? Hy H']; subst. destruct Hx as [<-|Hx].
  - intro Hin. apply Hy. apply in_or_app. right. exact Hin.
  - apply IH; assumption.
Qed.

Lemma In_dropN : forall A (l : list A) n x, In x (dropN n l) -> In x l.
Proof.
  intros A l n x H. rewrite <- (takeN_dropN_id _ l n). apply in_or_app. right. exact H.
Qed.

(* S7 for any cut point m >= 4096, on a stream whose chain has exactly the
   sectors it needs: the truncation releases sectors, the growth takes them
   back from the free stack (last released first) and every regained byte is
   zero, in the kept last sector as well as in the recycled ones *)
Theorem shrink_then_grow_zero_general : forall s id V ids m,
  big_content s id V -> stream_ids s id ids -> StoreWf s -> streams_ok s ->
  slen s * lenN ids < lenN V + slen s ->
  MINI_STREAM_CUTOFF <= m -> m < lenN V ->
  lenN V <= MAX_REGULAR_SECTOR * slen s ->
  lenN V <= stream_len_mask (ver s) ->
  exists s1 s2,
    resize id m s = (s1, Ok tt) /\
    resize id (lenN V) s1 = (s2, Ok tt) /\
    big_content s1 id (takeN m V) /\
    big_content s2 id (takeN m V ++ repeatN 0 (lenN V - m)) /\
    stream_ids s2 id (takeN ((slen s + m - 1) / slen s) ids
                      ++ rev (dropN ((slen s + m - 1) / slen s) ids)) /\
    free s2 = free s.
Proof.
  intros s id V ids m HB Hsi Hwf Hok Htight Hm Hlt Hmax Hmask.
  pose proof (slen_pos s) as Hsp.
  pose proof HB as (e & ids' & He & Ht & Hcut & Hc & Hg & Hle & HV).
  pose proof Hsi as (e0 & He0 & _ & Hc0).
  rewrite He in He0. injection He0 as <-. rewrite Hc in Hc0. injection Hc0 as ->.
  pose proof (big_content_len _ _ _ _ HB He) as HlV.
  assert (Hm0 : 0 < m) by (rewrite CUTOFF_val in Hm; lia).
  destruct (ceil_props (slen s) m Hsp Hm0) as [Hc1 Hc2].
  set (n' := (slen s + m - 1) / slen s) in *.
  assert (Hn'le : n' <= lenN ids) by (unfold byte in *; nia).
  destruct (N.eq_dec n' (lenN ids)) as [Heq|Hneq].
  { destruct (shrink_then_grow_zero s id V ids m HB Hsi Hwf Hm Hlt ltac:(unfold byte in *; nia) Hmax Hmask)
      as (s1 & s2 & R1 & R2 & B1 & B2 & S2 & F2 & _).
    exists s1, s2. rewrite Heq, (takeN_all _ ids), (dropN_all _ ids) by lia.
    cbn [rev]. rewrite app_nil_r. csplit; assumption. }
  assert (Hn'lt : n' < lenN ids) by lia.
  assert (Hbig : big_ids s id ids) by (exists e; csplit; assumption).
  pose proof (path_nodup _ _ _ (WalkProofs.chain_ids_path _ _ _ Hc)) as Hnd.
  destruct (resize_big_release s id V ids m HB Hsi Hwf Hm Hn'lt ltac:(lia) ltac:(lia))
    as (s1 & R1 & HB1 & Hsi1 & Hf1 & Hn1 & Wa1 & _ & Hff).
  fold n' in Hsi1, Hf1.
  replace (m - lenN V) with 0 in HB1 by blia.
  change (repeatN 0 0) with (@nil N) in HB1. rewrite app_nil_r in HB1.
  set (kept := takeN n' ids) in *. set (freed := dropN n' ids) in *.
  assert (Esplit : ids = kept ++ freed) by (symmetry; apply takeN_dropN_id).
  rewrite Esplit in Hnd.
  destruct (StoreWf_after_release s s1 id ids kept freed m Hwf Hok Hbig Hff Hm Wa1 Hn1 Hsi1)
    as [Hwf1 _].
  { intros x Hx. eapply In_takeN. exact Hx. }
  { exact Hf1. }
  { intros x Hx. eapply In_dropN. exact Hx. }
  { eapply NoDup_app_r. exact Hnd. }
  { apply NoDup_app_disj. exact Hnd. }
  assert (Hsl1 : slen s1 = slen s).
  { destruct Hff as (Fv & _). unfold slen. rewrite Fv. reflexivity. }
  assert (Hlk : lenN kept = n') by (unfold kept; rewrite lenN_takeN; lia).
  assert (Hlf : lenN freed = lenN ids - n') by (unfold freed; apply lenN_dropN).
  assert (Hl1 : lenN (takeN m V) = m) by (rewrite lenN_takeN; blia).
  destruct (resize_big_grow_zero_new_sectors s1 id (takeN m V) kept (lenN V) (free s) (rev freed)
              HB1 Hsi1 Hwf1)
    as (s2 & R2 & HB2 & Hsi2 & Hf2 & _).
  { rewrite Hsl1, Hlk. unfold byte in *. nia. }
  { rewrite rev_involutive. exact Hf1. }
  { rewrite Hsl1, Hlk, WalkProofs.lenN_rev, Hlf.
    replace (n' + (lenN ids - n')) with (lenN ids) by lia.
    apply (N.div_unique _ _ _ (slen s + lenN V - 1 - slen s * lenN ids)); blia. }
  { rewrite Hsl1. exact Hmax. }
  { destruct Hff as (Fv & _). rewrite Fv. exact Hmask. }
  rewrite Hl1 in HB2.
  exists s1, s2. csplit; assumption.
Qed.

(* ================================================================== *)
(* StoreWf is decidable on concrete states; examples                    *)
(* ================================================================== *)

Definition disjoint_b (a b : list N) : bool := forallb (fun x => negb (memN x b)) a.

Fixpoint nodup_b (l : list N) : bool :=
  match l with [] => true | x :: t => negb (memN x t) && nodup_b t end.

Definition is_big (e : dirent) : bool :=
  objtype_eqb (d_type e) TStream && (MINI_STREAM_CUTOFF <=? d_len e).

Definition storewf_b (s : cstate) : bool :=
  alloc_wf_b s && (nsect s <=? MAX_REGULAR_SECTOR + 1) &&
  match chain_ids_of (fat s) (dir_start s) with
  | Ok dids =>
    nodup_b dids && forallb (fun x => x <? nsect s) dids &&
    (DIR_ENTRY_LEN * lenN (dirs s) <=? slen s * lenN dids) &&
    forallb (fun e => lenN (utf16 (d_name e)) <=? MAX_NAME_LEN) (dirs s) &&
    nodup_b (free s) &&
    forallb (fun e => if is_big e then
                        match chain_ids_of (fat s) (d_start e) with
                        | Ok ids => disjoint_b ids dids && disjoint_b (free s) ids &&
                                    disjoint_b (difat s) ids
                        | _ => true
                        end
                      else true) (dirs s) &&
    disjoint_b (free s) dids && disjoint_b (free s) (difat s) && disjoint_b (difat s) dids
  | _ => false
  end.

Lemma disjoint_b_sound : forall a b, disjoint_b a b = true -> forall x, In x a -> ~ In x b.
Proof.
  intros a b H x Hx. unfold disjoint_b in H. rewrite forallb_forall in H.
  specialize (H x Hx). apply negb_true_iff in H. apply WalkProofs.memN_false. exact H.
Qed.

Lemma nodup_b_sound : forall l, nodup_b l = true -> NoDup l.
Proof.
  induction l as [|x t IH]; intro H; [constructor|]. cbn [nodup_b] in H.
  apply andb_true_iff in H. destruct H as [H1 H2]. apply negb_true_iff in H1.
  constructor; [apply WalkProofs.memN_false; exact H1 | apply IH; exact H2].
Qed.

Lemma storewf_b_sound : forall s, storewf_b s = true -> StoreWf s.
Proof.
  intros s H. unfold storewf_b in H.
  apply andb_true_iff in H. destruct H as [H Hrest].
  apply andb_true_iff in H. destruct H as [Ha Hn].
  apply alloc_wf_b_sound in Ha. apply N.leb_le in Hn.
  destruct (chain_ids_of (fat s) (dir_start s)) as [dids| | |] eqn:Hd; try discriminate.
  repeat (apply andb_true_iff in Hrest; destruct Hrest as [Hrest ?H]).
  rename Hrest into C1, H into C9, H0 into C8, H1 into C7, H2 into C6, H3 into C5,
         H4 into C4, H5 into C3, H6 into C2.
  apply nodup_b_sound in C1, C5. rewrite forallb_forall in C2, C4, C6. apply N.leb_le in C3.
  assert (Hbig : forall id ids, big_ids s id ids ->
            disjoint_b ids dids = true /\ disjoint_b (free s) ids = true /\
            disjoint_b (difat s) ids = true).
  { intros id ids (e & He & Ht & Hc & Hch). specialize (C6 e (nthN_In _ _ _ _ He)).
    unfold is_big in C6. rewrite Ht in C6. cbn [objtype_eqb andb] in C6.
    destruct (MINI_STREAM_CUTOFF <=? d_len e) eqn:E; [|lia].
    rewrite Hch in C6. apply andb_true_iff in C6. destruct C6 as [C6 X3].
    apply andb_true_iff in C6. destruct C6 as [X1 X2]. auto. }
  assert (Hdir : forall l, dir_ids s l -> l = dids).
  { intros l Hl. unfold dir_ids in Hl. rewrite Hd in Hl. injection Hl as <-. reflexivity. }
  constructor.
  - exact Ha.
  - exact Hn.
  - exists dids. split; [exact Hd|]. split; [|exact C3].
    apply good_chain_of_wf; [exact Ha | exact C1 |].
    rewrite Forall_forall. intros x Hx. apply N.ltb_lt. apply C2. exact Hx.
  - intros id e He. apply N.leb_le. apply C4. eapply nthN_In. exact He.
  - intros id ids l Hb Hl. rewrite (Hdir l Hl). destruct (Hbig id ids Hb) as (X1 & _).
    exact (disjoint_b_sound _ _ X1).
  - exact C5.
  - intros x Hx. split; [|split].
    + intros id ids Hb. destruct (Hbig id ids Hb) as (_ & X2 & _).
      exact (disjoint_b_sound _ _ X2 x Hx).
    + intros l Hl. rewrite (Hdir l Hl). exact (disjoint_b_sound _ _ C7 x Hx).
    + exact (disjoint_b_sound _ _ C8 x Hx).
  - intros f Hf. split.
    + intros id ids Hb. destruct (Hbig id ids Hb) as (_ & _ & X3).
      exact (disjoint_b_sound _ _ X3 f Hf).
    + intros l Hl. rewrite (Hdir l Hl). exact (disjoint_b_sound _ _ C9 f Hf).
Qed.

Definition streams_ok_b (s : cstate) : bool :=
  forallb (fun e => if is_big e then
                      match chain_ids_of (fat s) (d_start e) with Ok _ => true | _ => false end
                    else true) (dirs s) &&
  forallb (fun i => forallb (fun j =>
    if i =? j then true else
    match nthN (dirs s) i, nthN (dirs s) j with
    | Some ei, Some ej =>
      if is_big ei && is_big ej then
        match chain_ids_of (fat s) (d_start ei), chain_ids_of (fat s) (d_start ej) with
        | Ok li, Ok lj => disjoint_b li lj
        | _, _ => true
        end
      else true
    | _, _ => true
    end) (rangeN (lenN (dirs s)))) (rangeN (lenN (dirs s))).

Lemma is_big_true : forall e, d_type e = TStream -> MINI_STREAM_CUTOFF <= d_len e -> is_big e = true.
Proof.
  intros e Ht Hc. unfold is_big. rewrite Ht. cbn [objtype_eqb andb]. apply N.leb_le. exact Hc.
Qed.

Lemma streams_ok_b_sound : forall s, streams_ok_b s = true -> streams_ok s.
Proof.
  intros s H. unfold streams_ok_b in H. apply andb_true_iff in H. destruct H as [H1 H2].
  rewrite forallb_forall in H1, H2. split.
  - intros id e He Ht Hc. specialize (H1 e (nthN_In _ _ _ _ He)).
    rewrite (is_big_true e Ht Hc) in H1.
    destruct (chain_ids_of (fat s) (d_start e)) as [l| | |]; try discriminate. exists l. reflexivity.
  - intros i j li lj Hij (ei & A1 & A2 & A3 & A4) (ej & B1 & B2 & B3 & B4).
    specialize (H2 i (In_rangeN _ _ (nthN_Some_lt _ _ _ _ A1))).
    rewrite forallb_forall in H2.
    specialize (H2 j (In_rangeN _ _ (nthN_Some_lt _ _ _ _ B1))).
    destruct (i =? j) eqn:E; [lia|].
    rewrite A1, B1, (is_big_true ei A2 A3), (is_big_true ej B2 B3), A4, B4 in H2.
    cbn [andb] in H2. exact (disjoint_b_sound _ _ H2).
Qed.

From Cfb.model Require Handle Cfb.

Module StoreExamples.
  Import Cfb.model.Handle Cfb.model.Cfb ReuseProofs.Examples.

  (* a V3 file with one stream "/s" (directory slot 1) holding 5000 bytes 7:
     ten 512-byte sectors 2..11, the last one holding 392 meaningful bytes *)
  Definition s0 : cstate := cs (fst (run_ops f0 [OCreateStream 0 p_s; OHDrop 0])).
  Definition sx : cstate := fst (write_data 1 0 (repeatN 7 5000) s0).
  Definition Vx : list byte := repeatN 7 5000.
  Definition idsx : list N := [2; 3; 4; 5; 6; 7; 8; 9; 10; 11].
  Definition sy : cstate := fst (resize 1 4096 sx).
  (* the tactics must not unfold these while unifying (vm_compute still does) *)
  Opaque s0 sx sy.

  (* the hypotheses of the theorems are satisfiable *)
  Example sx_wf : StoreWf sx.
  Proof. apply storewf_b_sound. vm_compute. reflexivity. Qed.

  Lemma big_content_check : forall s id V ids e,
    StoreWf s -> nthN (dirs s) id = Some e -> d_type e = TStream ->
    (MINI_STREAM_CUTOFF <=? d_len e) = true ->
    chain_ids_of (fat s) (d_start e) = Ok ids ->
    nodup_b ids = true -> forallb (fun x => x <? nsect s) ids = true ->
    (d_len e <=? slen s * lenN ids) = true ->
    V = takeN (d_len e) (chain_content s ids) ->
    big_content s id V /\ stream_ids s id ids.
  Proof.
    intros s id V ids e Hwf He Ht Hc Hch Hnd Hlt Hle HV.
    apply N.leb_le in Hc, Hle. split.
    - exists e, ids. csplit; try assumption.
      apply good_chain_of_wf; [exact (sw_alloc s Hwf) | apply nodup_b_sound; exact Hnd |].
      rewrite forallb_forall in Hlt. rewrite Forall_forall. intros x Hx.
      apply N.ltb_lt. apply Hlt. exact Hx.
    - exists e. csplit; assumption.
  Qed.

  Example sx_content : big_content sx 1 Vx /\ stream_ids sx 1 idsx.
  Proof.
    eapply (big_content_check sx 1 Vx idsx _ sx_wf).
    (* one goal at a time: the first one instantiates the entry *)
    - vm_compute. reflexivity.
    - vm_compute. reflexivity.
    - vm_compute. reflexivity.
    - vm_compute. reflexivity.
    - vm_compute. reflexivity.
    - vm_compute. reflexivity.
    - vm_compute. reflexivity.
    - vm_compute. reflexivity.
  Qed.

  (* S7 on this state: 5000 -> 4700 -> 5000; the 300 bytes regained are zeros *)
  Example sx_shrink_grow :
    exists s1 s2,
      resize 1 4700 sx = (s1, Ok tt) /\ resize 1 5000 s1 = (s2, Ok tt) /\
      big_content s2 1 (takeN 4700 Vx ++ repeatN 0 300).
  Proof.
    destruct sx_content as [HB Hsi].
    destruct (shrink_then_grow_zero sx 1 Vx idsx 4700 HB Hsi sx_wf)
      as (s1 & s2 & R1 & R2 & _ & HB2 & _).
    - rewrite CUTOFF_val. lia.
    - unfold Vx. rewrite lenN_repeatN. lia.
    - vm_compute. reflexivity.
    - unfold Vx. rewrite lenN_repeatN. vm_compute. discriminate.
    - unfold Vx. rewrite lenN_repeatN. vm_compute. discriminate.
    - unfold Vx in R2, HB2. rewrite lenN_repeatN in R2, HB2.
      exists s1, s2. split; [exact R1|]. split; [exact R2 | exact HB2].
  Qed.

  (* ... and the explicit zero fill is what makes this true: the same resize
     without zero_fill_chain (Chain::set_len alone, as before the repair)
     exposes the 300 stale bytes 7 that the last sector still holds *)
  Definition resize_big_nofill (id new_len : N) : M unit :=
    do '(old_start, old_len) <- stream_entry id;
    do new_start <-
      (do c <- chain_new old_start IZero;
       do c <- chain_set_len c new_len;
       (if negb (chain_start c =? old_start) then panic 612 else ret tt) ;;
       ret old_start);
    update_entry id new_start new_len.

  Example without_zero_fill_stale :
    let s1 := fst (resize 1 4700 sx) in
    snd (read_data 1 4700 300 (fst (resize_big_nofill 1 5000 s1))) = Ok (repeatN 7 300) /\
    snd (read_data 1 4700 300 (fst (resize 1 5000 s1))) = Ok (repeatN 0 300).
  Proof. vm_compute. split; reflexivity. Qed.

  (* S4 (general) then S6 on this state: 5000 -> 4096 releases sectors 10 and
     11; growing back to 5000 pops them (11 first) and the 904 regained bytes
     are zeros although both sectors were full of 7s *)
  Example sx_shrink_frees :
    exists s', resize 1 4096 sx = (s', Ok tt) /\ big_content s' 1 (takeN 4096 Vx) /\
               stream_ids s' 1 [2; 3; 4; 5; 6; 7; 8; 9] /\ free s' = [10; 11].
  Proof.
    destruct sx_content as [HB Hsi].
    destruct (resize_big_shrink sx 1 Vx idsx 4096 HB Hsi sx_wf)
      as (s' & R & HB' & Hsi' & Hf & _).
    - rewrite CUTOFF_val. lia.
    - unfold Vx. rewrite lenN_repeatN. lia.
    - vm_compute. discriminate.
    - vm_compute. discriminate.
    - exists s'. split; [exact R|]. split; [exact HB'|]. split; [exact Hsi' | exact Hf].
  Qed.

  Example sy_wf : StoreWf sy.
  Proof. apply storewf_b_sound. vm_compute. reflexivity. Qed.

  Example sy_regrow_zero :
    exists s', resize 1 5000 sy = (s', Ok tt) /\
               big_content s' 1 (takeN 4096 Vx ++ repeatN 0 904) /\
               stream_ids s' 1 [2; 3; 4; 5; 6; 7; 8; 9; 11; 10] /\ free s' = [].
  Proof.
    destruct sx_shrink_frees as (s' & R & HB & Hsi & Hf).
    assert (E : s' = sy) by (transitivity (fst (resize 1 4096 sx)); [rewrite R; reflexivity | vm_compute; reflexivity]). subst s'.
    destruct (resize_big_grow_zero_new_sectors sy 1 (takeN 4096 Vx) [2; 3; 4; 5; 6; 7; 8; 9]
                5000 [] [11; 10] HB Hsi sy_wf)
      as (s' & R' & HB' & Hsi' & Hf' & _).
    - vm_compute. reflexivity.
    - exact Hf.
    - vm_compute. reflexivity.
    - vm_compute. discriminate.
    - vm_compute. discriminate.
    - replace (lenN (takeN 4096 Vx)) with 4096 in HB'
        by (rewrite lenN_takeN; unfold Vx; rewrite lenN_repeatN; reflexivity).
      exists s'. split; [exact R'|]. split; [exact HB'|]. split; [exact Hsi' | exact Hf'].
  Qed.
  (* S6, append case, on sx (empty free stack, 12 sectors, FAT sector 0 with
     128 cells): 5000 -> 6000 appends sectors 12 and 13 *)
  Example sx_grow_append :
    exists s', resize 1 6000 sx = (s', Ok tt) /\
               big_content s' 1 (Vx ++ repeatN 0 1000) /\
               stream_ids s' 1 (idsx ++ [12; 13]) /\ nsect s' = 14.
  Proof.
    destruct sx_content as [HB Hsi].
    assert (En : nsect sx = 12) by (vm_compute; reflexivity).
    assert (Ef : fat_per_sector sx = 128) by (vm_compute; reflexivity).
    destruct (resize_big_grow_zero_append sx 1 Vx idsx 6000 2 HB Hsi sx_wf)
      as (s' & R & HB' & Hsi' & _ & Hn' & _).
    - vm_compute. reflexivity.
    - vm_compute. reflexivity.
    - intros f Hf. assert (Ed : difat sx = [0]) by (vm_compute; reflexivity).
      rewrite Ed in Hf. destruct Hf as [<-|[]]. rewrite En. lia.
    - vm_compute. reflexivity.
    - vm_compute. reflexivity.
    - rewrite En, MAXREG_val. lia.
    - intros j Hj. rewrite En, Ef. change (N.of_nat 2) with 2 in Hj. lia.
    - vm_compute. discriminate.
    - vm_compute. discriminate.
    - unfold Vx in HB'. rewrite lenN_repeatN in HB'. rewrite En in Hsi', Hn'.
      exists s'. split; [exact R|]. split; [exact HB'|]. split; [exact Hsi' | exact Hn'].
  Qed.

  (* S7 for a cut that releases sectors: 5000 -> 4096 -> 5000 *)
  Example sx_streams_ok : streams_ok sx.
  Proof. apply streams_ok_b_sound. vm_compute. reflexivity. Qed.

  Example sx_shrink_grow_general :
    exists s1 s2,
      resize 1 4096 sx = (s1, Ok tt) /\ resize 1 5000 s1 = (s2, Ok tt) /\
      big_content s2 1 (takeN 4096 Vx ++ repeatN 0 904) /\
      stream_ids s2 1 [2; 3; 4; 5; 6; 7; 8; 9; 11; 10] /\ free s2 = [].
  Proof.
    destruct sx_content as [HB Hsi].
    destruct (shrink_then_grow_zero_general sx 1 Vx idsx 4096 HB Hsi sx_wf sx_streams_ok)
      as (s1 & s2 & R1 & R2 & _ & HB2 & Hsi2 & Hf2).
    - unfold Vx. rewrite lenN_repeatN. vm_compute. reflexivity.
    - rewrite CUTOFF_val. lia.
    - unfold Vx. rewrite lenN_repeatN. lia.
    - unfold Vx. rewrite lenN_repeatN. vm_compute. discriminate.
    - unfold Vx. rewrite lenN_repeatN. vm_compute. discriminate.
    - unfold Vx in R2, HB2. rewrite lenN_repeatN in R2, HB2.
      replace ((slen sx + 4096 - 1) / slen sx) with 8 in Hsi2 by (vm_compute; reflexivity).
      assert (Ef : free sx = []) by (vm_compute; reflexivity). rewrite Ef in Hf2.
      exists s1, s2. split; [exact R1|]. split; [exact R2|]. split; [exact HB2|].
      split; [exact Hsi2 | exact Hf2].
  Qed.
End StoreExamples.

(* ------------------------------------------------------------------ *)
Check read_data_big.
Check write_data_big_inplace.
Check write_data_big_grow_within_chain.
Check resize_big_shrink_same_count.
Check resize_big_shrink.
Check resize_big_no_alloc.
Check resize_big_grow_zero_within_chain.
Check resize_big_grow_zero_tight.
Check resize_big_grow_zero_new_sectors.
Check resize_big_grow_zero_append.
Check resize_big_grow_zero_append_FatInv.
Check shrink_then_grow_zero.
Check shrink_then_grow_zero_general.
Check StoreWf_after_release.
Check storewf_b_sound.
Print Assumptions read_data_big.
Print Assumptions write_data_big_inplace.
Print Assumptions write_data_big_grow_within_chain.
Print Assumptions resize_big_shrink_same_count.
Print Assumptions resize_big_shrink.
Print Assumptions resize_big_no_alloc.
Print Assumptions resize_big_grow_zero_within_chain.
Print Assumptions resize_big_grow_zero_new_sectors.
Print Assumptions resize_big_grow_zero_append.
Print Assumptions resize_big_grow_zero_append_FatInv.
Print Assumptions shrink_then_grow_zero.
Print Assumptions shrink_then_grow_zero_general.
Print Assumptions StoreWf_after_release.
Print Assumptions StoreExamples.sx_wf.
Print Assumptions StoreExamples.sx_shrink_grow.
Print Assumptions StoreExamples.without_zero_fill_stale.
Print Assumptions StoreExamples.sy_regrow_zero.
Print Assumptions StoreExamples.sx_grow_append.
Print Assumptions StoreExamples.sx_shrink_grow_general.
